# Independent decoder / reference for C20.  This file is embedded verbatim in every replay program (after REPLAY_HEAD), so it
# only depends on the standard library, numpy and pymoto.  Every scenario function returns a list of (code, message) problems;
# an empty list means that the written files decode back to exactly what was put in.
import atexit, base64, hashlib, os, re, shutil, struct, sys, tempfile, warnings
import xml.etree.ElementTree as ET
import numpy as np
import pymoto as pym

BO = '<' if sys.byteorder == 'little' else '>'
_TMP = []
atexit.register(lambda: [shutil.rmtree(t, ignore_errors=True) for t in _TMP])


def _mktmp():
    _TMP.append(tempfile.mkdtemp(prefix='c20_'))
    return _TMP[-1]

SPECIAL = [0.1, -1.0 / 3.0, -0.0, 1e-46, 1e-40, 16777217.0, 0.0, -2.5]   # inexact in float32, signed zero, underflow, denormal, 2^24+1


def mk_array(shape, seedval, dtype='float64', layout='C'):
    """Deterministic data; layout: C | F | strided (non-contiguous view into a larger array) | neg (reversed-stride view)."""
    shape = tuple(shape)
    n = int(np.prod(shape))
    rng = np.random.default_rng(seedval)
    v = rng.uniform(-3.0, 3.0, n)
    idx = rng.permutation(n)[:min(n, len(SPECIAL))]
    v[idx] = SPECIAL[:len(idx)]
    if dtype == 'int64':
        v = np.round(v * 1000.0)
    a = v.astype(dtype).reshape(shape)
    if layout == 'F':
        a = np.asfortranarray(a)
    elif layout == 'strided':
        big = np.full(tuple(2 * s + 1 for s in shape), 7, dtype=a.dtype)
        view = big[tuple(slice(1, None, 2) for _ in shape)]
        view[...] = a
        a = view
    elif layout == 'neg':
        a = a[tuple(slice(None, None, -1) for _ in shape)].copy()[tuple(slice(None, None, -1) for _ in shape)]
    return a


def f32_bytes(values):
    """IEEE single precision image of a sequence of Python floats (round to nearest), by struct - not by numpy."""
    vals = [float(v) for v in values]
    return struct.pack(f'{BO}{len(vals)}f', *vals)


def decode_vti(path):
    """Parse a .vti file with xml.etree + base64.  Returns (info, problems)."""
    probs = []
    raw = open(path, 'rb').read()
    if not raw.startswith(b'<?xml version="1.0"?>'):
        probs.append(('xml', 'file does not start with the xml declaration'))
    if not raw.rstrip().endswith(b'</VTKFile>'):
        probs.append(('xml', 'file does not end with </VTKFile>'))
    root = ET.fromstring(raw)
    info = {'root': dict(root.attrib), 'root_tag': root.tag, 'sections': {'PointData': None, 'CellData': None}}
    imgs = list(root)
    if [c.tag for c in imgs] != ['ImageData']:
        probs.append(('xml', f'children of VTKFile are {[c.tag for c in imgs]}'))
        return info, probs
    img = imgs[0]
    info['image'] = dict(img.attrib)
    pieces = list(img)
    if [c.tag for c in pieces] != ['Piece']:
        probs.append(('xml', f'children of ImageData are {[c.tag for c in pieces]}'))
        return info, probs
    info['piece'] = dict(pieces[0].attrib)
    for sec in pieces[0]:
        if sec.tag not in info['sections'] or info['sections'][sec.tag] is not None:
            probs.append(('xml', f'unexpected or repeated section {sec.tag}'))
            continue
        arrays = []
        for da in sec:
            if da.tag != 'DataArray':
                probs.append(('xml', f'unexpected element {da.tag} in {sec.tag}'))
                continue
            txt = ''.join((da.text or '').split())
            head, body = txt[:12], txt[12:]
            try:
                hraw = base64.b64decode(head, validate=True)
                header = struct.unpack(BO + 'Q', hraw)[0]
            except Exception as e:
                header = None
                probs.append(('header', f'{da.get("Name")}: length block is not a base64 UInt64 ({e!r})'))
            try:
                data = base64.b64decode(body, validate=True)
            except Exception as e:
                data = None
                probs.append(('data', f'{da.get("Name")}: data block is not valid base64 ({e!r})'))
            arrays.append(dict(name=da.get('Name'), ncomp=da.get('NumberOfComponents'), type=da.get('type'), format=da.get('format'),
                               header=header, data=data, enc_len=len(body)))
        info['sections'][sec.tag] = arrays
    return info, probs


def expected_arrays(key, arr, kind, vecax, dim, nel, nnodes):
    """[(name or (key, i), ncomponents, float32 bytes)] for one input vector; own statement of the rule:
    1-D vector or block with a single vector -> one array named key; block vector -> one array per row/column i named key(i);
    k = len/base components; nodal k=2 in 2D padded to 3 components with a zero third component."""
    base = nnodes if kind == 'point' else nel
    a = np.asarray(arr)
    if a.ndim == 1:
        vecs = [[float(x) for x in a.tolist()]]
    else:
        other = 1 - vecax
        vecs = []
        for i in range(a.shape[other]):
            col = a[i, :] if other == 0 else a[:, i]
            vecs.append([float(x) for x in col.tolist()])
    out = []
    for i, v in enumerate(vecs):
        assert len(v) % base == 0
        k = len(v) // base
        if kind == 'point' and k == 2 and dim == 2:
            w = []
            for m in range(base):
                w += [v[2 * m], v[2 * m + 1], 0.0]
            v, k = w, 3
        out.append(((key, i) if len(vecs) > 1 else key, k, f32_bytes(v)))
    return out


def vti_problems(nel3, unit, spec, path, scale=1.0, origin=(0.0, 0.0, 0.0)):
    """Compare the file at `path` with the domain (nelx, nely, nelz), element sizes `unit` and the vectors in
    spec = {key: dict(arr=..., kind='cell'|'point', vecax=0|1|None)}."""
    nx, ny, nz = nel3
    dim = 2 if nz == 0 else 3
    nel = nx * ny * max(nz, 1)
    nnodes = (nx + 1) * (ny + 1) * (nz + 1)
    if not os.path.isfile(path):
        return [('file', f'{path} was not written')]
    try:
        info, probs = decode_vti(path)
    except ET.ParseError as e:
        return [('xml', f'not well-formed XML: {e}')]
    if 'piece' not in info:
        return probs
    rt = info['root']
    if info['root_tag'] != 'VTKFile' or rt.get('type') != 'ImageData' or rt.get('header_type') != 'UInt64' or \
            rt.get('byte_order') != ('LittleEndian' if sys.byteorder == 'little' else 'BigEndian'):
        probs.append(('attr', f'VTKFile attributes {rt}'))
    want_ext = [0, nx, 0, ny, 0, nz]
    for where, s in (('WholeExtent', info['image'].get('WholeExtent')), ('Piece Extent', info['piece'].get('Extent'))):
        try:
            got = [int(t) for t in s.split()]
        except Exception:
            got = s
        if got != want_ext:
            probs.append(('extent', f'{where} = {s!r}, expected {want_ext}'))
    for where, code, want in (('Origin', 'origin', [float(o) * scale for o in origin]), ('Spacing', 'spacing', [float(u) * scale for u in unit])):
        s = info['image'].get(where)
        try:
            got = [float(t) for t in s.split()]
        except Exception:
            got = s
        if got != want:
            probs.append((code, f'{where} = {s!r}, expected {want}'))
    want = {'PointData': [], 'CellData': []}
    for key, sp in spec.items():
        want['PointData' if sp['kind'] == 'point' else 'CellData'] += [(key, sp, e) for e in expected_arrays(key, sp['arr'], sp['kind'], sp.get('vecax'), dim, nel, nnodes)]
    for sec, other in (('PointData', 'CellData'), ('CellData', 'PointData')):
        got = info['sections'][sec]
        if not want[sec]:
            if got is not None:
                probs.append(('class', f'unexpected {sec} section with arrays {[(a["name"], a["ncomp"]) for a in got]}'))
            continue
        got = list(got or [])
        names = [a['name'] for a in got]
        if len(set(names)) != len(names):
            probs.append(('name', f'array names in {sec} are not distinct: {names}'))
        for key, sp, (nm, k, data) in want[sec]:
            if isinstance(nm, tuple):
                hit = [a for a in got if (lambda m: m is not None and int(m.group(1)) == nm[1])(re.fullmatch(re.escape(key) + r'\((\d+)\)', a['name'] or ''))]
            else:
                hit = [a for a in got if a['name'] == nm]
            if len(hit) != 1:
                elsewhere = [(a['name'], a['ncomp']) for a in (info['sections'][other] or []) if (a['name'] or '').startswith(key)]
                probs.append(('class', f'{sp["kind"]} vector {nm} (size {np.asarray(sp["arr"]).shape}) not found in {sec} (arrays there: {names}; in {other}: {elsewhere})'))
                continue
            a = hit[0]
            got.remove(a)
            if a['type'] != 'Float32' or a['format'] != 'binary':
                probs.append(('attr', f'{a["name"]}: type={a["type"]} format={a["format"]}'))
            if a['ncomp'] != str(k):
                probs.append(('ncomp', f'{a["name"]}: NumberOfComponents={a["ncomp"]}, expected {k}'))
            if a['data'] is not None and a['data'] != data:
                n = len(a['data']) // 4
                dec = struct.unpack(f'{BO}{n}f', a['data'][:4 * n])
                exp = struct.unpack(f'{BO}{len(data) // 4}f', data)
                bad = next((j for j in range(min(len(dec), len(exp))) if struct.pack('f', dec[j]) != struct.pack('f', exp[j])), None)
                probs.append(('data', f'{a["name"]}: {len(a["data"])} bytes decoded, expected {len(data)}; first differing entry {bad}: '
                                      f'{None if bad is None else dec[bad]} != {None if bad is None else exp[bad]}'))
            if a['header'] is not None and a['header'] != len(data):
                code = 'header-enc' if a['header'] == a['enc_len'] else 'header'
                probs.append((code, f'{a["name"]}: length block says {a["header"]}, raw data has {len(data)} bytes (base64 text has {a["enc_len"]} characters)'))
        if got:
            probs.append(('extra', f'arrays in {sec} that correspond to no input: {[(a["name"], a["ncomp"]) for a in got]}'))
    return probs


def write_and_check(nel3, unit, spec, scale=1.0, origin=None, fname='r.vti'):
    """DomainDefinition.write_to_vti on a fresh temporary directory, then vti_problems; also: inputs unchanged."""
    d = pym.DomainDefinition(nel3[0], nel3[1], nel3[2], *unit)
    tmp = _mktmp()
    path = os.path.join(tmp, fname)
    before = {k: (np.array(v['arr'], copy=True), np.asarray(v['arr']).dtype, np.asarray(v['arr']).shape) for k, v in spec.items()}
    kw = {} if origin is None else {'origin': origin}
    try:
        with warnings.catch_warnings():
            warnings.simplefilter('ignore')
            d.write_to_vti({k: v['arr'] for k, v in spec.items()}, path, scale=scale, **kw)
    except Exception as e:
        return [('raise', f'{type(e).__name__}: {str(e)[:200]}')]
    real = path if path.lower().endswith('.vti') else path + '.vti'
    probs = vti_problems(nel3, unit, spec, real, scale, (0.0, 0.0, 0.0) if origin is None else origin)
    for k, (cp, dt, sh) in before.items():
        a = np.asarray(spec[k]['arr'])
        if a.dtype != dt or a.shape != sh or a.tobytes() != cp.tobytes():
            probs.append(('input', f'input vector {k} was modified by the call'))
    if sorted(os.listdir(tmp)) != [os.path.basename(real)]:
        probs.append(('file', f'directory holds {sorted(os.listdir(tmp))}, expected only {os.path.basename(real)}'))
    return probs


def build_spec(recipe):
    """recipe: [(key, shape, seedval, dtype, layout, kind, vecax)] -> spec for write_and_check"""
    return {key: dict(arr=mk_array(shape, sv, dt, lay), kind=kind, vecax=ax) for key, shape, sv, dt, lay, kind, ax in recipe}


def write_recipe(nel3, unit, recipe, scale=1.0, origin=None, fname='r.vti', extra=None):
    spec = build_spec(recipe)
    if extra is None:
        return write_and_check(nel3, unit, spec, scale, origin, fname)
    # vectors that are neither element- nor node-sized are skipped by the writer and must not disturb the others
    d = pym.DomainDefinition(nel3[0], nel3[1], nel3[2], *unit)
    tmp = _mktmp()
    path = os.path.join(tmp, fname)
    vecs = {}
    for i, (k, v) in enumerate(spec.items()):
        if i == extra[0]:
            vecs['odd'] = np.arange(float(extra[1]))
        vecs[k] = v['arr']
    with warnings.catch_warnings():
        warnings.simplefilter('ignore')
        try:
            d.write_to_vti(vecs, path, scale=scale)
        except Exception as e:
            return [('raise', f'{type(e).__name__}: {str(e)[:200]}')]
    return vti_problems(nel3, unit, spec, path if path.lower().endswith('.vti') else path + '.vti', scale)


def node_size(nel3):
    return (nel3[0] + 1) * (nel3[1] + 1) * (nel3[2] + 1)


def elem_size(nel3):
    return nel3[0] * nel3[1] * max(nel3[2], 1)


def vti_module_history(nel3, unit, saveto_rel, overwrite, scale, niter, seedval, inplace=False, pass_defaults=False):
    """WriteToVTI over `niter` response() calls with data changing between the calls.  Checks after every call: the set of files,
    the decoded content of the file of this iteration, byte-identity of all earlier files, inputs unchanged."""
    nx, ny, nz = nel3
    dim = 2 if nz == 0 else 3
    nel, nn = elem_size(nel3), node_size(nel3)
    d = pym.DomainDefinition(nx, ny, nz, *unit)
    tmp = _mktmp()
    saveto = os.path.join(tmp, saveto_rel)
    shapes = {'rho': ((nel,), 'cell', None), 'disp': ((dim * nn,), 'point', None), 'T': ((nn,), 'point', None), 'modes': ((2, dim * nn), 'point', 1)}
    sigs = {k: pym.Signal(k, mk_array(sh, seedval + 17 * j)) for j, (k, (sh, _, _)) in enumerate(shapes.items())}
    probs = []
    if pass_defaults:
        m = pym.WriteToVTI(list(sigs.values()), domain=d, saveto=saveto)
        overwrite, scale = False, 1.0
    else:
        m = pym.WriteToVTI(list(sigs.values()), domain=d, saveto=saveto, overwrite=overwrite, scale=scale)
    if not os.path.isdir(os.path.dirname(saveto)):
        probs.append(('file', 'the directory of saveto was not created'))
    stem, ext = os.path.splitext(saveto)

    def fname(it):
        f = stem + ext if overwrite else f'{stem}.{it:04d}{ext}'
        return f if ext.lower() == '.vti' else f + '.vti'
    hashes = {}
    for it in range(niter):
        for j, (k, (sh, _, _)) in enumerate(shapes.items()):
            new = mk_array(sh, seedval + 17 * j + 1000 * (it + 1))
            if inplace:
                sigs[k].state[...] = new
            else:
                sigs[k].state = new
        spec = {k: dict(arr=sigs[k].state, kind=kind, vecax=ax) for k, (sh, kind, ax) in shapes.items()}
        before = {k: sigs[k].state.copy() for k in sigs}
        with warnings.catch_warnings():
            warnings.simplefilter('ignore')
            try:
                m.response()
            except Exception as e:
                return probs + [('raise', f'call {it}: {type(e).__name__}: {str(e)[:200]}')]
        want_files = sorted({fname(j) for j in range(it + 1)})
        got_files = sorted(os.path.join(dp, f) for dp, _, fs in os.walk(tmp) for f in fs)
        if got_files != want_files:
            probs.append(('file', f'after call {it}: files {[os.path.relpath(f, tmp) for f in got_files]}, expected {[os.path.relpath(f, tmp) for f in want_files]}'))
            if not os.path.isfile(fname(it)):
                return probs
        probs += [(c, f'call {it}: {msg}') for c, msg in vti_problems(nel3, unit, spec, fname(it), scale)]
        for f, h in hashes.items():
            if f != fname(it) and os.path.isfile(f) and hashlib.sha1(open(f, 'rb').read()).hexdigest() != h:
                probs.append(('file', f'call {it} changed the earlier file {os.path.relpath(f, tmp)}'))
        hashes[fname(it)] = hashlib.sha1(open(fname(it), 'rb').read()).hexdigest()
        for k in sigs:
            if sigs[k].state.tobytes() != before[k].tobytes():
                probs.append(('input', f'call {it} modified the state of input {k}'))
        if len(m.sig_out) != 0 or any(s.sensitivity is not None for s in sigs.values()):
            probs.append(('input', 'module grew outputs or set sensitivities'))
    # a second module on the same location starts again at iteration 0 and leaves later files alone
    if niter >= 2 and not pass_defaults:
        m2 = pym.WriteToVTI([sigs['rho']], domain=d, saveto=saveto, overwrite=overwrite, scale=scale)
        sigs['rho'].state = mk_array((nel,), seedval + 5)
        m2.response()
        probs += [(c, f'second module: {msg}') for c, msg in vti_problems(nel3, unit, {'rho': dict(arr=sigs['rho'].state, kind='cell', vecax=None)}, fname(0), scale)]
        for f, h in hashes.items():
            if f != fname(0) and hashlib.sha1(open(f, 'rb').read()).hexdigest() != h:
                probs.append(('file', f'second module changed {os.path.relpath(f, tmp)}'))
    return probs


# ---------------------------------------------------------------------------------------------------------- ScalarToFile
def fmt_tolerance(fmt, v):
    """|parse(format(v)) - v| bound implied by the number format (digits after the point / significant digits)."""
    mm = re.fullmatch(r'[+ ]?\d*(?:\.(\d+))?([efg])', fmt)
    prec = 6 if mm.group(1) is None else int(mm.group(1))
    kind = mm.group(2)
    slack = 8 * 2.0 ** -52   # re-parsing the decimal text to the nearest double
    if kind == 'f':
        return 0.5 * 10.0 ** (-prec) * (1 + 1e-9) + slack * abs(v)
    if kind == 'e':
        return (0.5 * 10.0 ** (-prec) + slack) * abs(v)   # v = m*10^e with m in [1, 10): error <= 0.5*10^(e-prec) <= 0.5*10^-prec*|v|
    return (0.5 * 10.0 ** (1 - max(prec, 1)) + slack) * abs(v)


def log_values(kinds, it, seedval):
    """Deterministic states for iteration `it`.  kinds: list of 'float'|'int'|'npfloat'|'np32'|'zerod'|('vec', n)|('mat', r, c)|('vec1',)"""
    rng = np.random.default_rng(seedval + 7919 * it)
    pool = [0.0, -0.0, 1.0, -2.5, 1.0 / 3.0, 123456.789, -1e12, 3e-12, 0.1]
    out = []
    for j, k in enumerate(kinds):
        def val():
            return float(pool[int(rng.integers(len(pool)))]) if rng.random() < 0.5 else float(rng.uniform(-50, 50))
        if k == 'float':
            out.append(val())
        elif k == 'int':
            out.append(int(rng.integers(-40, 40)))
        elif k == 'npfloat':
            out.append(np.float64(val()))
        elif k == 'np32':
            out.append(np.float32(val()))
        elif k == 'zerod':
            out.append(np.array(val()))
        elif k[0] == 'vec':
            out.append(np.array([val() for _ in range(k[1])]))
        elif k[0] == 'vec1':
            out.append(np.array([val()]))
        elif k[0] == 'mat':
            out.append(np.array([val() for _ in range(k[1] * k[2])]).reshape(k[1], k[2]))
    return out


def log_history(kinds, fmt, separator, fname, ncalls, seedval, junk=True, second=True):
    """ScalarToFile over `ncalls` response() calls; fmt/separator None = leave the default.  Returns problems."""
    tmp = _mktmp()
    path = os.path.join(tmp, fname)
    if junk:   # a log of an earlier run is in the way: it must be replaced, not appended to
        os.makedirs(os.path.dirname(path), exist_ok=True)
        open(path, 'w').write('Iteration\told\n0\t1.0\n1\t2.0\n2\t3.0\n')
    tags = [f's{j}' for j in range(len(kinds))]
    sigs = [pym.Signal(t) for t in tags]
    kw = {}
    if fmt is not None:
        kw['fmt'] = fmt
    if separator is not None:
        kw['separator'] = separator
    efmt = '.10e' if fmt is None else fmt
    esep = ',' if '.csv' in path else ('\t' if separator is None else separator)
    probs = []

    def run(mod, ncalls, seedval, label):
        rows = []
        for it in range(ncalls):
            vals = log_values(kinds, it, seedval)
            for s, v in zip(sigs, vals):
                s.state = v
            keep = [np.array(v, copy=True) for v in vals]
            try:
                mod.response()
            except Exception as e:
                probs.append(('raise', f'{label} call {it}: {type(e).__name__}: {str(e).splitlines()[0][:160]}'))
                return
            for s, v, c in zip(sigs, vals, keep):
                if s.state is not v or np.asarray(v).tobytes() != c.tobytes():
                    probs.append(('input', f'{label} call {it}: state of {s.tag} changed'))
            rows.append(vals)
            # expected complete file content so far (own formatting)
            head = ['Iteration']
            for t, v in zip(tags, rows[0]):
                a = np.asarray(v)
                if a.size > 1:
                    head += [f"{t}[{', '.join(str(i) for i in idx)}]" for idx in np.ndindex(a.shape)]
                else:
                    head.append(t)
            ncol = 1 + sum(np.asarray(v).size for v in rows[0])
            text = open(path).read()
            lines = text.split('\n')
            if lines[-1] != '' or len(lines) != len(rows) + 2:
                probs.append(('rows', f'{label} after call {it}: {len(lines) - 1} lines, expected 1 header + {len(rows)} rows'))
                return
            if lines[0] != esep.join(head):
                probs.append(('header', f'{label}: header line {lines[0]!r}, expected {esep.join(head)!r}'))
            if len(lines[0].split(esep)) != ncol:
                probs.append(('header-cols', f'{label}: header splits into {len(lines[0].split(esep))} columns on {esep!r}, rows have {ncol}'))
            for k, (ln, rv) in enumerate(zip(lines[1:], rows)):
                flat = [float(x) for v in rv for x in np.asarray(v, dtype=float).ravel().tolist()]
                cols = ln.split(esep)
                if len(cols) != ncol:
                    probs.append(('cols', f'{label} row {k}: {len(cols)} columns, expected {ncol}: {ln!r}'))
                    continue
                if cols[0] != str(k):
                    probs.append(('iter', f'{label} row {k}: first column {cols[0]!r}'))
                for c, x in zip(cols[1:], flat):
                    if c != format(x, efmt):
                        probs.append(('text', f'{label} row {k}: column {c!r}, expected {format(x, efmt)!r}'))
                    try:
                        back = float(c)
                    except ValueError:
                        probs.append(('parse', f'{label} row {k}: column {c!r} does not parse as a number'))
                        continue
                    if not abs(back - x) <= fmt_tolerance(efmt, x):
                        probs.append(('parse', f'{label} row {k}: column {c!r} parses to {back}, logged value {x} (format {efmt})'))
            if probs:
                return
    m = pym.ScalarToFile(sigs, saveto=path, **kw)
    if not os.path.isdir(os.path.dirname(path)):
        probs.append(('file', 'directory of saveto not created'))
    run(m, ncalls, seedval, 'first module')
    if second and not probs:
        m2 = pym.ScalarToFile(sigs, saveto=path, **kw)
        run(m2, min(ncalls, 2), seedval + 1, 'second module on the same file')
    if sorted(os.path.join(dp, f) for dp, _, fs in os.walk(tmp) for f in fs) != [path] and not any(c == 'raise' for c, _ in probs):
        probs.append(('file', 'other files than the log were created'))
    return probs
