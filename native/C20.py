"""C20 bounded stand-ins: every written .vti / log file is parsed back with an independent decoder (xml.etree + base64 + struct in
native/C20_lib.py, which is embedded verbatim in every replay program) and compared with the data that was handed in."""
import itertools, os
import numpy as np
import pymoto as pym
from native.util import bound, REPLAY_HEAD
from native import C20_lib as L

LIB = open(os.path.join(os.path.dirname(os.path.abspath(__file__)), 'C20_lib.py')).read()
UNITS = [(0.5, 1.5, 2.0), (1.0, 1.0, 1.0), (0.25, 0.25, 3.0)]
SCALES = [1.0, 0.5, 2.5, 1e-3]
ORIGINS = [None, (1.0, -2.0, 0.25), (0.1, 0.2, 0.3)]
DTYPES = [('float64', 'C'), ('float32', 'C'), ('float64', 'strided'), ('int64', 'C'), ('float64', 'F'), ('float64', 'neg'), ('bool', 'C'), ('float32', 'strided')]


def domains(tier):
    """all grids up to the bound that satisfy the property's precondition (neither count divides the other)"""
    m2, m3 = (5, 3) if tier == 'quick' else (7, 4)
    out = [(nx, ny, 0) for nx, ny in itertools.product(range(1, m2 + 1), repeat=2)] + list(itertools.product(range(1, m3 + 1), repeat=3))
    return [g for g in out if L.node_size(g) % L.elem_size(g) != 0 and L.elem_size(g) % L.node_size(g) != 0]


def replay(call, only=None, drop=('header-enc',)):
    flt = f"probs = [p for p in probs if p[0] in {tuple(only)!r}]\n" if only else f"probs = [p for p in probs if p[0] not in {tuple(drop)!r}]\n"
    return REPLAY_HEAD + LIB + f"\nprobs = {call}\n" + flt + "for p in probs:\n    print(p)\nassert not probs, probs\n"


def once(r, cond, what, inputs, observed=None, expected=None, replay_code=None, finding=None):
    """r.check, but a known finding is recorded once per check function (the harness keeps only the first 5 failures of a check; failures outside the
    known regions must stay visible)"""
    if not cond and finding is not None:
        seen = r.__dict__.setdefault('_known_seen', set())
        if finding in seen:
            return cond
        seen.add(finding)
    return r.check(cond, what, inputs, observed, expected, replay_code, finding)


def vector_recipes(g, k_seed):
    """(recipe entry, region) for every single vector written to a file of its own"""
    nel, nn = L.elem_size(g), L.node_size(g)
    out = []
    j = k_seed
    for kind, base in (('cell', nel), ('point', nn)):
        for k in (1, 2, 3):
            shapes = [((k * base,), None)]
            for m in (2, 3):
                shapes += [((m, k * base), 1), ((k * base, m), 0)]
            shapes += [((1, k * base), 1), ((k * base, 1), 0)]
            if k == 1 and base <= 40:
                shapes += [((11, base), 1), ((base, 11), 0)]
            for shape, ax in shapes:
                if len(shape) == 2:
                    m = shape[1 - ax]
                    if m > 1 and (m % nel == 0 or m % nn == 0):
                        continue   # the other axis is itself element/node sized: the block is ambiguous, not part of the bound
                dt, lay = DTYPES[j % len(DTYPES)]
                j += 1
                out.append((f'{kind[0]}{k}', shape, 100 + j, dt, lay, kind, ax))
    return out


def region_of(g, entry):
    """known defective regions of the unchanged tree for one vector"""
    _, shape, _, _, _, kind, ax = entry
    nel = L.elem_size(g)
    dim = 2 if g[2] == 0 else 3
    size = int(np.prod(shape))
    if kind == 'point' and size % nel == 0:
        return 'C20-classification'
    if kind == 'point' and len(shape) == 2 and shape[1 - ax] == 1 and dim == 2 and shape[ax] == 2 * L.node_size(g):
        return 'C20-single-vector-block-pad'
    return None


@bound('every grid up to 5x5 / 3x3x3 [quick], 7x7 / 4x4x4 [thorough] with nel, nnodes not multiples of each other; per grid every vector kind in a '
       'file of its own: element / node sized, k = 1,2,3 components, 1-D, block (m x k*n) and (k*n x m) for m = 1,2,3 (and 11 for k = 1), '
       'rotating over dtypes float64/float32/int64/bool, C/F order, strided and negative-stride views, element sizes, scale in {1,0.5,2.5,1e-3}, 3 origins; '
       'blocks whose other axis is itself a multiple of nel/nnodes excluded')
def vti_single_vectors(r, tier, seed):
    for gi, g in enumerate(domains(tier)):
        unit = UNITS[(gi + seed) % len(UNITS)]
        for ei, e in enumerate(vector_recipes(g, gi * 7 + seed)):
            scale = SCALES[(gi + ei + seed) % len(SCALES)]
            origin = ORIGINS[(gi + 2 * ei + seed) % len(ORIGINS)]
            e = (e[0], e[1], e[2] + seed, e[3], e[4], e[5], e[6])
            r.case((g, e[0], e[1], e[3], e[4]))
            probs = [p for p in L.write_recipe(g, unit, [e], scale, origin) if p[0] != 'header-enc']
            reg = region_of(g, e)
            once(r, not probs, f'{e[5]} vector of shape {e[1]} decodes back as {"point" if e[5] == "point" else "cell"} data with the right components and values',
                    dict(grid=g, unit=unit, vector=e[:2], dtype=e[3], layout=e[4], scale=scale, origin=origin), probs[:3], [],
                    replay_code=replay(f"write_recipe({g}, {unit}, [{e!r}], {scale}, {origin})"), finding=reg)


@bound('same grids; one file holding all vector kinds of vti_single_vectors that lie outside the known defective regions (shuffled order, distinct names), '
       'once more with a vector of a non-matching size (nnodes+1 or so) inserted that must be skipped without disturbing the others; file name without extension')
def vti_combined_file(r, tier, seed):
    for gi, g in enumerate(domains(tier)):
        rng = np.random.default_rng(seed + gi)
        nel, nn = L.elem_size(g), L.node_size(g)
        unit = UNITS[(gi + seed + 1) % len(UNITS)]
        rec = [e for e in vector_recipes(g, gi * 3 + seed) if region_of(g, e) is None]
        rec = [(f'{e[0]}_{i}',) + e[1:] for i, e in enumerate(rec)]
        rec = [rec[i] for i in rng.permutation(len(rec))]
        scale = SCALES[(gi + seed) % len(SCALES)]
        odd = next(s for s in range(nn + 1, nn + 200) if s % nel != 0 and s % nn != 0)
        for extra, fname in ((None, 'all.vti'), ((len(rec) // 2, odd), 'noext')):
            r.case((g, extra is None))
            probs = [p for p in L.write_recipe(g, unit, rec, scale, None, fname, extra) if p[0] != 'header-enc']
            once(r, not probs, 'file with many cell and point arrays decodes back to every input vector', dict(grid=g, unit=unit, scale=scale, nvectors=len(rec), odd_vector=extra), probs[:3], [],
                    replay_code=replay(f"write_recipe({g}, {unit}, {rec!r}, {scale}, None, {fname!r}, {extra})"))


@bound('grids 3x3, 2x2x1 (plus one small grid per class); the UInt64 block in front of each array must state the number of raw data bytes (VTK XML format); '
       'all 18 basic vector kinds', finding='C20-header-length')
def vti_length_header(r, tier, seed):
    for g in ((3, 3, 0), (2, 2, 1), (1, 3, 0)):
        for e in vector_recipes(g, seed):
            if region_of(g, e) is not None or len(e[1]) == 2:
                continue
            r.case((g, e[0]))
            try:
                probs = L.write_recipe(g, UNITS[0], [e])
            except Exception as ex:
                probs = [('raise', repr(ex))]
            hp = [p for p in probs if p[0] in ('header', 'header-enc', 'raise')]
            known = bool(hp) and all(p[0] == 'header-enc' for p in hp)
            once(r, not hp, 'length block of a binary DataArray = number of raw (decoded) bytes of the array', dict(grid=g, vector=e[:2]), hp[:2], [],
                    replay_code=replay(f"write_recipe({g}, {UNITS[0]}, [{e!r}])", only=('header', 'header-enc', 'raise')), finding='C20-header-length' if known else None)


def module_domains(tier):
    cands = [(2, 2, 0), (3, 3, 0), (1, 3, 0), (4, 2, 0), (2, 2, 1), (2, 2, 2), (3, 1, 2), (3, 3, 2)]
    if tier != 'quick':
        cands += [(5, 3, 0), (4, 4, 0), (3, 3, 3), (2, 3, 3)]
    return [g for g in cands if L.node_size(g) % L.elem_size(g) != 0]


@bound('WriteToVTI with 4 input signals (element scalar, nodal dim-vector, nodal scalar, 2 x dim*nnodes block) on 7 grids [11 thorough; 3 resp. 4 of them lie in the known C20-classification region because nel divides the size of a nodal input]; saveto in '
       '{dat.vti, out/deep/dat.vti, dat, a.b/res.x.vti, DAT.VTI}; overwrite in {False, True}; scale in {1, 0.25}; 1, 3 [and 12] calls with new state arrays or '
       'states modified in place; defaults left out; a second module on the same location afterwards')
def vti_module_history(r, tier, seed):
    savetos = ['dat.vti', os.path.join('out', 'deep', 'dat.vti'), 'dat', os.path.join('a.b', 'res.x.vti'), 'DAT.VTI']
    niters = (1, 3) if tier == 'quick' else (1, 3, 12)
    for gi, g in enumerate(module_domains(tier)):
        dim = 2 if g[2] == 0 else 3
        nel, nn = L.elem_size(g), L.node_size(g)
        reg = 'C20-classification' if any(s % nel == 0 for s in (dim * nn, nn, 2 * dim * nn)) else None
        unit = UNITS[gi % len(UNITS)]
        k = 0
        for overwrite, niter, inplace in itertools.product((False, True), niters, (False, True)):
            saveto = savetos[(k + gi + seed) % len(savetos)]
            scale = (1.0, 0.25)[(k + gi) % 2]
            k += 1
            r.case((g, saveto, overwrite, scale, niter, inplace))
            call = f"vti_module_history({g}, {unit}, {saveto!r}, {overwrite}, {scale}, {niter}, {seed + k}, {inplace})"
            probs = [p for p in L.vti_module_history(g, unit, saveto, overwrite, scale, niter, seed + k, inplace) if p[0] != 'header-enc']
            once(r, not probs, 'WriteToVTI: one file per call named <stem>.<4-digit iteration><ext> (a single file when overwrite) that decodes to the states of that call; earlier files untouched',
                    dict(grid=g, unit=unit, saveto=saveto, overwrite=overwrite, scale=scale, calls=niter, inplace=inplace), probs[:3], [], replay_code=replay(call), finding=reg)
        r.case((g, 'defaults'))
        probs = [p for p in L.vti_module_history(g, unit, 'd.vti', False, 1.0, 2, seed, False, True) if p[0] != 'header-enc']
        once(r, not probs, 'WriteToVTI defaults: numbered files, scale 1', dict(grid=g), probs[:3], [],
                replay_code=replay(f"vti_module_history({g}, {unit}, 'd.vti', False, 1.0, 2, {seed}, False, True)"), finding=reg)


@bound('array names taken from signal tags: a plain name (control) and names holding the XML-special characters & and <')
def vti_names(r, tier, seed):
    g = (3, 3, 0)
    for name in ('density', 'rho filtered', 'a&b', 'p<q'):
        e = (name, (9,), 3 + seed, 'float64', 'C', 'cell', None)
        r.case(name)
        probs = [p for p in L.write_recipe(g, UNITS[1], [e]) if p[0] != 'header-enc']
        once(r, not probs, 'file is well-formed XML and the array is found under its name', dict(name=name), probs[:2], [],
                replay_code=replay(f"write_recipe({g}, {UNITS[1]}, [{e!r}])"), finding='C20-name-not-escaped' if set(name) & set('&<') else None)


KINDS = [['float'], ['int', 'npfloat', 'zerod', 'np32'], [('vec', 3)], ['float', ('vec', 2), 'float'], [('mat', 2, 2)], [('vec1',)], ['float', ('vec1',), ('vec', 2)]]
FMTS = [None, 'e', 'f', '.3e', '.5g', '.3f', 'g', '+.4e', '.0f', '14.6e', '.12g']
SEPS = [None, ' ', ';', ',', ' | ', '\t\t']
FILES = ['log.txt', 'log.csv', os.path.join('sub', 'dir', 'log.dat'), 'run.csv']


def log_region(kinds, esep):
    if any(k == ('vec1',) for k in kinds):
        return 'C20-size1-vector'
    if any(isinstance(k, tuple) and k[0] == 'mat' for k in kinds) and (esep in ', '):
        return 'C20-log-header-2d'
    return None


@bound('ScalarToFile: 7 signal sets (Python float/int, numpy float64/float32 scalars, 0-d array, vectors of 1, 2, 3 entries, 2x2 matrix, mixtures) x 11 formats '
       '(default, e, f, .3e, .5g, .3f, g, +.4e, .0f, 14.6e, .12g) x 6 separators (default tab, space, ;, comma, " | ", two tabs) with file name (.txt, .csv, '
       'nested .dat) and 1/2/5 calls rotating [full product and 30 calls thorough]; a stale log file is in place before the first call in every second configuration (otherwise the directory does not exist yet); a second module '
       're-uses the file; width-padded format with space separator excluded')
def log_roundtrip(r, tier, seed):
    ncs = (1, 2, 5) if tier == 'quick' else (1, 2, 5, 30)
    k = 0
    for kinds, fmt, sep in itertools.product(KINDS, FMTS, SEPS):
        if fmt == '14.6e' and sep == ' ':
            continue
        combos = [(FILES[(k + seed) % len(FILES)], ncs[(k // 3 + seed) % len(ncs)])] if tier == 'quick' else list(itertools.product(FILES[:3], ncs))
        k += 1
        for fname, nc in combos:
            esep = ',' if fname.endswith('.csv') else ('\t' if sep is None else sep)
            reg = log_region(kinds, esep)
            r.case((tuple(kinds), fmt, sep, fname, nc))
            junk = (k + seed) % 2 == 0
            call = f"log_history({kinds!r}, {fmt!r}, {sep!r}, {fname!r}, {nc}, {seed + k}, {junk})"
            probs = L.log_history(kinds, fmt, sep, fname, nc, seed + k, junk)
            once(r, not probs, 'log file = one header line + one row per call; column 0 is the iteration, the others parse back to the logged values in the chosen format; header has one name per column',
                    dict(signals=kinds, fmt=fmt, separator=sep, file=fname, calls=nc, stale_file=junk), probs[:3], [], replay_code=replay(call, drop=()), finding=reg)


@bound('ScalarToFile constructed with the invalid number formats q, .3z, d, s: must be rejected at construction (nothing written later with a bad format)')
def log_bad_format(r, tier, seed):
    import tempfile
    for fmt in ('q', '.3z', 'd', 's'):
        tmp = L._mktmp()
        r.case(fmt)
        try:
            pym.ScalarToFile([pym.Signal('a', 1.0)], saveto=os.path.join(tmp, 'l.txt'), fmt=fmt)
            ok = False
        except ValueError:
            ok = True
        r.check(ok, 'invalid number format is rejected when the module is made', fmt,
                replay_code=REPLAY_HEAD + f"import tempfile\ntry:\n    pym.ScalarToFile([pym.Signal('a', 1.0)], saveto=os.path.join(tempfile.mkdtemp(), 'l.txt'), fmt={fmt!r})\nexcept ValueError:\n    sys.exit(0)\nassert False, 'accepted'\n")


CHECKS = [('vti_single_vectors', vti_single_vectors), ('vti_combined_file', vti_combined_file), ('vti_length_header', vti_length_header),
          ('vti_module_history', vti_module_history), ('vti_names', vti_names), ('log_roundtrip', log_roundtrip), ('log_bad_format', log_bad_format)]
