"""C12 case functions: plain parameters in, list of failed clauses [(what, observed, expected, finding-id-or-None), ...] out.
The sources of C08_ref.py and of this file are inlined into replay programs."""
import numpy as np
import scipy.sparse as sp
import pymoto as pym
try:
    from native.C08_ref import *          # noqa: F401,F403  (in a replay program the reference source is inlined above)
except ImportError:
    pass

SHEAR = 'C12-shear-doubled'
NODAL_COMPLEX = 'C12-nodal-complex-dropped'


def close(a, b, rt=1e-12, scale=None):
    a, b = np.asarray(a), np.asarray(b)
    if a.shape != b.shape:
        return False
    if not (np.all(np.isfinite(a)) and np.all(np.isfinite(b))):
        return False
    s = scale if scale is not None else max(float(np.abs(b).max()) if b.size else 0.0, 1e-300)
    return bool(np.abs(a - b).max() <= rt * s) if a.size else True


def make_field(kind, dim, rng):
    """displacement gradient G and offset a; 'normal'/'rigid'/'zero' have no shear (sym G diagonal), rotation part arbitrary"""
    W = rng.standard_normal((dim, dim)); W = W - W.T
    a = rng.standard_normal(dim)
    if kind == 'zero':
        return np.zeros((dim, dim)), np.zeros(dim)
    if kind == 'rigid':
        return W, a
    if kind == 'normal':
        return np.diag(rng.standard_normal(dim)) + W, a
    if kind == 'uniaxial':
        Gm = np.zeros((dim, dim)); k = int(rng.integers(dim)); Gm[k, k] = 0.7
        return Gm, np.zeros(dim)
    if kind == 'shear':
        S = rng.standard_normal((dim, dim)); S = S + S.T; np.fill_diagonal(S, 0.0)
        return S + W, a
    if kind == 'oneshear':     # a single non-zero displacement gradient component off the diagonal
        Gm = np.zeros((dim, dim)); i = int(rng.integers(dim)); j = (i + 1 + int(rng.integers(dim - 1))) % dim
        Gm[i, j] = 0.3
        return Gm, a
    if kind == 'general':
        return rng.standard_normal((dim, dim)), a
    raise ValueError(kind)


def _given(**kw):
    return {k: v for k, v in kw.items() if v is not None}


def _mat(E, nu, plane):
    """None = argument omitted: documented defaults E=1, nu=0.3, plane strain"""
    return (1.0 if E is None else E), (0.3 if nu is None else nu), ('strain' if plane is None else plane)


def case_strain(nx, ny, nz, h, voigt, field, strict, seed):
    """strict=False: normal rows, shape, zero shear for shear-free fields, shear rows in the right order up to the known factor 2, history, operand.
       strict=True : shear rows equal the engineering shear (voigt=True) / tensor shear (voigt=False, as documented) -- known finding region"""
    rng = np.random.default_rng(seed)
    d = pym.DomainDefinition(nx, ny, nz, *h)
    g = Grid(nx, ny, nz, h)
    dim = g.dim
    nst = dim * (dim + 1) // 2
    Gm, a = make_field(field, dim, rng)
    u = g.affine(a, Gm)
    u0 = u.copy()
    s = pym.Signal('u', u)
    m = pym.Strain(s, domain=d) if voigt == 'default' else pym.Strain(s, domain=d, voigt=voigt)
    vg = True if voigt == 'default' else voigt
    m.response()
    e = m.sig_out[0].state
    bad = []
    if np.shape(e) != (nst, g.nel):
        return [('strain output has shape (#strains, #elements)', np.shape(e), (nst, g.nel), None)]
    sc = max(1.0, float(np.abs(Gm).max())) + float(np.abs(u).max()) / float(g.h[:dim].min())
    eng = voigt_strain(Gm, dim, engineering=True)          # xx,yy,(zz),(yz,zx,)xy with gamma
    want = eng.copy()
    if not vg:
        want[dim:] *= 0.5                                  # documented: tensor shear for voigt=False
    W = np.repeat(want[:, None], g.nel, axis=1)
    E_ = np.repeat(eng[:, None], g.nel, axis=1)
    has_shear = bool(np.abs(eng[dim:]).max() > 0)
    if not strict:
        if not close(e[:dim], W[:dim], scale=sc):
            bad.append(('normal strain rows = du_i/dx_i in every element', e[:dim, 0], want[:dim], None))
        if not has_shear:
            if not close(e[dim:], W[dim:], scale=sc):
                bad.append(('shear rows vanish for a field without shear (stretch + rotation + translation)', e[dim:, 0], want[dim:], None))
        else:
            # weaker clause that must hold irrespective of the known factor: right components in the right rows, one common factor 1 or 2 w.r.t. the documented value
            ok = close(e[dim:], W[dim:], scale=sc) or close(e[dim:], 2 * W[dim:], scale=sc)
            if not ok:
                bad.append(('shear rows are the shears (yz,zx,xy order) of the symmetric gradient, up to the known factor 2', e[dim:, 0], want[dim:], None))
        if not np.array_equal(u, u0):
            bad.append(('input displacement not modified', None, None, None))
        # history: another field on the same module, then the first again
        G2, a2 = make_field('normal', dim, rng)
        s.state = g.affine(a2, G2)
        m.response()
        e2 = m.sig_out[0].state
        w2 = voigt_strain(G2, dim)
        sc2 = max(1.0, float(np.abs(G2).max())) + float(np.abs(s.state).max()) / float(g.h[:dim].min())
        if not close(e2, np.repeat(w2[:, None], g.nel, axis=1), scale=sc2):
            bad.append(('second response() with a new (shear-free) field on the same module', e2[:, 0], w2, None))
        s.state = u0.copy()
        m.reset()
        m.response()
        if not close(m.sig_out[0].state, e, rt=1e-15, scale=sc):
            bad.append(('third response() with the first field again reproduces the first result', None, None, None))
    else:
        if has_shear and not close(e[dim:], W[dim:], scale=sc):
            bad.append((('engineering shear gamma = 2*eps_ij in Voigt form' if vg else 'tensor shear eps_ij for voigt=False (as documented)') + ' for an affine field',
                        e[dim:, 0], want[dim:], SHEAR))
    return bad


def case_stress(nx, ny, nz, h, E, nu, plane, field, strict, seed):
    rng = np.random.default_rng(seed)
    d = pym.DomainDefinition(nx, ny, nz, *h)
    g = Grid(nx, ny, nz, h)
    dim = g.dim
    nst = dim * (dim + 1) // 2
    mat = _given(e_modulus=E, poisson_ratio=nu, plane=plane)
    E, nu, plane = _mat(E, nu, plane)
    mode = '3d' if dim == 3 else plane.lower()
    Gm, a = make_field(field, dim, rng)
    u = g.affine(a, Gm)
    u0 = u.copy()
    es0 = d.element_size.copy()
    s = pym.Signal('u', u)
    m = pym.Stress(s, domain=d, **mat)
    m.response()
    sg = m.sig_out[0].state
    if np.shape(sg) != (nst, g.nel):
        return [('stress output has shape (#stresses, #elements)', np.shape(sg), (nst, g.nel), None)]
    D = d_matrix(E, nu, mode)
    eng = voigt_strain(Gm, dim)
    has_shear = bool(np.abs(eng[dim:]).max() > 0)
    sc = float(np.abs(D).max()) * (max(1.0, float(np.abs(Gm).max())) + float(np.abs(u).max()) / float(g.h[:dim].min()))
    want = np.repeat((D @ eng)[:, None], g.nel, axis=1)
    bad = []
    if not strict:
        ms = pym.Strain(pym.Signal('u', u0.copy()), domain=d)
        ms.response()
        e = ms.sig_out[0].state
        if not close(sg, D @ e, scale=sc):
            bad.append(('Stress = constitutive matrix (from the inverse compliance) times the strain returned by Strain', sg[:, 0], (D @ e)[:, 0], None))
        if not close(sg[:dim], want[:dim], scale=sc):
            bad.append(('normal stresses = D * symmetric gradient (they do not depend on shear)', sg[:dim, 0], want[:dim, 0], None))
        if not has_shear and not close(sg, want, scale=sc):
            bad.append(('stress of a shear-free affine field = D * strain', sg[:, 0], want[:, 0], None))
        if has_shear and not (close(sg[dim:], want[dim:], scale=sc) or close(sg[dim:], 2 * want[dim:], scale=sc)):
            bad.append(('shear stresses = G * engineering shear in (yz,zx,xy) order, up to the known factor 2', sg[dim:, 0], want[dim:, 0], None))
        if not np.array_equal(u, u0) or not np.array_equal(d.element_size, es0):
            bad.append(('input displacement / domain not modified', None, None, None))
        m.response()
        if not np.array_equal(m.sig_out[0].state, sg):
            bad.append(('repeated response() gives the same stress', None, None, None))
    else:
        if has_shear and not close(sg[dim:], want[dim:], scale=sc):
            bad.append(('shear stress = G * engineering shear of the affine field', sg[dim:, 0], want[dim:, 0], SHEAR))
    return bad


def case_energy(nx, ny, nz, h, E, nu, plane, field, xkind, strict, seed):
    """sum_e x_e V_e stress_e . strain_e (modules) = u^T K u (AssembleStiffness module) = independent closed form"""
    rng = np.random.default_rng(seed)
    d = pym.DomainDefinition(nx, ny, nz, *h)
    g = Grid(nx, ny, nz, h)
    dim = g.dim
    mat = _given(e_modulus=E, poisson_ratio=nu, plane=plane)
    E, nu, plane = _mat(E, nu, plane)
    mode = '3d' if dim == 3 else plane.lower()
    Gm, a = make_field(field, dim, rng)
    u = g.affine(a, Gm)
    x = {'pos': 0.1 + rng.random(g.nel), 'ones': np.ones(g.nel), 'zeros': np.where(rng.random(g.nel) < 0.5, 0.0, rng.random(g.nel))}[xkind]
    su = pym.Signal('u', u)
    me = pym.Strain(su, domain=d); me.response()
    ms = pym.Stress(su, domain=d, **mat); ms.response()
    mk = pym.AssembleStiffness(pym.Signal('x', x), domain=d, **mat); mk.response()
    K = mk.sig_out[0].state
    e, sg = me.sig_out[0].state, ms.sig_out[0].state
    got_el = float(np.sum(x * g.vol * np.sum(e * sg, axis=0)))
    got_K = float(u @ (K @ u))
    eng = voigt_strain(Gm, dim)
    D = d_matrix(E, nu, mode)
    want = float(x.sum()) * g.vol * float(eng @ D @ eng)
    esc = float(np.abs(x).sum()) * g.vol * float(np.abs(D).max()) * dim * 2 * (max(1.0, float(np.abs(Gm).max())) + float(np.abs(u).max()) / float(g.h[:dim].min())) ** 2
    has_shear = bool(np.abs(eng[dim:]).max() > 0)
    bad = []
    if not strict:
        if not abs(got_K - want) <= 1e-10 * esc:
            bad.append(('u^T K u of the assembled stiffness = sum_e x_e V_e eps:D:eps (closed form)', got_K, want, None))
        if not has_shear and not abs(got_el - got_K) <= 1e-10 * esc:
            bad.append(('sum_e x_e V_e stress_e.strain_e = u^T K u for a shear-free affine field', got_el, got_K, None))
        if has_shear:
            # weaker clause: the normal part of the element energy is right; the shear part is the true one times 1 (fixed) or 4 (known finding)
            en_ = float(x.sum()) * g.vol * float(eng[:dim] @ D[:dim, :dim] @ eng[:dim])
            es_ = float(x.sum()) * g.vol * float(eng[dim:] @ D[dim:, dim:] @ eng[dim:])
            if not (abs(got_el - (en_ + es_)) <= 1e-10 * esc or abs(got_el - (en_ + 4 * es_)) <= 1e-10 * esc):
                bad.append(('element energy = normal part + shear part (shear part up to the known factor 2 in strain and stress)', got_el, [en_ + es_, en_ + 4 * es_], None))
    else:
        if has_shear and not abs(got_el - got_K) <= 1e-10 * esc:
            bad.append(('sum_e x_e V_e stress_e.strain_e = u^T K u for an affine field with shear', got_el, got_K, SHEAR))
    return bad


def case_average(nx, ny, nz, h, ndof, seed):
    rng = np.random.default_rng(seed)
    d = pym.DomainDefinition(nx, ny, nz, *h)
    g = Grid(nx, ny, nz, h)
    bad = []
    s = pym.Signal('v', None)
    m = pym.ElementAverage(s, domain=d)
    for call in range(3):
        c = rng.standard_normal(ndof)
        gr = rng.standard_normal((ndof, g.dim))
        if call == 2:
            gr[:] = 0.0                                        # constant field
        v = (c[None, :] + g.pos @ gr.T).reshape(-1)            # node-major, ndof values per node
        v0 = v.copy()
        s.state = v
        m.response()
        out = m.sig_out[0].state
        want = (c[:, None] + gr @ g.centroid.T)                # (ndof, nel)
        if ndof == 1:
            want = want[0]
        sc = max(1.0, float(np.abs(v).max()))
        if np.shape(out) != want.shape or not close(out, want, scale=sc):
            bad.append((f'ElementAverage of a linear nodal field = its centroid value, shape (nel) / (ndof, nel) (call #{call} on one module)', out, want, None))
            break
        if not np.array_equal(v, v0):
            bad.append(('input not modified', None, None, None))
    # adjoint: sensitivity distributes 1/2^dim of the element sensitivity to each node of the element
    dy = rng.standard_normal(np.shape(out))
    m.sig_out[0].sensitivity = dy
    m.sensitivity()
    got = s.sensitivity
    dc = g.dofconn(ndof)
    wantd = np.zeros(ndof * g.nnodes)
    dy2 = dy.reshape(ndof, g.nel)
    for e in range(g.nel):
        for k in range(g.en):
            for q in range(ndof):
                wantd[dc[e, k * ndof + q]] += dy2[q, e] / g.en
    if got is None or not close(got, wantd, scale=max(1.0, float(np.abs(dy).max()) * 8)):
        bad.append(('ElementAverage sensitivity is the transpose of the averaging', got, wantd, None))
    return bad


def _ref_elemop(g, em, u, ndof):
    """y[..., e] = sum_k em[..., k] u[dofconn[e, k]]"""
    dc = g.dofconn(ndof)
    out = np.zeros(em.shape[:-1] + (g.nel,), dtype=np.result_type(em, u))
    for e in range(g.nel):
        out[..., e] = em @ u[dc[e]]
    return out


def _ref_nodalop(g, em, x, ndof):
    """u[dofconn[e,k]] += sum_{...} em[..., k] x[..., e]"""
    dc = g.dofconn(ndof)
    out = np.zeros(ndof * g.nnodes, dtype=np.result_type(em, x))
    lead = em.ndim - 1
    for e in range(g.nel):
        xe = x[..., e]
        out_e = np.tensordot(xe, em, axes=(list(range(lead)), list(range(lead)))) if lead else em * xe
        np.add.at(out, dc[e], out_e)
    return out


def case_operators(nx, ny, nz, h, ndof, lead, cplx_u, seed):
    """ElementOperation / NodalOperation with one element matrix of shape lead + (elemnodes*ndof,): values against explicit loops,
    <EO(u), y> = <u, NO(y)>, sensitivities are each other's responses, histories, operands"""
    rng = np.random.default_rng(seed)
    d = pym.DomainDefinition(nx, ny, nz, *h)
    g = Grid(nx, ny, nz, h)
    k = g.en * ndof
    em = rng.standard_normal(tuple(lead) + (k,))
    em0 = em.copy()
    n = ndof * g.nnodes
    u = rng.standard_normal(n) + (1j * rng.standard_normal(n) if cplx_u else 0)
    y = rng.standard_normal(tuple(lead) + (g.nel,))
    su, sy = pym.Signal('u', u.copy()), pym.Signal('y', y.copy())
    eo = pym.ElementOperation(su, domain=d, element_matrix=em)
    no = pym.NodalOperation(sy, domain=d, element_matrix=em)
    eo.response(); no.response()
    Y, U = eo.sig_out[0].state, no.sig_out[0].state
    bad = []
    Yr, Ur = _ref_elemop(g, em0, u, ndof), _ref_nodalop(g, em0, y, ndof)
    sc = float(np.abs(em0).max()) * k * max(1.0, float(np.abs(u).max()), float(np.abs(y).max())) * max(1, int(np.prod(lead)) if lead else 1)
    if np.shape(Y) != Yr.shape or not close(Y, Yr, scale=sc):
        bad.append(('ElementOperation y[...,e] = B u_e with output shape (..., nel)', np.shape(Y), Yr.shape, None))
    if np.shape(U) != Ur.shape or not close(U, Ur, scale=sc):
        bad.append(('NodalOperation u = scatter-add of B^T x_e with output shape (ndof*nnodes)', np.shape(U), Ur.shape, None))
    if not bad:
        lhs, rhs = np.sum(Y * y), np.sum(u * U)
        if not abs(lhs - rhs) <= 1e-11 * sc * (n + g.nel):
            bad.append(('<ElementOperation(u), y> = <u, NodalOperation(y)> (transpose pair)', lhs, rhs, None))
    if not np.array_equal(em, em0):
        bad.append(('element matrix argument not modified', None, None, None))
    if not (np.array_equal(su.state, u) and np.array_equal(sy.state, y)):
        bad.append(('input states not modified', None, None, None))
    # sensitivities: EO^T = NO, NO^T = EO  (real part taken for real inputs is not involved here: data real unless cplx_u)
    dy = rng.standard_normal(tuple(lead) + (g.nel,)) + (1j * rng.standard_normal(tuple(lead) + (g.nel,)) if cplx_u else 0)
    du = rng.standard_normal(n)
    eo.sig_out[0].sensitivity = dy.copy()
    eo.sensitivity()
    no.sig_out[0].sensitivity = du.copy()
    no.sensitivity()
    s1, s2 = su.sensitivity, sy.sensitivity
    w1, w2 = _ref_nodalop(g, em0, dy, ndof), _ref_elemop(g, em0, du, ndof)
    sc2 = float(np.abs(em0).max()) * k * max(1.0, float(np.abs(dy).max()), float(np.abs(du).max())) * max(1, int(np.prod(lead)) if lead else 1)
    if s1 is None or np.shape(s1) != w1.shape or not close(s1, w1, scale=sc2):
        bad.append(('ElementOperation sensitivity = NodalOperation response of the output sensitivity', None if s1 is None else np.shape(s1), w1.shape, None))
    if s2 is None or np.shape(s2) != w2.shape or not close(s2, w2, scale=sc2):
        bad.append(('NodalOperation sensitivity = ElementOperation response of the output sensitivity', None if s2 is None else np.shape(s2), w2.shape, None))
    # history: reset, new inputs, same objects
    eo.reset(); no.reset()
    u2 = rng.standard_normal(n); y2 = rng.standard_normal(tuple(lead) + (g.nel,))
    su.state, sy.state = u2, y2
    eo.response(); no.response()
    if not close(eo.sig_out[0].state, _ref_elemop(g, em0, u2, ndof), scale=sc) or not close(no.sig_out[0].state, _ref_nodalop(g, em0, y2, ndof), scale=sc):
        bad.append(('second response() with new inputs on the same modules', None, None, None))
    if U is no.sig_out[0].state:
        bad.append(('NodalOperation returns a fresh output array per call', None, None, None))
    # the caller changes the very same state arrays in place and calls again
    u2 *= -0.5; u2[0] += 1.0
    y2 *= 2.0; y2[..., -1] -= 1.0
    eo.response(); no.response()
    if not close(eo.sig_out[0].state, _ref_elemop(g, em0, u2, ndof), scale=sc * 2) or not close(no.sig_out[0].state, _ref_nodalop(g, em0, y2, ndof), scale=sc * 2):
        bad.append(('third response() after the caller modified the same input arrays in place', None, None, None))
    return bad


def case_pernode(nx, ny, nz, h, ndof, lead, seed):
    """ElementOperation with a per-node element matrix lead + (elemnodes,) applied to a field with ndof values per node -> (ndof,) + lead + (nel,)"""
    rng = np.random.default_rng(seed)
    d = pym.DomainDefinition(nx, ny, nz, *h)
    g = Grid(nx, ny, nz, h)
    em = rng.standard_normal(tuple(lead) + (g.en,))
    em0 = em.copy()
    n = ndof * g.nnodes
    bad = []
    su = pym.Signal('u', None)
    eo = pym.ElementOperation(su, domain=d, element_matrix=em)
    for call in range(3):
        u = rng.standard_normal(n)
        su.state = u
        eo.response()
        Y = eo.sig_out[0].state
        comp = [_ref_elemop(g, em0, u[q::ndof], 1) for q in range(ndof)]
        want = comp[0] if ndof == 1 else np.stack(comp, axis=0)
        sc = float(np.abs(em0).max()) * g.en * max(1.0, float(np.abs(u).max()))
        if np.shape(Y) != want.shape or not close(Y, want, scale=sc):
            bad.append((f'per-node element matrix is applied to every dof separately: output (ndof, ..., nel) (call #{call})', np.shape(Y), want.shape, None))
            break
    if not np.array_equal(em, em0):
        bad.append(('caller\'s element matrix not modified by the per-dof expansion', None, None, None))
    if not bad:
        dy = rng.standard_normal(np.shape(Y))
        eo.sig_out[0].sensitivity = dy
        eo.sensitivity()
        got = su.sensitivity
        want = np.zeros(n)
        dyq = dy.reshape((ndof,) + tuple(lead) + (g.nel,))
        for q in range(ndof):
            want[q::ndof] = _ref_nodalop(g, em0, dyq[q], 1)
        if got is None or not close(got, want, scale=sc * max(1.0, float(np.abs(dy).max())) * max(1, int(np.prod(lead)) if lead else 1)):
            bad.append(('sensitivity of the per-node form is the transpose', None, None, None))
    return bad


def case_nodal_complex(nx, ny, nz, h, ndof, seed):
    rng = np.random.default_rng(seed)
    d = pym.DomainDefinition(nx, ny, nz, *h)
    g = Grid(nx, ny, nz, h)
    em = rng.standard_normal(g.en * ndof)
    x = rng.standard_normal(g.nel) + 1j * rng.standard_normal(g.nel)
    m = pym.NodalOperation(pym.Signal('x', x), domain=d, element_matrix=em)
    m.response()
    U = m.sig_out[0].state
    want = _ref_nodalop(g, em, x, ndof)
    if not close(U, want, scale=float(np.abs(em).max()) * 8 * max(1.0, float(np.abs(x).max()))):
        return [('NodalOperation of a complex element vector = B^T applied to real and imaginary part (transpose of ElementOperation, which accepts complex input)',
                 U[:4], want[:4], NODAL_COMPLEX)]
    return []


def case_thermo(nx, ny, nz, h, E, nu, alpha, plane, xkind, seed):
    rng = np.random.default_rng(seed)
    d = pym.DomainDefinition(nx, ny, nz, *h)
    g = Grid(nx, ny, nz, h)
    dim = g.dim
    mat = _given(e_modulus=E, poisson_ratio=nu, plane=plane)
    E, nu, plane = _mat(E, nu, plane)
    matt = dict(mat, **_given(alpha=alpha))
    alpha = 1e-6 if alpha is None else alpha                       # documented default
    mode = '3d' if dim == 3 else plane.lower()
    xt = {'pos': 0.1 + rng.random(g.nel), 'ones': np.ones(g.nel), 'neg': rng.standard_normal(g.nel), 'zeros': np.where(rng.random(g.nel) < 0.5, 0.0, rng.random(g.nel))}[xkind]
    xt0 = xt.copy()
    es0 = d.element_size.copy()
    s = pym.Signal('xt', xt)
    m = pym.ThermoMechanical(s, domain=d, **matt)
    m.response()
    f = m.sig_out[0].state
    n = dim * g.nnodes
    if np.shape(f) != (n,):
        return [('thermal load has one entry per dof', np.shape(f), (n,), None)]
    bad = []
    # closed form: f_e[(a,i)] = alpha * (D Phi)_i * int d_i N_a = alpha * beta_i * sign_ai * prod_{j != i} h_j / 2  (* thickness in 2-D)
    D = d_matrix(E, nu, mode)
    beta = D @ (np.array([1.0, 1.0, 0.0]) if dim == 2 else np.array([1.0, 1.0, 1.0, 0.0, 0.0, 0.0]))
    fe = np.zeros(g.en * dim)
    for c in range(g.en):
        for i in range(dim):
            sgn = 1.0 if (c >> i) & 1 else -1.0
            fe[c * dim + i] = alpha * beta[i] * sgn * np.prod([g.h[j] / 2 for j in range(dim) if j != i]) * (g.h[2] if dim == 2 else 1.0)
    want = np.zeros(n)
    dc = g.dofconn(dim)
    for e in range(g.nel):
        want[dc[e]] += xt0[e] * fe
    sc = float(np.abs(fe).max()) * max(float(np.abs(xt0).max()), 1e-300) * 8
    if not close(f, want, scale=sc):
        bad.append(('thermal load = scatter of x_e * alpha * int B^T D [1,1,(1),0..] dV (closed form)', float(np.abs(f - want).max()), sc, None))
    L = float(np.abs(g.pos).max()) + 1.0
    for k, r_ in enumerate(rigid_modes(g)):
        if not abs(float(r_ @ f)) <= 1e-11 * sc * n * L:
            bad.append((f'thermal load is self-equilibrated: orthogonal to rigid-body motion #{k}', float(r_ @ f), 0.0, None))
    if mode in ('stress', '3d'):
        mk = pym.AssembleStiffness(pym.Signal('x', xt0.copy()), domain=d, **mat)
        mk.response()
        K = mk.sig_out[0].state
        uth = alpha * g.pos.reshape(-1)            # free expansion field alpha * position (unit temperature, scaled per element through x)
        Ku = K @ uth
        kmax = float(abs(K).max()) if sp.issparse(K) else float(np.abs(K).max())
        if not close(f, Ku, rt=1e-11, scale=max(kmax, 1e-300) * abs(alpha) * L * 8 * dim):
            bad.append(('plane stress / 3-D: thermal load = assembled stiffness (scaled by the same x) times the free expansion field alpha*p', float(np.abs(f - Ku).max()), 0.0, None))
    if not np.array_equal(xt, xt0) or not np.array_equal(d.element_size, es0):
        bad.append(('input / domain not modified', None, None, None))
    # history
    xt2 = rng.standard_normal(g.nel)
    s.state = xt2
    m.response()
    f2 = m.sig_out[0].state
    want2 = np.zeros(n)
    for e in range(g.nel):
        want2[dc[e]] += xt2[e] * fe
    if not close(f2, want2, scale=float(np.abs(fe).max()) * float(np.abs(xt2).max()) * 8):
        bad.append(('second response() with a new input on the same module', None, None, None))
    if f2 is f:
        bad.append(('fresh output array per call', None, None, None))
    # adjoint
    df = rng.standard_normal(n)
    m.sig_out[0].sensitivity = df
    m.sensitivity()
    got = s.sensitivity
    wantd = np.array([fe @ df[dc[e]] for e in range(g.nel)])
    if got is None or not close(got, wantd, scale=float(np.abs(fe).max()) * float(np.abs(df).max()) * g.en * dim):
        bad.append(('ThermoMechanical sensitivity = element load vector dotted with the nodal sensitivity', got, wantd, None))
    return bad
