"""C14 bounded stand-ins: OverhangFilter against an element-by-element reference of Langelaar's layer scheme (own index arithmetic, own
support sets, scalar math), direction parsing in every string / vector form, equivariance under all mirrors and axis permutations,
monotone chain bounds for "supported solid stays solid" / "unsupported material is removed", and call histories on one module.

Field layout used throughout: X[i, j, k] is element (i, j, k); the flat signal is X.ravel(order='F') (element number (k*ny + j)*nx + i).
"""
import itertools
import math
import numpy as np
import pymoto as pym
from native.util import bound, REPLAY_HEAD

TINY = 2.2250738585072014e-308   # smallest normal double (the paper's "realmin")
AX = 'xyz'
DEFAULT = (0.5, 40.0, 1e-4)
PARAMS = [DEFAULT, (0.3, 20.0, 1e-2), (0.8, 80.0, 1e-6), (0.5, 40.0, 0.0), (0.65, 30.0, 1e-3), (0.5, 60.0, 1e-4)]


# ---------------------------------------------------------------- reference
def consts(ns, xi0, p):
    q = p + math.log(ns) / math.log(xi0)
    shift = 100.0 * TINY ** (1.0 / p)
    bs = 0.95 * ns ** (1.0 / q) * shift ** (p / q)
    return q, shift, bs


def smin(a, b, eps):
    return (a + b - math.sqrt((a - b) * (a - b) + eps) + math.sqrt(eps)) / 2


def support_offsets(dim, axis, ns):
    """Offsets (3-vectors, zero along the print axis) of the supporting elements in the previous layer."""
    if dim == 2:
        o = 1 - axis   # the other in-plane axis
        return [tuple(d if a == o else 0 for a in range(3)) for d in (-1, 0, 1)]
    o1, o2 = [a for a in range(3) if a != axis]
    out = []
    for d1, d2 in itertools.product((-1, 0, 1), repeat=2):
        if ns == 9 or abs(d1) + abs(d2) <= 1:
            v = [0, 0, 0]
            v[o1], v[o2] = d1, d2
            out.append(tuple(v))
    return out


def ref_overhang(X, dim, axis, sgn, ns, xi0, p, eps):
    """Returns (Y, S): printed densities and the smooth maximum of the supports (nan on the base layer)."""
    n = X.shape
    q, shift, bs = consts(ns, xi0, p)
    offs = support_offsets(dim, axis, ns)
    assert len(offs) == ns
    Y = np.array(X, dtype=float)
    S = np.full(n, np.nan)
    L = n[axis]
    layers = range(1, L) if sgn > 0 else range(L - 2, -1, -1)
    others = [a for a in range(3) if a != axis]
    for l in layers:
        for u in range(n[others[0]]):
            for v in range(n[others[1]]):
                idx = [0, 0, 0]
                idx[axis], idx[others[0]], idx[others[1]] = l, u, v
                acc = 0.0
                for o in offs:
                    s = [idx[a] + o[a] for a in range(3)]
                    s[axis] = l - sgn
                    if all(0 <= s[a] < n[a] for a in range(3)):
                        acc += (float(Y[tuple(s)]) + shift) ** p
                sm = acc ** (1.0 / q) - bs
                S[tuple(idx)] = sm
                Y[tuple(idx)] = smin(float(X[tuple(idx)]), sm, eps)
    return Y, S


# ---------------------------------------------------------------- plumbing
def shape3(g):
    return (g[0], g[1], max(g[2], 1))


def dim_of(g):
    return 2 if g[2] == 0 else 3


def directions(g):
    return [(a, s) for a in range(dim_of(g)) for s in (1, -1)]


def dirvec(axis, sgn):
    v = [0.0, 0.0, 0.0]
    v[axis] = float(sgn)
    return v


def make(g, direction, ns=None, par=DEFAULT, units=(1.0, 1.0, 1.0)):
    """(module, input signal). Constructing pymoto objects is slow (stack inspection), so checks re-use one module for several fields."""
    d = pym.DomainDefinition(g[0], g[1], g[2], *units)
    s = pym.Signal('x', np.zeros(d.nel))
    return pym.OverhangFilter(s, domain=d, direction=direction, xi_0=par[0], p=par[1], eps=par[2], nsampling=ns), s


def resp(ms, g, X):
    m, s = ms
    s.state = X.ravel(order='F').copy()
    m.response()
    return np.asarray(m.sig_out[0].state).reshape(shape3(g), order='F')


def run(g, X, direction, ns=None, par=DEFAULT, units=(1.0, 1.0, 1.0)):
    ms = make(g, direction, ns, par, units)
    return ms[0], ms[1], resp(ms, g, X)


def replay(g, X, direction, ns, par, body, units=(1.0, 1.0, 1.0)):
    return REPLAY_HEAD + (f"g={tuple(g)}; n=(g[0],g[1],max(g[2],1))\nx=np.array({X.ravel(order='F').tolist()})\n"
                          f"d=pym.DomainDefinition(*g, *{tuple(units)})\ns=pym.Signal('x',x.copy())\n"
                          f"m=pym.OverhangFilter(s,domain=d,direction={direction!r},xi_0={par[0]},p={par[1]},eps={par[2]},nsampling={ns})\n"
                          "m.response()\ny=np.asarray(m.sig_out[0].state)\nY=y.reshape(n,order='F')\nprint(Y)\n") + body


class guard:
    """An exception raised by the code under test for an admissible input is a recorded failure of the case, not a crash of the harness."""
    def __init__(self, r, inp, code=None):
        self.r, self.inp, self.code = r, inp, code

    def __enter__(self):
        return self

    def __exit__(self, et, ev, tb):
        if et is not None and issubclass(et, Exception):
            self.r.check(False, 'evaluation raises for an admissible input', self.inp, observed=(et.__name__ + ': ' + str(ev))[:300], replay_code=self.code)
            return True
        return False


def grids(tier):
    m2, m3 = (4, 3) if tier == 'quick' else (6, 4)
    out = [(nx, ny, 0) for nx, ny in itertools.product(range(1, m2 + 1), repeat=2)]
    out += [(nx, ny, nz) for nx, ny, nz in itertools.product(range(1, m3 + 1), repeat=3)]
    out += [(7, 2, 0), (2, 7, 0), (5, 2, 4), (2, 5, 3)] if tier == 'quick' else [(9, 3, 0), (3, 9, 0), (6, 2, 5), (2, 6, 5), (5, 6, 2)]
    return out


def fields(rng, n, xi0, k):
    """Density fields in [0,1]: uniform random, random binary, mixture of exact 0 / 1 / xi0 / random, and (rotating) uniform fields."""
    yield 'uniform', rng.random(n)
    yield 'binary', (rng.random(n) < 0.6).astype(float)
    mix = rng.random(n)
    c = rng.integers(0, 4, n)
    mix[c == 0], mix[c == 1], mix[c == 2] = 0.0, 1.0, xi0
    yield 'mixed', mix
    yield [('ones', np.ones(n)), ('zeros', np.zeros(n)), ('xi0', np.full(n, xi0))][k % 3]


# ---------------------------------------------------------------- checks
@bound('2D domain 3x2 and 3D domain 2x3x2 (anisotropic element sizes); every direction as string {a,+a,a+,-a,a-, upper case, with blanks} and as '
       'vector {tuple, list, int list, scaled ndarray, length-2 in 2D / z-padded}; invalid: two axes, no axis, z in 2D, wrong nsampling; '
       'response compared with the element-wise reference for the parsed direction')
def direction_forms(r, tier, seed):
    rng = np.random.default_rng(seed + 10)
    for g in ((3, 2, 0), (2, 3, 2)):
        dim = dim_of(g)
        X = rng.random(shape3(g))
        for axis, sgn in directions(g):
            a = AX[axis]
            strs = [a, '+' + a, a + '+', a.upper(), ' +' + a + ' ', a.upper() + '+'] if sgn > 0 else ['-' + a, a + '-', '-' + a.upper(), a.upper() + '-', a + ' -', ' - ' + a]
            v3 = dirvec(axis, sgn)
            vecs = [tuple(v3), list(v3), [int(c) for c in v3], np.array(v3) * 2.5, np.array(v3) * 1e-3, np.array(v3[:dim]), np.array([int(c) * 7 for c in v3[:dim]])]
            if dim == 3 and axis < 2:
                vecs.append(tuple(v3[:2]))   # z component omitted: padded with zero
            want_dir = np.array(v3)
            Yw, _ = ref_overhang(X, dim, axis, sgn, 3 if dim == 2 else 5, *DEFAULT)
            for form in strs + vecs:
                keep = form.copy() if isinstance(form, np.ndarray) else None
                r.case((g, axis, sgn, repr(form)))
                lit = f"np.array({form.tolist()})" if isinstance(form, np.ndarray) else repr(form)
                try:
                    m, s, Y = run(g, X, form, units=(0.5, 2.0, 1.5))
                except Exception as e:
                    r.check(False, 'admissible print direction is accepted', dict(g=g, direction=repr(form)), repr(e), want_dir,
                            replay_code=REPLAY_HEAD + f"d=pym.DomainDefinition(*{g})\nm=pym.OverhangFilter(pym.Signal('x',np.ones(d.nel)),domain=d,direction={lit})\nprint(m.direction)\n")
                    continue
                got = np.asarray(m.direction)
                r.check(got.shape == (3,) and got.dtype == np.float64 and np.array_equal(got, want_dir), 'parsed direction = signed unit vector of the requested axis',
                        dict(g=g, direction=repr(form)), got, want_dir,
                        replay_code=REPLAY_HEAD + f"d=pym.DomainDefinition(*{g})\nm=pym.OverhangFilter(pym.Signal('x',np.ones(d.nel)),domain=d,direction={lit})\nprint(m.direction)\nassert np.array_equal(m.direction, np.array({v3})), m.direction\n")
                r.check(np.allclose(Y, Yw, rtol=0, atol=1e-12), 'result for this direction form = layer scheme in the requested direction', dict(g=g, direction=repr(form)), Y, Yw,
                        replay_code=REPLAY_HEAD + f"g={g}; n=(g[0],g[1],max(g[2],1))\nd=pym.DomainDefinition(*g,0.5,2.0,1.5)\nx=np.array({X.ravel(order='F').tolist()})\nm=pym.OverhangFilter(pym.Signal('x',x),domain=d,direction={lit})\nm.response()\nw=np.array({Yw.ravel(order='F').tolist()})\nprint(m.direction)\nassert np.allclose(m.sig_out[0].state,w,rtol=0,atol=1e-12), np.abs(m.sig_out[0].state-w).max()\n")
                if keep is not None:
                    r.check(np.array_equal(form, keep), "caller's direction array is not modified", dict(g=g, direction=repr(keep)), form, keep,
                            replay_code=REPLAY_HEAD + f"d=pym.DomainDefinition(*{g})\nv=np.array({keep.tolist()})\nm=pym.OverhangFilter(pym.Signal('x',np.ones(d.nel)),domain=d,direction=v)\nm.response()\nassert np.array_equal(v,np.array({keep.tolist()})), v\n")
        # inadmissible requests must be refused, not silently mapped to some axis
        d = pym.DomainDefinition(*g)
        bad = [dict(direction='xy'), dict(direction='+'), dict(direction='-yx'), dict(direction=''), dict(direction='y', nsampling=7), dict(direction='x', nsampling=4)]
        bad += [dict(direction='z'), dict(direction=(0, 0, 1)), dict(direction='-Z'), dict(direction='x', nsampling=5), dict(direction='y', nsampling=9)] if dim == 2 else [dict(direction='z', nsampling=3), dict(direction='xz')]
        for kw in bad:
            r.case((g, 'bad', repr(kw)))
            try:
                pym.OverhangFilter(pym.Signal('x', np.ones(d.nel)), domain=d, **kw)
                ok = False
            except (ValueError, AssertionError):
                ok = True
            r.check(ok, 'inadmissible direction / nsampling is rejected at construction', dict(g=g, **kw),
                    replay_code=REPLAY_HEAD + f"d=pym.DomainDefinition(*{g})\ntry:\n    pym.OverhangFilter(pym.Signal('x',np.ones(d.nel)),domain=d,**{kw!r})\nexcept (ValueError, AssertionError):\n    sys.exit(0)\nassert False, 'accepted'\n")
        # all keyword arguments omitted: print direction +y, xi_0 = 0.5, p = 40, eps = 1e-4, nsampling 3 / 5
        r.case((g, 'defaults'))
        with guard(r, dict(g=g, what='all keyword arguments omitted'), REPLAY_HEAD + f"d=pym.DomainDefinition(*{g})\nm=pym.OverhangFilter(pym.Signal('x',np.ones(d.nel)),domain=d)\nm.response()\n"):
            sdef = pym.Signal('x', X.ravel(order='F').copy())
            mdef = pym.OverhangFilter(sdef, domain=d)
            mdef.response()
            Yd = ref_overhang(X, dim, 1, 1, 3 if dim == 2 else 5, *DEFAULT)[0].ravel(order='F')
            r.check(np.array_equal(mdef.direction, [0.0, 1.0, 0.0]) and np.allclose(mdef.sig_out[0].state, Yd, rtol=0, atol=1e-12), 'defaults: direction +y, xi_0=0.5, p=40, eps=1e-4, nsampling 3 (2D) / 5 (3D)', dict(g=g), mdef.sig_out[0].state, Yd,
                    replay_code=REPLAY_HEAD + f"d=pym.DomainDefinition(*{g})\nx=np.array({X.ravel(order='F').tolist()})\nm=pym.OverhangFilter(pym.Signal('x',x),domain=d)\nm.response()\nw=np.array({Yd.tolist()})\nprint(m.direction, np.abs(m.sig_out[0].state-w).max())\nassert np.array_equal(m.direction,[0.,1.,0.]) and np.allclose(m.sig_out[0].state,w,rtol=0,atol=1e-12)\n")
        for ns in ((None, 3) if dim == 2 else (None, 5, 9)):
            r.case((g, 'ns', ns))
            try:
                m = pym.OverhangFilter(pym.Signal('x', np.ones(d.nel)), domain=d, direction='x', nsampling=ns)
            except Exception as e:
                r.check(False, 'admissible nsampling is accepted', dict(g=g, nsampling=ns), repr(e)[:300])
                continue
            r.check(m.nsampling == ({2: 3, 3: 5}[dim] if ns is None else ns), 'nsampling default 3 (2D) / 5 (3D), else as given', dict(g=g, nsampling=ns), m.nsampling,
                    replay_code=REPLAY_HEAD + f"d=pym.DomainDefinition(*{g})\nm=pym.OverhangFilter(pym.Signal('x',np.ones(d.nel)),domain=d,direction='x',nsampling={ns})\nassert m.nsampling=={({2: 3, 3: 5}[dim] if ns is None else ns)}, m.nsampling\n")


@bound('all 2D domains up to 4x4 and 3D up to 3x3x3 plus 7x2, 2x7, 5x2x4, 2x5x3 [quick]; up to 6x6 / 4x4x4 plus 5 elongated [thorough] (one-element-wide '
       'included); all 4/6 directions (vector and string alternating); nsampling 3 / 5 and 9; parameters (xi_0,p,eps): default plus one of '
       '{(0.3,20,1e-2),(0.8,80,1e-6),(0.5,40,0),(0.65,30,1e-3),(0.5,60,1e-4)} rotating; fields: uniform, binary, 0/1/xi_0 mixture, constant (1 round quick / 3 rounds thorough, all on one module per configuration); tol 1e-12 (observed discrepancy 6e-16)')
def layer_scheme(r, tier, seed):
    rng = np.random.default_rng(seed + 11)
    k = 0
    for g in grids(tier):
        dim, n = dim_of(g), shape3(g)
        for (axis, sgn), ns in itertools.product(directions(g), (3,) if dim == 2 else (5, 9)):
            k += 1
            for pi, par in enumerate((DEFAULT, PARAMS[1 + (k + k // 5 + k // 12) % (len(PARAMS) - 1)])):
                xi0, p, eps = par
                form = (k + k // 2 + k // 4 + k // 12 + pi) % 4   # rotates so that every direction / nsampling meets every form and parameter set
                direction = [dirvec(axis, sgn)[:dim], dirvec(axis, sgn), ('-' if sgn < 0 else '+') + AX[axis], AX[axis].upper() + ('-' if sgn < 0 else '')][form]
                ms = None
                for name, X in [(f'{nm}{rd}', F) for rd in range(1 if tier == 'quick' else 3) for nm, F in fields(rng, n, xi0, k + rd)]:
                    r.case((g, axis, sgn, ns, par, name))
                    x0 = X.ravel(order='F').copy()
                    inp = dict(g=g, direction=direction, ns=ns, par=par, field=name, x=x0)
                    with guard(r, inp, replay(g, X, direction, ns, par, '')):
                        Yw, Sw = ref_overhang(X, dim, axis, sgn, ns, xi0, p, eps)
                        if ms is None:
                            ms = make(g, direction, ns, par)   # one module per configuration, re-used for its 4 fields
                        m, s = ms
                        Y = resp(ms, g, X)
                        base = [slice(None)] * 3
                        base[axis] = 0 if sgn > 0 else n[axis] - 1
                        base = tuple(base)
                        wl = Yw.ravel(order='F').tolist()
                        code_ref = replay(g, X, direction, ns, par, f"w=np.array({wl})\nprint(w.reshape(n,order='F'))\nassert isinstance(m.sig_out[0].state,np.ndarray) and y.dtype==np.float64 and y.shape==x.shape\nassert np.all(np.isfinite(y))\nassert np.allclose(y,w,rtol=0,atol=1e-12), np.abs(y-w).max()\n")
                        y = np.asarray(m.sig_out[0].state)
                        r.check(isinstance(m.sig_out[0].state, np.ndarray) and y.shape == x0.shape and y.dtype == np.float64, 'output is a float vector of the input size', inp, (y.shape, str(y.dtype)), replay_code=code_ref)
                        r.check(np.array_equal(Y[base], X[base]), 'base layer is returned unchanged (exactly)', inp, Y[base], X[base],
                                replay_code=replay(g, X, direction, ns, par, f"X=x.reshape(n,order='F')\nb=[slice(None)]*3; b[{axis}]={base[axis]}; b=tuple(b)\nassert np.array_equal(Y[b],X[b])\n"))
                        r.check(np.allclose(Y, Yw, rtol=0, atol=1e-12), 'y_e = smin(x_e, smax(printed supports in the previous layer)) for every element', inp, Y, Yw,
                                replay_code=replay(g, X, direction, ns, par, f"w=np.array({wl})\nprint(w.reshape(n,order='F'))\nassert np.allclose(y,w,rtol=0,atol=1e-12), np.abs(y-w).max()\n"))
                        r.check(np.all(Y <= X + math.sqrt(eps) / 2 + 1e-14), 'no element exceeds its input by more than sqrt(eps)/2', inp, float((Y - X).max()), math.sqrt(eps) / 2,
                                replay_code=replay(g, X, direction, ns, par, f"assert np.all(y<=x+{math.sqrt(eps) / 2!r}+1e-14), (y-x).max()\n"))
                        nb = ~np.isnan(Sw)
                        r.check(np.all(Y[nb] <= Sw[nb] + math.sqrt(eps) / 2 + 1e-10), 'no element exceeds the smooth maximum of its supports by more than sqrt(eps)/2', inp, replay_code=code_ref)
                        r.check(np.all(np.isfinite(Y)), 'result is finite', inp, Y, replay_code=code_ref)
                        r.check(np.array_equal(np.asarray(s.state), x0), 'input signal is not modified', inp, np.asarray(s.state), x0,
                                replay_code=replay(g, X, direction, ns, par, "assert np.array_equal(s.state,x)\n"))


def lower_chain(L, ns, par):
    """c_l: lower bound on the printed density of a solid element in layer l that is supported (through >= 1 support per layer) by solid down to the base."""
    q, shift, bs = consts(ns, par[0], par[1])
    c = [1.0]
    for _ in range(L):
        c.append(smin(1.0, (c[-1] + shift) ** (par[1] / q) - bs, par[2]))
    return c


@bound('2D domains {6x5,5x6,1x5,5x1,2x4} and 3D {4x4x4,1x3x4,3x1x4,4x3x1,2x2x5} [quick] / plus {9x8, 8x9, 5x5x6, 6x5x5} [thorough], all directions, nsampling 3/5/9, '
       'the 6 parameter sets; fields: all solid, random binary, 45-degree staircase, floating block over void, random; bounds from the monotone chains '
       '(solid: c_0=1, c_l=smin(1,(c_(l-1)+shift)^(p/q)-bs); layer maximum: v_0=max x_0, v_l=smin(max x_l, ns^(1/q)(v_(l-1)+shift)^(p/q)-bs))')
def solid_and_void(r, tier, seed):
    rng = np.random.default_rng(seed + 12)
    gs = [(6, 5, 0), (5, 6, 0), (1, 5, 0), (5, 1, 0), (2, 4, 0), (4, 4, 4), (1, 3, 4), (3, 1, 4), (4, 3, 1), (2, 2, 5)]
    if tier != 'quick':
        gs += [(9, 8, 0), (8, 9, 0), (5, 5, 6), (6, 5, 5)]
    for g in gs:
        dim, n = dim_of(g), shape3(g)
        for (axis, sgn), ns, par in itertools.product(directions(g), (3,) if dim == 2 else (5, 9), PARAMS):
            xi0, p, eps = par
            q, shift, bs = consts(ns, xi0, p)
            L = n[axis]
            order = list(range(L)) if sgn > 0 else list(range(L - 1, -1, -1))    # order[l] = index of the l-th printed layer
            layer_of = np.empty(L, dtype=int)
            layer_of[order] = np.arange(L)
            lay = layer_of[np.indices(n)[axis]]   # lay[i,j,k] = print layer of element (i,j,k)
            offs = support_offsets(dim, axis, ns)
            c = lower_chain(L, ns, par)
            flds = [('solid', np.ones(n)), ('binary', (rng.random(n) < 0.7).astype(float)), ('random', rng.random(n))]
            # 45-degree staircase: solid where the first orthogonal coordinate <= print layer (printable without support structure)
            o1 = 1 - axis if dim == 2 else [a for a in range(3) if a != axis][0]
            co = np.indices(n)[o1]
            flds.append(('staircase', (co <= lay).astype(float)))
            for kf in sorted({1, max(1, L // 2)}):   # solid block floating above kf void layers
                flds.append((f'floating{kf}', (lay >= kf).astype(float)))
            ms = None
            for name, X in flds:
                r.case((g, axis, sgn, ns, par, name))
                inp = dict(g=g, axis=axis, sgn=sgn, ns=ns, par=par, field=name, x=X.ravel(order='F'))
                try:
                    ms = ms or make(g, ('-' if sgn < 0 else '') + AX[axis], ns, par)
                    Y = resp(ms, g, X)
                except Exception as e:
                    r.check(False, 'evaluation raises for an admissible input', inp, repr(e)[:300], replay_code=replay(g, X, ('-' if sgn < 0 else '') + AX[axis], ns, par, ''))
                    continue
                # printable solid set: solid base elements; solid elements with at least one in-domain support in the set
                P = np.zeros(n, dtype=bool)
                for l in range(L):
                    for idx in zip(*np.nonzero((lay == l) & (X == 1.0))):
                        if l == 0:
                            P[idx] = True
                            continue
                        for o in offs:
                            sidx = [idx[a] + o[a] for a in range(3)]
                            sidx[axis] = order[l - 1]
                            if all(0 <= sidx[a] < n[a] for a in range(3)) and P[tuple(sidx)]:
                                P[idx] = True
                                break
                lowb = np.array(c)[lay]
                ok = np.all(Y[P] >= lowb[P] - 1e-11)
                r.check(ok, 'supported solid stays solid: y_e >= c_layer(e) for solid elements carried by solid supports down to the base', inp, float((Y - lowb)[P].min()) if P.any() else None, None,
                        replay_code=replay(g, X, ('-' if sgn < 0 else '') + AX[axis], ns, par,
                                           f"P=np.array({P.ravel(order='F').tolist()})\nlow=np.array({lowb.ravel(order='F').tolist()})\nassert np.all(y[P]>=low[P]-1e-11), (y-low)[P].min()\n"))
                if par == DEFAULT:
                    r.check(np.all(Y[P] >= 1 - 1e-5) and np.all(Y[P] <= 1 + math.sqrt(eps) / 2 + 1e-14), 'supported solid stays solid with the default parameters: 1-1e-5 <= y_e <= 1+sqrt(eps)/2', inp,
                            float(Y[P].min()) if P.any() else None,
                            replay_code=replay(g, X, ('-' if sgn < 0 else '') + AX[axis], ns, par, f"P=np.array({P.ravel(order='F').tolist()})\nassert np.all(y[P]>=1-1e-5) and np.all(y[P]<=1.005+1e-14), (y[P].min(), y[P].max())\n"))
                # layerwise upper bound
                v = []
                for l in range(L):
                    mx = float(X[lay == l].max())
                    v.append(mx if l == 0 else smin(mx, ns ** (1 / q) * (v[-1] + shift) ** (p / q) - bs, eps))
                upb = np.array(v)[lay]
                r.check(np.all(Y <= upb + 1e-11), 'printed density of a layer is bounded by the chain v_l (nothing is created above what the layer below can carry)', inp, float((Y - upb).max()), None,
                        replay_code=replay(g, X, ('-' if sgn < 0 else '') + AX[axis], ns, par, f"up=np.array({upb.ravel(order='F').tolist()})\nassert np.all(y<=up+1e-11), (y-up).max()\n"))
                if name.startswith('floating') and L >= 2:
                    kf = int(name[8:])
                    first = Y[lay == kf]
                    if kf == 1:   # supports are the (exactly void) base layer: smax = ns_in^(1/q) shift^(p/q) - bs <= (0.05/0.95) bs
                        lim = math.sqrt(eps) / 2 + 0.05 / 0.95 * bs + 1e-12
                        r.check(np.all(first <= lim) and np.all(Y[lay == 0] == 0.0), 'unsupported material is removed: solid directly above a void base prints at most sqrt(eps)/2 (+ the 5% backshift margin)', inp,
                                float(first.max()), lim,
                                replay_code=replay(g, X, '-' + AX[axis] if sgn < 0 else AX[axis], ns, par, f"lay=np.array({lay.ravel(order='F').tolist()})\nassert np.all(y[lay==1]<={lim!r}), y[lay==1].max()\nassert np.all(y[lay==0]==0)\n"))
                    if par == DEFAULT:
                        fl = lay >= kf
                        r.check(np.all(Y[~fl] <= 1e-6) and np.all(Y[fl] <= 0.005 + 0.0045 * (lay[fl] - kf) + 1e-4), 'default parameters: void stays below 1e-6 and a floating block prints below 0.005 + 0.0045 per layer above the void', inp, float(Y.max()),
                                replay_code=replay(g, X, '-' + AX[axis] if sgn < 0 else AX[axis], ns, par, f"lay=np.array({lay.ravel(order='F').tolist()})\nfl=lay>={kf}\nassert np.all(y[~fl]<=1e-6) and np.all(y[fl]<=0.005+0.0045*(lay[fl]-{kf})+1e-4)\n"))


def transforms(dim):
    """All mirrors / axis permutations of the domain (2D: the 8 in-plane ones; 3D: all 48)."""
    perms = [pp + (2,) for pp in itertools.permutations((0, 1))] if dim == 2 else list(itertools.permutations((0, 1, 2)))
    for perm in perms:
        for flips in itertools.product((False, True), repeat=dim):
            yield perm, tuple(flips) + (False,) * (3 - dim)


def apply_T(A, perm, flips):
    B = np.transpose(A, perm)
    for a in range(3):
        if flips[a]:
            B = np.flip(B, axis=a)
    return np.ascontiguousarray(B)


@bound('2D domains {4x3,1x4,3x3} and 3D {3x2x4,2x2x1,3x3x3(thorough)} [+ 5x4, 4x3x5 thorough]; all 8 (2D) / 48 (3D) mirror+permutation maps; all directions; nsampling 3/5/9; '
       '2 random fields; both runs on the real code, tol 1e-12 (summation order of the supports changes under a mirror)')
def equivariance(r, tier, seed):
    rng = np.random.default_rng(seed + 13)
    gs = [(4, 3, 0), (1, 4, 0), (3, 3, 0), (3, 2, 4), (2, 2, 1)] + ([] if tier == 'quick' else [(5, 4, 0), (3, 3, 3), (4, 3, 5)])
    k = c14 = 0
    for g in gs:
        dim, n = dim_of(g), shape3(g)
        cache = {}   # modules are re-used across maps (construction is slow); every module therefore also sees a history of different fields
        for (axis, sgn), ns in itertools.product(directions(g), (3,) if dim == 2 else (5, 9)):
            c14 += 1
            par = PARAMS[c14 % 3]
            Xs = [rng.random(n), np.round(rng.random(n) * 4) / 4]
            try:
                ms0 = make(g, dirvec(axis, sgn), ns, par)
                Ys = [resp(ms0, g, X) for X in Xs]
            except Exception as e:
                r.check(False, 'evaluation raises for an admissible input', dict(g=g, axis=axis, sgn=sgn, ns=ns, par=par), repr(e)[:300], replay_code=replay(g, Xs[0], dirvec(axis, sgn), ns, par, ''))
                continue
            for perm, flips in transforms(dim):
                k += 1
                # new axis a' is old axis perm[a'], mirrored if flips[a']
                na = perm.index(axis)
                nsgn = -sgn if flips[na] else sgn
                g2 = tuple(g[perm[a]] for a in range(dim)) + ((0,) if dim == 2 else ())
                direction = dirvec(na, nsgn) if (k + k // 2 + k // 4 + k // 8) % 2 else (AX[na] + ('-' if nsgn < 0 else '+'))
                key = (g2, repr(direction), ns, par)
                for X, Y in zip(Xs, Ys):
                    X2 = apply_T(X, perm, flips)
                    try:
                        if key not in cache:
                            cache[key] = make(g2, direction, ns, par)
                        Y2 = resp(cache[key], g2, X2)
                    except Exception as e:
                        r.check(False, 'evaluation raises for an admissible input', dict(g=g2, direction=direction, ns=ns, par=par), repr(e)[:300], replay_code=replay(g2, X2, direction, ns, par, ''))
                        continue
                    want = apply_T(Y, perm, flips)
                    r.case((g, axis, sgn, ns, perm, flips))
                    r.check(Y2.shape == want.shape and np.allclose(Y2, want, rtol=0, atol=1e-12), 'filter(mapped design, mapped direction) = mapped filter(design, direction)',
                            dict(g=g, axis=axis, sgn=sgn, ns=ns, perm=perm, flips=flips, par=par, x=X.ravel(order='F')), Y2, want,
                            replay_code=REPLAY_HEAD + f"def go(g,x,dr):\n    d=pym.DomainDefinition(*g)\n    m=pym.OverhangFilter(pym.Signal('x',x),domain=d,direction=dr,xi_0={par[0]},p={par[1]},eps={par[2]},nsampling={ns})\n    m.response()\n    return m.sig_out[0].state.reshape((g[0],g[1],max(g[2],1)),order='F')\n"
                            f"X=np.array({X.ravel(order='F').tolist()}).reshape({n},order='F')\nperm={perm}; flips={flips}\ndef T(A):\n    B=np.transpose(A,perm)\n    for a in range(3):\n        if flips[a]: B=np.flip(B,axis=a)\n    return np.ascontiguousarray(B)\n"
                            f"Y=go({g},X.ravel(order='F'),{dirvec(axis, sgn)})\nY2=go({g2},T(X).ravel(order='F'),{direction!r})\nprint(np.abs(Y2-T(Y)).max())\nassert np.allclose(Y2,T(Y),rtol=0,atol=1e-12)\n")


@bound('one module per (domain in {4x3, 3x1, 3x2x3} [+ {5x4, 1x6, 2x3x4, 4x1x3} thorough], direction, nsampling); sequence of 7 response() calls: x1, x2, x1, (caller overwrites the returned array), x1, '
       '(sensitivity() with a seed), x1, reset(), x3 assigned as new array, x3 modified in place; each result compared with the element-wise reference; input never modified; '
       'output never aliases the input')
def histories(r, tier, seed):
    rng = np.random.default_rng(seed + 14)
    for g in ((4, 3, 0), (3, 1, 0), (3, 2, 3)) + (() if tier == 'quick' else ((5, 4, 0), (1, 6, 0), (2, 3, 4), (4, 1, 3))):
        for (axis, sgn), ns in itertools.product(directions(g), (3,) if dim_of(g) == 2 else (5, 9)):
            try:
                history_one(r, rng, g, axis, sgn, ns)
            except Exception as e:
                r.check(False, 'call sequence on one module raises', dict(g=g, axis=axis, sgn=sgn, ns=ns), repr(e)[:300])


def history_one(r, rng, g, axis, sgn, ns):
    dim, n = dim_of(g), shape3(g)
    par = DEFAULT
    x1, x2, x3 = [rng.random(n) for _ in range(3)]
    x2[x2 < 0.3] = 0.0
    ref = lambda X: ref_overhang(X, dim, axis, sgn, ns, *par)[0].ravel(order='F')
    d = pym.DomainDefinition(*g)
    s = pym.Signal('x', x1.ravel(order='F').copy())
    m = pym.OverhangFilter(s, domain=d, direction=dirvec(axis, sgn), nsampling=ns)
    inp = dict(g=g, axis=axis, sgn=sgn, ns=ns)
    head = REPLAY_HEAD + (f"d=pym.DomainDefinition(*{g})\nx1=np.array({x1.ravel(order='F').tolist()})\nx2=np.array({x2.ravel(order='F').tolist()})\nw1=np.array({ref(x1).tolist()})\nw2=np.array({ref(x2).tolist()})\n"
                          f"s=pym.Signal('x',x1.copy())\nm=pym.OverhangFilter(s,domain=d,direction={dirvec(axis, sgn)},nsampling={ns})\n"
                          "ok=lambda w: np.allclose(m.sig_out[0].state,w,rtol=0,atol=1e-12)\n")

    def step(label, X, code):
        r.case((g, axis, sgn, ns, label))
        before = np.asarray(s.state).copy()
        try:
            m.response()
        except Exception as e:
            r.check(False, f'call sequence, step "{label}": evaluation raises', dict(inp, step=label), repr(e)[:300], replay_code=head + code)
            return np.zeros(d.nel)
        y = np.asarray(m.sig_out[0].state)
        r.check(np.allclose(y, ref(X), rtol=0, atol=1e-12), f'call sequence, step "{label}": result = layer scheme of the current input (nothing stale)', dict(inp, step=label), y, ref(X), replay_code=head + code)
        r.check(np.array_equal(np.asarray(s.state), before) and np.array_equal(before, X.ravel(order='F')), f'call sequence, step "{label}": input state is not modified', dict(inp, step=label), replay_code=head + code)
        r.check(not np.shares_memory(y, np.asarray(s.state)), f'call sequence, step "{label}": output does not alias the input', dict(inp, step=label),
                replay_code=head + "m.response()\nassert not np.shares_memory(m.sig_out[0].state, s.state)\n")
        return y

    step('first', x1, "m.response()\nassert ok(w1)\nassert np.array_equal(s.state,x1)\n")
    s.state = x2.ravel(order='F').copy()
    step('new input', x2, "m.response()\ns.state=x2.copy()\nm.response()\nassert ok(w2)\nassert np.array_equal(s.state,x2)\n")
    s.state = x1.ravel(order='F').copy()
    y = step('back to first input', x1, "m.response()\ns.state=x2.copy()\nm.response()\ns.state=x1.copy()\nm.response()\nassert ok(w1)\n")
    y[:] = -3.0   # the caller re-uses the returned array
    r.check(np.array_equal(np.asarray(s.state), x1.ravel(order='F')), 'overwriting the returned array does not change the input', inp, replay_code=head + "m.response()\nm.sig_out[0].state[:]=-3.0\nassert np.array_equal(s.state,x1)\n")
    step('after caller overwrote the output', x1, "m.response()\nm.sig_out[0].state[:]=-3.0\nassert np.array_equal(s.state,x1)\nm.response()\nassert ok(w1)\n")
    m.sig_out[0].sensitivity = rng.random(d.nel)
    try:
        m.sensitivity()
    except Exception as e:
        r.check(False, 'sensitivity() raises', inp, repr(e)[:300], replay_code=head + "m.response()\nm.sig_out[0].sensitivity=np.linspace(0.1,1,d.nel)\nm.sensitivity()\n")
    r.check(np.array_equal(np.asarray(s.state), x1.ravel(order='F')) and np.allclose(m.sig_out[0].state, ref(x1), rtol=0, atol=1e-12), 'sensitivity() changes neither the input nor the output state', inp,
            replay_code=head + "m.response()\nm.sig_out[0].sensitivity=np.linspace(0.1,1,d.nel)\nm.sensitivity()\nassert np.array_equal(s.state,x1) and ok(w1)\n")
    step('after sensitivity()', x1, "m.response()\nm.sig_out[0].sensitivity=np.linspace(0.1,1,d.nel)\nm.sensitivity()\nm.response()\nassert ok(w1) and np.array_equal(s.state,x1)\n")
    m.reset()
    s.state = x3.ravel(order='F').copy()
    step('after reset, third input', x3, f"x3=np.array({x3.ravel(order='F').tolist()})\nw3=np.array({ref(x3).tolist()})\nm.response()\nm.reset()\ns.state=x3.copy()\nm.response()\nassert ok(w3)\n")
    x3b = x3.copy()
    x3b[tuple(np.array(n) // 2)] = 1.0
    x3b[(0, 0, 0)] = 0.0
    s.state[:] = x3b.ravel(order='F')   # modified in place by the caller
    step('input modified in place', x3b, f"x3=np.array({x3b.ravel(order='F').tolist()})\nw3=np.array({ref(x3b).tolist()})\nm.response()\ns.state[:]=x3\nm.response()\nassert ok(w3)\n")


@bound('float32 density fields (floating 0/1 block and uniform 0.5) on 4x3 and 3x3x3, default parameters, directions +y / -x / +z: result must be finite and equal to the double '
       'precision layer scheme to 1e-3', finding='C14-float32-nan')
def single_precision_field(r, tier, seed):
    for g, drs in (((4, 3, 0), ('+y', '-x')), ((3, 3, 3), ('+z', '-x'))):
        dim, n = dim_of(g), shape3(g)
        for dr in drs:
            axis, sgn = AX.index(dr[1]), (-1 if dr[0] == '-' else 1)
            for name, X in (('floating', None), ('half', np.full(n, 0.5))):
                if X is None:
                    X = np.zeros(n)
                    sl = [slice(None)] * 3
                    sl[axis] = slice(1, None) if sgn > 0 else slice(0, -1)
                    X[tuple(sl)] = 1.0
                r.case((g, dr, name))
                d = pym.DomainDefinition(*g)
                s = pym.Signal('x', X.ravel(order='F').astype(np.float32))
                m = pym.OverhangFilter(s, domain=d, direction=dr)
                try:
                    m.response()
                    y = np.asarray(m.sig_out[0].state, dtype=float)
                except Exception as e:
                    y = np.full(d.nel, np.nan)
                w = ref_overhang(X, dim, axis, sgn, 3 if dim == 2 else 5, *DEFAULT)[0].ravel(order='F')
                r.check(np.all(np.isfinite(y)) and np.allclose(y, w, rtol=0, atol=1e-3), 'a single-precision density field is filtered by the same layer scheme (finite, unsupported material removed)',
                        dict(g=g, direction=dr, field=name), y, w, finding='C14-float32-nan',
                        replay_code=REPLAY_HEAD + f"d=pym.DomainDefinition(*{g})\nx=np.array({X.ravel(order='F').tolist()},dtype=np.float32)\nm=pym.OverhangFilter(pym.Signal('x',x),domain=d,direction={dr!r})\nm.response()\ny=m.sig_out[0].state\nprint(y, m.shift, m.backshift)\nw=np.array({w.tolist()})\nassert np.all(np.isfinite(y)) and np.allclose(y,w,rtol=0,atol=1e-3)\n")


CHECKS = [('direction_forms', direction_forms), ('layer_scheme', layer_scheme), ('solid_and_void', solid_and_void), ('equivariance', equivariance),
          ('histories', histories), ('single_precision_field', single_precision_field)]
