"""C09 bounded stand-ins: DensityFilter against the dense cone-weight formula; FilterConv against an explicit convolution with the field
extended axis by axis by the selected rule (own index arithmetic, no scipy / np.pad), for radius kernels (relative / absolute units) and
arbitrary odd kernels, every combination of boundary modes, value overrides, call histories; and the derived clauses (constants preserved,
range preserved, volume preserved under all-symmetric padding with a mirror-symmetric kernel).

Field layout: X[i, j, k] is element (i, j, k); the flat signal is X.ravel(order='F') (element number (k*ny + j)*nx + i).
Extension semantics used as the definition: each axis is extended in the order x, y, z; positions below 0 follow the rule of the *min* side,
positions >= n the rule of the *max* side: symmetric = even reflection about the boundary (repeated when the pad exceeds the domain),
edge = nearest element, wrap = periodic, number = that constant. Mixed rules on one axis are only used with pad <= n.
"""
import itertools
import math
import numpy as np
import pymoto as pym
from native.util import bound, REPLAY_HEAD

MODES = ('symmetric', 'edge', 'wrap', 'const')
SIDES = ('xmin_bc', 'xmax_bc', 'ymin_bc', 'ymax_bc', 'zmin_bc', 'zmax_bc')
CONSTS = (0.0, 2, 0.25, -0.5, 1.0, 0.75)   # a different constant on every side (one of them a Python int)


# ---------------------------------------------------------------- reference
def shape3(g):
    return (g[0], g[1], max(g[2], 1))


def src_index(I, n, rule):
    """Source element for the out-of-domain position I under a rule (None for a constant)."""
    if rule == 'symmetric':
        m = I % (2 * n)
        return m if m < n else 2 * n - 1 - m
    if rule == 'edge':
        return min(max(I, 0), n - 1)
    if rule == 'wrap':
        return I % n
    return None


def extend_axis(A, axis, p, lo, hi):
    n = A.shape[axis]
    shp = list(A.shape)
    shp[axis] = n + 2 * p
    B = np.empty(shp, dtype=np.result_type(A.dtype, float))
    for P in range(n + 2 * p):
        I = P - p
        dst = [slice(None)] * 3
        dst[axis] = P
        rule = None if 0 <= I < n else (lo if I < 0 else hi)
        j = I if rule is None else src_index(I, n, rule)
        if j is None:
            B[tuple(dst)] = rule
        else:
            srcs = [slice(None)] * 3
            srcs[axis] = j
            B[tuple(dst)] = A[tuple(srcs)]
    return B


def extend(X, pads, bcs):
    """bcs = [xmin, xmax, ymin, ymax, zmin, zmax] with strings or numbers."""
    E = X
    for a in range(3):
        E = extend_axis(E, a, pads[a], bcs[2 * a], bcs[2 * a + 1])
    return E


def conv_valid(E, W, n):
    """y[i,j,k] = sum_{a,b,c} W[a,b,c] E[i+2px-a, j+2py-b, k+2pz-c]  (true convolution, kernel centred on the element)."""
    Y = np.zeros(n, dtype=np.result_type(E.dtype, W.dtype, float))
    sx, sy, sz = W.shape
    for a in range(sx):
        for b in range(sy):
            for c in range(sz):
                if W[a, b, c] != 0:
                    Y += W[a, b, c] * E[sx - 1 - a:sx - 1 - a + n[0], sy - 1 - b:sy - 1 - b + n[1], sz - 1 - c:sz - 1 - c + n[2]]
    return Y


def ref_filterconv(X, W, bcs, overrides=()):
    n = X.shape
    pads = [s // 2 for s in W.shape]
    E = extend(X, pads, bcs)
    for kind, index, value in overrides:
        if kind == 'padded':
            E[index] = value
        else:
            E[pads[0]:pads[0] + n[0], pads[1]:pads[1] + n[1], pads[2]:pads[2] + n[2]][index] = value
    return conv_valid(E, W, n)


def cone_kernel(g, radius, units=None):
    """Cone weights max(0, r - d) on the window of +-min(n_axis, ceil(r/h)) elements per axis, normalised to sum one."""
    h = (1.0, 1.0, 1.0) if units is None else units
    P = [min(g[a], int(math.ceil(radius / h[a]))) for a in range(3)]
    W = np.zeros([2 * q + 1 for q in P])
    for a, b, c in itertools.product(*[range(-q, q + 1) for q in P]):
        W[a + P[0], b + P[1], c + P[2]] = max(0.0, radius - math.sqrt((a * h[0]) ** 2 + (b * h[1]) ** 2 + (c * h[2]) ** 2))
    return W / W.sum()


def ref_density(X, radius):
    n = X.shape
    idx = np.array(list(itertools.product(range(n[0]), range(n[1]), range(n[2]))))   # C order over (i,j,k)
    x = np.array([X[tuple(t)] for t in idx])
    D = np.sqrt(((idx[:, None, :] - idx[None, :, :]) ** 2).sum(-1))
    H = np.maximum(0.0, radius - D)
    y = (H @ x) / H.sum(1)
    Y = np.empty(n, dtype=y.dtype)
    for t, v in zip(idx, y):
        Y[tuple(t)] = v
    return Y


# ---------------------------------------------------------------- plumbing
def bc_kwargs(bcs):
    return {k: v for k, v in zip(SIDES, bcs)}


def flat(X):
    return X.ravel(order='F').copy()


def lit(a):
    a = np.asarray(a)
    return f"np.array({a.tolist()})" + ('' if a.dtype.kind == 'f' else f".astype('{a.dtype.str}')")


def rp_conv(g, units, X, kw_src, want, extra='', tol=1e-12):
    return REPLAY_HEAD + (f"g={tuple(g)}; n=(g[0],g[1],max(g[2],1))\nd=pym.DomainDefinition(*g,*{tuple(units)})\nx={lit(flat(X))}\ns=pym.Signal('x',x.copy())\n"
                          f"m=pym.FilterConv(s,domain=d,{kw_src})\n{extra}m.response()\ny=np.asarray(m.sig_out[0].state)\nw={lit(flat(want))}\nprint(y.reshape(n,order='F'))\nprint(w.reshape(n,order='F'))\n"
                          f"assert y.shape==w.shape and np.allclose(y,w,rtol=0,atol={tol}), np.abs(y-w).max()\nassert np.array_equal(s.state,x)\n")


def kw_source(bcs=None, radius=None, relative=None, W=None):
    parts = []
    if radius is not None:
        parts.append(f"radius={radius!r}")
    if relative is not None:
        parts.append(f"relative_units={relative}")
    if W is not None:
        parts.append(f"weights=np.array({np.asarray(W).tolist()})")
    if bcs is not None:
        parts += [f"{k}={v!r}" for k, v in zip(SIDES, bcs)]
    return ','.join(parts)


class guard:
    """An exception raised by the code under test for an admissible input is a recorded failure of the case, not a crash of the harness."""
    def __init__(self, r, inp, code=None):
        self.r, self.inp, self.code = r, inp, code

    def __enter__(self):
        return self

    def __exit__(self, et, ev, tb):
        if et is not None and issubclass(et, Exception):
            self.r.check(False, 'evaluation raises for an admissible input', self.inp, observed=(et.__name__ + ': ' + str(ev))[:300], replay_code=self.code)
            return True
        return False


def scale(*arrs):
    return max(1.0, *[float(np.abs(a).max()) for a in arrs])


def fields(rng, n, k):
    yield 'random', rng.random(n)
    d = np.zeros(n)
    d[tuple(rng.integers(0, s) for s in n)] = 1.0
    yield 'delta', d
    yield [('signed', rng.random(n) * 4 - 2), ('binary', (rng.random(n) < 0.5).astype(float)), ('corner', np.where(np.indices(n).sum(0) == 0, 1.0, 0.0))][k % 3]


# ---------------------------------------------------------------- DensityFilter
@bound('all 2D domains up to 5x5 and 3D up to 3x3x3 plus 7x3, 2x2x5 [quick]; up to 7x7, 4x4x4 plus 10x4, 6x6x3 [thorough] (one-element-wide included; anisotropic element '
       'sizes on every other domain); radii {0.5, 1, 1.5, 2, 2.5, 3.7, 12}; fields random / delta / signed|binary|corner / constant, plus one complex and one integer '
       'field per domain; dense reference H_ij = max(0, r - |c_i - c_j|), y = Hx / rowsum; tol 1e-13*scale; second response() on the same module after the input changed')
def density_filter(r, tier, seed):
    rng = np.random.default_rng(seed + 20)
    m2, m3 = (5, 3) if tier == 'quick' else (7, 4)
    gs = [(a, b, 0) for a, b in itertools.product(range(1, m2 + 1), repeat=2)] + [t for t in itertools.product(range(1, m3 + 1), repeat=3)]
    gs += [(7, 3, 0), (2, 2, 5)] if tier == 'quick' else [(10, 4, 0), (6, 6, 3)]
    radii = [0.5, 1.0, 1.5, 2, 2.5, 3.7, 12.0]
    for k, g in enumerate(gs):
        n = shape3(g)
        units = (1.0, 1.0, 1.0) if k % 2 else (0.5, 2.0, 1.25)
        d = pym.DomainDefinition(*g, *units)
        sig = pym.Signal('x', np.zeros(d.nel))
        for radius in radii:
            inp0 = dict(g=g, radius=radius)
            code0 = REPLAY_HEAD + f"d=pym.DomainDefinition(*{g},*{units})\nm=pym.DensityFilter(pym.Signal('x',np.arange(d.nel)*1.0),domain=d,radius={radius!r})\nm.response()\nprint(m.sig_out[0].state)\n"
            with guard(r, inp0, code0):
                m = pym.DensityFilter(sig, domain=d, radius=radius)
                flds = list(fields(rng, n, k)) + [('constant', np.full(n, 0.3 + 0.1 * k))]
                if radius in (1.5, 3.7):
                    flds += [('complex', rng.random(n) + 1j * rng.random(n)), ('integer', rng.integers(0, 2, n))]
                for name, X in flds:
                    r.case((g, radius, name))
                    x0 = flat(X)
                    sig.state = x0.copy()
                    m.response()
                    y = np.asarray(m.sig_out[0].state)
                    Yw = ref_density(X, float(radius))
                    inp = dict(g=g, radius=radius, field=name, x=x0)
                    tol = 1e-13 * scale(Yw)
                    code = REPLAY_HEAD + (f"g={g}; n=(g[0],g[1],max(g[2],1))\nd=pym.DomainDefinition(*g,*{units})\nx={lit(x0)}\ns=pym.Signal('x',x.copy())\nm=pym.DensityFilter(s,domain=d,radius={radius!r})\nm.response()\n"
                                          f"y=np.asarray(m.sig_out[0].state)\nw={lit(flat(Yw))}\nprint(y); print(w)\nassert y.shape==w.shape and np.allclose(y,w,rtol=0,atol={tol}), np.abs(y-w).max()\nassert np.array_equal(s.state,x)\n")
                    r.check(y.shape == x0.shape and np.allclose(y, flat(Yw), rtol=0, atol=tol), 'DensityFilter: y_i = sum_j max(0,r-d_ij) x_j / sum_j max(0,r-d_ij)', inp, y, flat(Yw), replay_code=code)
                    r.check(np.array_equal(np.asarray(sig.state), x0), 'DensityFilter: input state is not modified', inp, replay_code=code)
                    r.check(not np.shares_memory(y, np.asarray(sig.state)), 'DensityFilter: output does not alias the input', inp, replay_code=code + 'assert not np.shares_memory(m.sig_out[0].state, s.state)\n')
                    if name not in ('complex',):
                        lo, hi = float(X.min()), float(X.max())
                        r.check(np.all(y >= lo - tol) and np.all(y <= hi + tol), 'DensityFilter: every output within [min x, max x]', inp, [float(y.min()), float(y.max())], [lo, hi], replay_code=code)
                    if name == 'constant':
                        r.check(np.allclose(y, x0, rtol=0, atol=tol), 'DensityFilter: constant field is mapped to the same constant', inp, y, x0, replay_code=code)
                    if radius < 1.0 + 1e-12 and name != 'integer':
                        r.check(np.allclose(y, x0, rtol=0, atol=tol), 'DensityFilter: radius <= one element returns the field itself', inp, y, x0, replay_code=code)


# ---------------------------------------------------------------- FilterConv: radius kernels
@bound('2D domains {1x1,1x4,4x1,2x3,5x4,3x6} and 3D {1x1x1,3x1x2,1x3x3,3x4x2,4x3x3} [quick] / plus {8x5, 2x9, 5x4x4, 3x3x6} [thorough]; element sizes (1,1,1), (0.5,1,2), (1.2,0.7,1); '
       'radii {0.4,1,1.5,2,2.6,3.5,9} x relative / absolute units; boundary rules: all symmetric, plus 1 [quick] / 4 [thorough] rotating combinations of symmetric/edge/wrap/constant (mixed only where '
       'pad <= n holds automatically for radius kernels); own cone kernel on +-min(n, ceil(r/h)) elements; fields random/delta/rotating + constant; tol 1e-12*scale')
def conv_radius(r, tier, seed):
    rng = np.random.default_rng(seed + 21)
    gs = [(1, 1, 0), (1, 4, 0), (4, 1, 0), (2, 3, 0), (5, 4, 0), (3, 6, 0), (1, 1, 1), (3, 1, 2), (1, 3, 3), (3, 4, 2), (4, 3, 3)]
    if tier != 'quick':
        gs += [(8, 5, 0), (2, 9, 0), (5, 4, 4), (3, 3, 6)]
    unit_sets = [(1.0, 1.0, 1.0), (0.5, 1.0, 2.0), (1.2, 0.7, 1.0)]
    combos = [c for c in itertools.product(MODES, repeat=6)]
    k = 0
    radii = (0.4, 1, 1.5, 2.0, 2.6, 3.5, 9.0)
    for gi, g in enumerate(gs):
        n = shape3(g)
        for (ri, radius), rel, (ui, units) in itertools.product(enumerate(radii), (True, False), enumerate(unit_sets)):
            if tier == 'quick' and ui != (gi + ri) % 3 and (rel or ui == 0):
                continue   # quick: relative units with one (rotating) element-size set per radius; absolute units with both non-unit sets (+ the rotating one)
            d = pym.DomainDefinition(*g, *units)
            sig = pym.Signal('x', np.zeros(d.nel))
            W = cone_kernel(g, float(radius), None if rel else units)
            sym = ('symmetric',) * 6
            bc_list = [sym] + [tuple(CONSTS[i] if mname == 'const' else mname for i, mname in enumerate(combos[(977 * (k + j) + 131 * j) % len(combos)])) for j in range(1 if tier == 'quick' else 4)]
            for bcs in bc_list:
                k += 1
                kws = kw_source(bcs if bcs != sym or k % 2 else None, radius, rel)
                inp0 = dict(g=g, units=units, radius=radius, relative_units=rel, bcs=bcs)
                with guard(r, inp0, rp_conv(g, units, np.zeros(n), kws, np.zeros(n))):
                    kw = dict(radius=radius, relative_units=rel)
                    if bcs != sym or k % 2:
                        kw.update(bc_kwargs(bcs))   # (all-symmetric is also exercised through the defaults)
                    m = pym.FilterConv(sig, domain=d, **kw)
                    noconst = all(isinstance(b, str) for a in range(3) for b in bcs[2 * a:2 * a + 2] if W.shape[a] > 1)
                    for name, X in list(fields(rng, n, k)) + [('constant', np.full(n, 0.7))]:
                        r.case((g, units, radius, rel, bcs, name))
                        x0 = flat(X)
                        sig.state = x0.copy()
                        m.response()
                        y = np.asarray(m.sig_out[0].state)
                        Yw = ref_filterconv(X, W, bcs)
                        tol = 1e-12 * scale(Yw, X)
                        inp = dict(inp0, field=name, x=x0)
                        code = rp_conv(g, units, X, kws, Yw, tol=tol)
                        r.check(y.shape == x0.shape and np.allclose(y, flat(Yw), rtol=0, atol=tol), 'FilterConv(radius): y = cone kernel (normalised) * field extended by the boundary rules', inp, y, flat(Yw), replay_code=code)
                        r.check(np.array_equal(np.asarray(sig.state), x0), 'FilterConv: input state is not modified', inp, replay_code=code)
                        if noconst:
                            lo, hi = float(X.min()), float(X.max())
                            r.check(np.all(y >= lo - tol) and np.all(y <= hi + tol), 'FilterConv(radius, no constant padding): every output within [min x, max x]', inp, [float(y.min()), float(y.max())], [lo, hi], replay_code=code)
                            if name == 'constant':
                                r.check(np.allclose(y, x0, rtol=0, atol=tol), 'FilterConv(radius, no constant padding): constant field is mapped to the same constant', inp, y, x0, replay_code=code)
                        if bcs == sym:
                            r.check(abs(y.sum() - x0.sum()) <= 1e-12 * scale(X) * X.size, 'FilterConv(radius, all symmetric): total volume is preserved', inp, float(y.sum()), float(x0.sum()), replay_code=code)


# ---------------------------------------------------------------- FilterConv: arbitrary kernels, all boundary combinations
def rand_kernel(rng, shape, kind):
    if kind == 'signed':
        return np.round(rng.random(shape) * 16 - 6) / 8
    W = np.round(rng.random(shape) * 15 + 1)
    if kind == 'mirror':
        for a in range(3):
            W = W + np.flip(W, axis=a)
    if kind in ('mirror', 'nonneg'):
        return W / W.sum()
    return W


@bound('2D: domain 3x4 (elements 0.5x2), kernels 3x5 (asymmetric, signed; passed as a 2-D array) and 3x1 (1-D array): all 4^4 = 256 combinations of {symmetric, edge, wrap, constant} on the 4 sides '
       '(z rules rotating, must be ignored); 3D: domain 3x2x2, kernel 3x3x3 asymmetric: all 4^6 = 4096 combinations [thorough] / every 13th (coprime to 4: every side still sees every rule next to every rule of the other sides) plus all single-rule ones, 1-D kernel on every 3rd combination [quick]; a different '
       'constant on every side; pad <= n on every axis; fields random + delta; tol 1e-12*scale')
def conv_boundary_modes(r, tier, seed):
    rng = np.random.default_rng(seed + 22)
    sig = None
    for g, units, Ws in (((3, 4, 0), (0.5, 2.0, 1.0), [('3x5', rand_kernel(rng, (3, 5, 1), 'signed')), ('3', rand_kernel(rng, (3, 1, 1), 'raw'))]),
                         ((3, 2, 2), (1.0, 1.0, 1.0), [('3x3x3', rand_kernel(rng, (3, 3, 3), 'signed'))])):
        n = shape3(g)
        d = pym.DomainDefinition(*g, *units)
        sig = pym.Signal('x', np.zeros(d.nel))
        Xs = [rng.random(n) * 2 - 0.5, None]
        Xs[1] = np.zeros(n)
        Xs[1][0, n[1] - 1, 0] = 1.0
        nsides = 4 if g[2] == 0 else 6
        for wname, W in Ws:
            Wpass = W[:, :, 0] if wname == '3x5' else (W[:, 0, 0] if wname == '3' else W)
            for ci, combo in enumerate(itertools.product(MODES, repeat=nsides)):
                if nsides == 6 and tier == 'quick' and ci % 13 and len(set(combo)) > 1:
                    continue
                if wname == '3' and tier == 'quick' and ci % 3:
                    continue
                if nsides == 4:
                    combo = combo + (MODES[ci % 4], MODES[(ci // 4) % 4])   # z rules on a 2D domain: irrelevant by definition
                bcs = tuple(CONSTS[i] if mname == 'const' else mname for i, mname in enumerate(combo))
                kws = kw_source(bcs, W=Wpass)
                inp0 = dict(g=g, kernel=wname, bcs=bcs)
                with guard(r, inp0, rp_conv(g, units, Xs[0], kws, np.zeros(n))):
                    m = pym.FilterConv(sig, domain=d, weights=Wpass, **bc_kwargs(bcs))
                    for X in Xs:
                        r.case((g, wname, bcs))
                        x0 = flat(X)
                        sig.state = x0.copy()
                        m.response()
                        y = np.asarray(m.sig_out[0].state)
                        Yw = ref_filterconv(X, W, bcs)
                        tol = 1e-12 * scale(Yw, X)
                        r.check(y.shape == x0.shape and np.allclose(y, flat(Yw), rtol=0, atol=tol), 'FilterConv(weights): y = kernel * field extended by the rule selected on each of the six boundaries',
                                dict(inp0, weights=W, x=x0), y, flat(Yw), replay_code=rp_conv(g, units, X, kws, Yw, tol=tol))
                        r.check(np.array_equal(np.asarray(sig.state), x0), 'FilterConv: input state is not modified', dict(inp0, x=x0), replay_code=rp_conv(g, units, X, kws, Yw, tol=tol))


@bound('kernels wider than the domain (pad > n) with the same rule on both sides of an axis: domains {2x3, 1x2, 2x1x3, 1x1x1} x kernels {7x1, 5x7, 3x9x1, 5x3x5, 7x7x7(3D only)} (3D quick: 3x9x1 and 5x3x5 on 2x1x3, 7x7x7 on 1x1x1) '
       'x per-axis rule pairs from {symmetric, edge, wrap, constant} (all 4^2 / 4^3 assignments); signed asymmetric kernels; fields random + delta; tol 1e-12*scale')
def conv_wide_kernels(r, tier, seed):
    rng = np.random.default_rng(seed + 23)
    for g in ((2, 3, 0), (1, 2, 0), (2, 1, 3), (1, 1, 1)):
        n = shape3(g)
        dim = 2 if g[2] == 0 else 3
        d = pym.DomainDefinition(*g)
        sig = pym.Signal('x', np.zeros(d.nel))
        shapes = [(7, 1, 1), (5, 7, 1), (3, 9, 1)] + ([(5, 3, 5), (7, 7, 7)] if dim == 3 else [])
        if tier == 'quick' and dim == 3:
            shapes = [(3, 9, 1), (5, 3, 5)] if g == (2, 1, 3) else [(7, 7, 7)]
        Xs = [rng.random(n), np.where(np.indices(n).sum(0) == 0, 1.0, 0.0)]
        for shp in shapes:
            W = rand_kernel(rng, shp, 'signed')
            for combo in itertools.product(MODES, repeat=dim):
                bcs = []
                for a in range(3):
                    mname = combo[a] if a < dim else 'symmetric'
                    bcs += [CONSTS[2 * a] if mname == 'const' else mname, CONSTS[2 * a + 1] if mname == 'const' else mname]
                bcs = tuple(bcs)
                kws = kw_source(bcs, W=W)
                inp0 = dict(g=g, kernel=shp, bcs=bcs)
                with guard(r, inp0, rp_conv(g, (1.0, 1.0, 1.0), Xs[0], kws, np.zeros(n))):
                    m = pym.FilterConv(sig, domain=d, weights=W, **bc_kwargs(bcs))
                    for X in Xs:
                        r.case((g, shp, bcs))
                        x0 = flat(X)
                        sig.state = x0.copy()
                        m.response()
                        y = np.asarray(m.sig_out[0].state)
                        Yw = ref_filterconv(X, W, bcs)
                        tol = 1e-12 * scale(Yw, X)
                        r.check(y.shape == x0.shape and np.allclose(y, flat(Yw), rtol=0, atol=tol), 'FilterConv(weights wider than the domain): y = kernel * repeatedly extended field',
                                dict(inp0, x=x0), y, flat(Yw), replay_code=rp_conv(g, (1.0, 1.0, 1.0), X, kws, Yw, tol=tol))


@bound('non-negative kernels with sum one (dyadic-random, shapes 3x3, 1x5, 5x3, 3x3x3, 1x1x3, 7x3 on domains {4x3, 1x5, 5x2, 3x3x2, 2x2x3, 3x4}): all 3^4 / 3^6 (every 11th in quick) combinations of '
       'symmetric/edge/wrap: constants preserved and range preserved; mirror-symmetric kernels with all-symmetric padding (also pad > n): volume preserved; fields random, binary, signed, constant')
def conv_convexity_volume(r, tier, seed):
    rng = np.random.default_rng(seed + 24)
    cfg = [((4, 3, 0), (3, 3, 1)), ((1, 5, 0), (1, 5, 1)), ((5, 2, 0), (5, 3, 1)), ((3, 3, 2), (3, 3, 3)), ((2, 2, 3), (1, 1, 3)), ((3, 4, 0), (7, 3, 1))]
    for g, shp in cfg:
        n = shape3(g)
        dim = 2 if g[2] == 0 else 3
        d = pym.DomainDefinition(*g, 1.0, 0.5, 2.0)
        sig = pym.Signal('x', np.zeros(d.nel))
        Xs = [('random', rng.random(n)), ('binary', (rng.random(n) < 0.5).astype(float)), ('signed', rng.random(n) * 6 - 3), ('constant', np.full(n, -1.75))]
        mixed_ok = all(shp[a] // 2 <= n[a] for a in range(3))
        combos = list(itertools.product(MODES[:3], repeat=2 * dim))
        for ci, combo in enumerate(combos):
            uniform_axes = all(combo[2 * a] == combo[2 * a + 1] for a in range(dim))
            if not mixed_ok and not uniform_axes:
                continue
            if dim == 3 and tier == 'quick' and ci % 11 and len(set(combo)) > 1:
                continue
            bcs = tuple(combo) + ('symmetric',) * (6 - 2 * dim)
            allsym = all(b == 'symmetric' for b in bcs)
            for kind in (('nonneg', 'mirror') if allsym or tier != 'quick' else (('nonneg', 'mirror')[ci % 2],)):
                W = rand_kernel(rng, shp, kind)
                kws = kw_source(bcs, W=W)
                inp0 = dict(g=g, bcs=bcs, kernel=kind, weights=W)
                with guard(r, inp0, rp_conv(g, (1.0, 0.5, 2.0), Xs[0][1], kws, np.zeros(n))):
                    m = pym.FilterConv(sig, domain=d, weights=W, **bc_kwargs(bcs))
                    for name, X in Xs:
                        r.case((g, bcs, kind, name))
                        x0 = flat(X)
                        sig.state = x0.copy()
                        m.response()
                        y = np.asarray(m.sig_out[0].state)
                        tol = 1e-12 * scale(X)
                        lo, hi = float(X.min()), float(X.max())
                        inp = dict(inp0, field=name, x=x0)
                        code = REPLAY_HEAD + (f"d=pym.DomainDefinition(*{g},1.0,0.5,2.0)\nx={lit(x0)}\nm=pym.FilterConv(pym.Signal('x',x),domain=d,{kws})\nm.response()\ny=m.sig_out[0].state\nprint(y)\n"
                                              f"assert np.all(y>={lo!r}-{tol}) and np.all(y<={hi!r}+{tol}), (y.min(),y.max())\n" + (f"assert abs(y.sum()-x.sum())<={tol * X.size}, y.sum()-x.sum()\n" if allsym and kind == 'mirror' else ''))
                        r.check(np.all(y >= lo - tol) and np.all(y <= hi + tol), 'FilterConv(non-negative kernel summing to one, no constant padding): every output within [min x, max x]', inp, [float(y.min()), float(y.max())], [lo, hi], replay_code=code)
                        if name == 'constant':
                            r.check(np.allclose(y, x0, rtol=0, atol=tol), 'FilterConv(non-negative kernel summing to one, no constant padding): constants are preserved', inp, y, x0, replay_code=code)
                        if allsym and kind == 'mirror':
                            r.check(abs(y.sum() - x0.sum()) <= tol * X.size, 'FilterConv(all symmetric, mirror-symmetric kernel): total volume is preserved', inp, float(y.sum()), float(x0.sum()), replay_code=code)


# ---------------------------------------------------------------- overrides and histories
@bound('domains 4x3 (kernels 3x5 and radius 1.5) and 3x2x3 (kernels 5x3x1, 1x3x5; unequal pads per axis): override_values with a slice tuple, an integer-array tuple and a boolean mask; override_padded_values with '
       'a padded-index box; two overrides on overlapping regions (the later wins); boundary rules all-symmetric, (wrap, 0.5, edge, symmetric, 1.0, symmetric) and (0, symmetric, 0, 0, 0, 0); response sequence x1, x2, x1, '
       'override added, x1, caller overwrites the returned array, x1; weights array changed by the caller after construction')
def conv_overrides_histories(r, tier, seed):
    rng = np.random.default_rng(seed + 25)
    for g, W in (((4, 3, 0), rand_kernel(rng, (3, 5, 1), 'signed')), ((3, 2, 3), rand_kernel(rng, (5, 3, 1), 'signed')), ((3, 2, 3), rand_kernel(rng, (1, 3, 5), 'signed')), ((4, 3, 0), None)):
        n = shape3(g)
        d = pym.DomainDefinition(*g)
        Wref = cone_kernel(g, 1.5)[1:-1, 1:-1, :] if W is None else W   # radius 1.5: one element each side has non-zero weight
        pads = [s // 2 for s in Wref.shape]
        for bcs in (('symmetric',) * 6, ('wrap', 0.5, 'edge', 'symmetric', 1.0, 'symmetric'), (0.0, 'symmetric', 0.0, 0.0, 0.0, 0.0)):
            x1, x2 = rng.random(n), rng.random(n) - 0.5
            sig = pym.Signal('x', flat(x1))
            Wuser = None if W is None else W.copy()
            kw = dict(radius=1.5) if W is None else dict(weights=Wuser)
            kws = kw_source(bcs, radius=None if W is not None else 1.5, W=W)
            inp0 = dict(g=g, bcs=bcs, kernel='radius 1.5' if W is None else W.shape)
            head = REPLAY_HEAD + (f"g={g}; n=(g[0],g[1],max(g[2],1))\nd=pym.DomainDefinition(*g)\nx1={lit(flat(x1))}\nx2={lit(flat(x2))}\ns=pym.Signal('x',x1.copy())\n"
                                  + ("" if W is None else f"W=np.array({W.tolist()})\n") + f"m=pym.FilterConv(s,domain=d,{kw_source(bcs, radius=None if W is not None else 1.5)}" + ("" if W is None else ",weights=W") + ")\n" + ("" if W is None else "W*=-3.0   # the caller re-uses its kernel array\n") +
                                  "def ok(w):\n    y=m.sig_out[0].state\n    print(np.abs(y-w).max())\n    return np.allclose(y,w,rtol=0,atol=1e-12)\n")
            ovr = []
            ovr_src = ''

            def step(label, X, code):
                r.case((g, bcs, inp0['kernel'], label))
                before = np.asarray(sig.state).copy()
                try:
                    m.response()
                except Exception as e:
                    r.check(False, f'FilterConv call sequence, step "{label}": evaluation raises', dict(inp0, step=label), repr(e)[:300], replay_code=head + code)
                    return np.zeros(d.nel)
                y = np.asarray(m.sig_out[0].state)
                Yw = flat(ref_filterconv(X, Wref, bcs, ovr))
                full = head + code.replace('@W@', lit(Yw))
                r.check(np.allclose(y, Yw, rtol=0, atol=1e-12), f'FilterConv call sequence, step "{label}": result = kernel * extended current input with the overrides registered so far', dict(inp0, step=label), y, Yw, replay_code=full)
                r.check(np.array_equal(np.asarray(sig.state), before) and np.array_equal(before, flat(X)), f'FilterConv call sequence, step "{label}": input state is not modified', dict(inp0, step=label), replay_code=full)
                r.check(not np.shares_memory(y, np.asarray(sig.state)), f'FilterConv call sequence, step "{label}": output does not alias the input', dict(inp0, step=label),
                        replay_code=head + "m.response()\nassert not np.shares_memory(m.sig_out[0].state, s.state)\n")
                return y

            try:
                m = pym.FilterConv(sig, domain=d, **kw, **bc_kwargs(bcs))
            except Exception as e:
                r.check(False, 'FilterConv construction raises for an admissible configuration', inp0, repr(e)[:300], replay_code=head)
                continue
            with guard(r, inp0, head):
                r.check(list(m.pad_sizes) == pads, 'pad_sizes (the origin of padded coordinates) = half kernel widths', inp0, list(m.pad_sizes), pads, replay_code=head + f"assert list(m.pad_sizes)=={pads}, m.pad_sizes\n")
                if Wuser is not None:
                    Wuser *= -3.0   # the caller re-uses its kernel array: the module must keep the kernel it was given
                step('first', x1, "m.response()\nassert ok(@W@)\nassert np.array_equal(s.state,x1)\n")
                sig.state = flat(x2)
                step('new input', x2, "m.response()\ns.state=x2.copy()\nm.response()\nassert ok(@W@)\nassert np.array_equal(s.state,x2)\n")
                sig.state = flat(x1)
                step('back to first input', x1, "m.response()\ns.state=x2.copy()\nm.response()\ns.state=x1.copy()\nm.response()\nassert ok(@W@)\nassert np.array_equal(s.state,x1)\n")
                # overrides in domain coordinates: slice tuple, integer arrays, boolean mask; then one in padded coordinates; overlapping regions
                sl = (slice(0, 2), slice(None), slice(None))
                m.override_values(sl, 0.9)
                ovr.append(('domain', sl, 0.9))
                ovr_src += "m.override_values((slice(0,2),slice(None),slice(None)),0.9)\n"
                step('override_values(slices)', x1, "m.response()\n" + ovr_src + "m.response()\nassert ok(@W@)\nassert np.array_equal(s.state,x1)\n")
                ia = (np.array([0, n[0] - 1]), np.array([n[1] - 1, 0]), np.array([0, n[2] - 1]))
                m.override_values(ia, -0.4)
                ovr.append(('domain', ia, -0.4))
                ovr_src += f"m.override_values((np.array({ia[0].tolist()}),np.array({ia[1].tolist()}),np.array({ia[2].tolist()})),-0.4)\n"
                step('override_values(integer arrays) over an earlier override', x1, ovr_src + "m.response()\nassert ok(@W@)\nassert np.array_equal(s.state,x1)\n")
                mask = np.indices(n).sum(0) % 3 == 1
                m.override_values(mask, 0.2)
                ovr.append(('domain', mask, 0.2))
                ovr_src += f"m.override_values(np.array({mask.tolist()}),0.2)\n"
                sig.state = flat(x2)
                step('override_values(boolean mask), new input', x2, ovr_src + "s.state=x2.copy()\nm.response()\nassert ok(@W@)\nassert np.array_equal(s.state,x2)\n")
                pr = [np.arange(0, pads[0] + 1), np.arange(pads[1], pads[1] + n[1]), np.arange(0, n[2] + 2 * pads[2])]
                box = tuple(np.meshgrid(*pr, indexing='ij'))
                m.override_padded_values(box, 1.5)
                ovr.append(('padded', box, 1.5))
                ovr_src += f"m.override_padded_values(tuple(np.meshgrid(np.arange(0,{pads[0] + 1}),np.arange({pads[1]},{pads[1] + n[1]}),np.arange(0,{n[2] + 2 * pads[2]}),indexing='ij')),1.5)\n"
                y = step('override_padded_values(box reaching into the domain)', x2, ovr_src + "s.state=x2.copy()\nm.response()\nassert ok(@W@)\nassert np.array_equal(s.state,x2)\n")
                y[:] = 7.0
                r.check(np.array_equal(np.asarray(sig.state), flat(x2)), 'overwriting the returned array does not change the input', inp0, replay_code=head + "s.state=x2.copy()\nm.response()\nm.sig_out[0].state[:]=7.0\nassert np.array_equal(s.state,x2)\n")
                sig.state = flat(x1)
                step('after caller overwrote the output', x1, ovr_src + "s.state=x2.copy()\nm.response()\nm.sig_out[0].state[:]=7.0\ns.state=x1.copy()\nm.response()\nassert ok(@W@)\n")
                m.sig_out[0].sensitivity = rng.random(d.nel)
                try:
                    m.sensitivity()
                except Exception as e:
                    r.check(False, 'FilterConv.sensitivity() raises', inp0, repr(e)[:300], replay_code=head + "m.response()\nm.sig_out[0].sensitivity=np.ones(d.nel)\nm.sensitivity()\n")
                m.reset()
                step('after sensitivity() and reset()', x1, ovr_src + "m.response()\nm.sig_out[0].sensitivity=np.ones(d.nel)\nm.sensitivity()\nm.reset()\nm.response()\nassert ok(@W@)\nassert np.array_equal(s.state,x1)\n")


@bound('argument validation on a 3x3 domain: exactly one of radius / weights; every kernel dimension odd (shapes 2x3, 3x4, 3x3x2 rejected; 1, 3, 1x3, 3x1x1, 5x3 accepted)')
def conv_arguments(r, tier, seed):
    d = pym.DomainDefinition(3, 3)
    bad = [dict(), dict(radius=1.5, weights=np.ones((3, 3))), dict(weights=np.ones((2, 3))), dict(weights=np.ones((3, 4))), dict(weights=np.ones((3, 3, 2)))]
    good = [dict(weights=np.ones(1)), dict(weights=np.ones(3)), dict(weights=np.ones((1, 3))), dict(weights=np.ones((3, 1, 1))), dict(weights=np.ones((5, 3))), dict(radius=0.2)]
    for kw, want in [(k, False) for k in bad] + [(k, True) for k in good]:
        r.case((repr(kw), want))
        try:
            m = pym.FilterConv(pym.Signal('x', np.ones(d.nel)), domain=d, **kw)
            m.response()
            ok = bool(np.allclose(m.sig_out[0].state, np.sum(kw['weights']) if 'weights' in kw else 1.0, rtol=0, atol=1e-12))
            got = True
        except (ValueError, AssertionError) as e:
            got, ok = False, True
        src = ','.join(f"{k}=np.ones({np.shape(v)})" if k == 'weights' else f"{k}={v!r}" for k, v in kw.items())
        r.check(got == want and ok, 'FilterConv accepts exactly the admissible kernel arguments (and maps a field of ones to the kernel sum)', dict(kwargs=repr(kw), admissible=want), got, want,
                replay_code=REPLAY_HEAD + f"d=pym.DomainDefinition(3,3)\ntry:\n    m=pym.FilterConv(pym.Signal('x',np.ones(9)),domain=d,{src})\n    m.response()\n    got=True\nexcept (ValueError, AssertionError):\n    got=False\nassert got=={want}\n")


@bound('integer-valued density fields (0/1 designs stored as int64 / int32) on 4x3 and 3x3x2 with radius 1.5 and a 3x3 kernel: FilterConv must return the convolution '
       '(as DensityFilter does), not a truncated integer array', finding='C09-int-field-truncated')
def conv_integer_field(r, tier, seed):
    rng = np.random.default_rng(seed + 26)
    for g in ((4, 3, 0), (3, 3, 2)):
        n = shape3(g)
        d = pym.DomainDefinition(*g)
        X = rng.integers(0, 2, n)
        X[0, 0, 0] = 1
        for kw, W in ((dict(radius=1.5), cone_kernel(g, 1.5)), (dict(weights=np.full((3, 3, 1), 1 / 9)), np.full((3, 3, 1), 1 / 9))):
            for dt in (np.int64, np.int32):
                r.case((g, tuple(kw), dt.__name__))
                x0 = flat(X).astype(dt)
                Yw = flat(ref_filterconv(X.astype(float), W, ('symmetric',) * 6))
                kws = kw_source(None, kw.get('radius'), None, kw.get('weights'))
                code = REPLAY_HEAD + f"d=pym.DomainDefinition(*{g})\nx={lit(x0)}\nm=pym.FilterConv(pym.Signal('x',x),domain=d,{kws})\nm.response()\ny=m.sig_out[0].state\nw={lit(Yw)}\nprint(y.dtype,y)\nprint(w)\nassert np.allclose(y,w,rtol=0,atol=1e-12)\n"
                try:
                    m = pym.FilterConv(pym.Signal('x', x0.copy()), domain=d, **kw)
                    m.response()
                    y = np.asarray(m.sig_out[0].state)
                    ok = np.allclose(y, Yw, rtol=0, atol=1e-12)
                except Exception as e:
                    y, ok = repr(e)[:200], False
                r.check(ok, 'FilterConv of an integer-valued field = kernel * extended field', dict(g=g, dtype=dt.__name__, x=x0, **{k: (v if np.isscalar(v) else 'box 3x3 / 9') for k, v in kw.items()}), y, Yw,
                        replay_code=code, finding='C09-int-field-truncated')


@bound('complex and single-precision fields on 4x3 / 3x2x2, radius 1.5 and an asymmetric 3x3(x3) kernel, rules all-symmetric and (wrap, 0.5, edge, symmetric, 1.0, symmetric): '
       'linearity in the field: result = filter(real part) + i filter(imaginary part) against the same reference; float32 to 1e-6')
def conv_other_dtypes(r, tier, seed):
    rng = np.random.default_rng(seed + 27)
    for g in ((4, 3, 0), (3, 2, 2)):
        n = shape3(g)
        d = pym.DomainDefinition(*g)
        Wa = rand_kernel(rng, (3, 3, 1) if g[2] == 0 else (3, 3, 3), 'signed')
        for kw, W in ((dict(radius=1.5), cone_kernel(g, 1.5)), (dict(weights=Wa), Wa)):
            for bcs in (('symmetric',) * 6, ('wrap', 0.5, 'edge', 'symmetric', 1.0, 'symmetric')):
                for name, X, tol in (('complex', rng.random(n) + 1j * (rng.random(n) - 0.5), 1e-12), ('float32', rng.random(n).astype(np.float32), 2e-6)):
                    r.case((g, tuple(kw), bcs, name))
                    x0 = flat(X)
                    Yw = flat(ref_filterconv(X.astype(complex if name == 'complex' else float), W, bcs))
                    kws = kw_source(bcs, kw.get('radius'), None, kw.get('weights'))
                    code = REPLAY_HEAD + f"d=pym.DomainDefinition(*{g})\nx={lit(x0)}\ns=pym.Signal('x',x.copy())\nm=pym.FilterConv(s,domain=d,{kws})\nm.response()\ny=m.sig_out[0].state\nw={lit(Yw)}\nprint(y.dtype,np.abs(y-w).max())\nassert np.allclose(y,w,rtol=0,atol={tol})\nassert np.array_equal(s.state,x)\n"
                    with guard(r, dict(g=g, bcs=bcs, field=name), code):
                        sig = pym.Signal('x', x0.copy())
                        m = pym.FilterConv(sig, domain=d, **kw, **bc_kwargs(bcs))
                        m.response()
                        y = np.asarray(m.sig_out[0].state)
                        r.check(y.shape == Yw.shape and np.allclose(y, Yw, rtol=0, atol=tol * scale(Yw)), f'FilterConv of a {name} field = kernel * extended field', dict(g=g, bcs=bcs, field=name, x=x0), y, Yw, replay_code=code)
                        r.check(np.array_equal(np.asarray(sig.state), x0), 'FilterConv: input state is not modified', dict(g=g, bcs=bcs, field=name), replay_code=code)


CHECKS = [('density_filter', density_filter), ('conv_radius', conv_radius), ('conv_boundary_modes', conv_boundary_modes), ('conv_wide_kernels', conv_wide_kernels),
          ('conv_convexity_volume', conv_convexity_volume), ('conv_overrides_histories', conv_overrides_histories), ('conv_other_dtypes', conv_other_dtypes), ('conv_arguments', conv_arguments),
          ('conv_integer_field', conv_integer_field)]
