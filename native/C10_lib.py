"""C10 helper: generated convex problems (own value/gradient formulas), an instrumented minimize_mma run and the per-iteration audit.
Self-contained (numpy + pymoto only): its source text is embedded verbatim in replay programs."""
import contextlib
import io
import signal
import numpy as np
import pymoto as pym
import pymoto.common.mma as _mma_mod


# ---------------------------------------------------------------- own response functions (value and gradient written out by hand)
def fn_value(fs, x):
    k = fs['kind']
    if k == 'quad':      # 0.5 sum d (x-t)^2 - r
        return float(0.5 * np.sum(np.array(fs['d']) * (x - np.array(fs['t'])) ** 2) - fs['r'])
    if k == 'quadfull':  # 0.5 (x-t)^T A (x-t) - r
        e = x - np.array(fs['t'])
        return float(0.5 * e @ (np.array(fs['A']) @ e) - fs['r'])
    if k == 'lin':       # a.x - r
        return float(np.array(fs['a']) @ x - fs['r'])
    if k == 'recip':     # sum c/x - r
        return float(np.sum(np.array(fs['c']) / x) - fs['r'])
    raise ValueError(k)


def fn_grad(fs, x):
    k = fs['kind']
    if k == 'quad':
        return np.array(fs['d']) * (x - np.array(fs['t']))
    if k == 'quadfull':
        return np.array(fs['A']) @ (x - np.array(fs['t']))
    if k == 'lin':
        return np.array(fs['a'], dtype=float)
    if k == 'recip':
        return -np.array(fs['c']) / x ** 2
    raise ValueError(k)


def sizes_of(spec):
    return [len(v['x0']) for v in spec['vars']]


def full_index(spec, fs):
    """positions in the concatenated design vector seen by response fs (it may be connected to a subset of the variable signals)"""
    sz = sizes_of(spec)
    off = np.concatenate([[0], np.cumsum(sz)])
    which = fs.get('vars') or list(range(len(sz)))
    return np.concatenate([np.arange(off[i], off[i + 1]) for i in which]).astype(int)


def ref_g_dg(spec, x):
    """reference values and gradients of all responses at the full design x"""
    g, dg = [], []
    for fs in spec['resp']:
        idx = full_index(spec, fs)
        g.append(fn_value(fs, x[idx]))
        row = np.zeros(len(x))
        row[idx] = fn_grad(fs, x[idx])
        dg.append(row)
    return np.array(g), np.array(dg)


def expand(mode, val, sizes):
    """reference expansion of a bound / move specification to one value per design variable"""
    n = int(np.sum(sizes))
    if mode == 'default':   # argument omitted: documented defaults xmin=0, xmax=1, move=0.1
        return np.full(n, float(val))
    if mode == 'scalar':
        return np.full(n, float(val))
    if mode == 'signal':
        return np.concatenate([np.full(k, float(v)) for k, v in zip(sizes, val)])
    if mode == 'variable':
        assert len(val) == n
        return np.array(val, dtype=float)
    raise ValueError(mode)


class C10Response(pym.Module):
    """one or several scalar responses of the variable signals it is connected to; logs the states it is evaluated with.
    idxs[i] = positions (in the concatenation of this module's inputs) that response i depends on"""
    def _prepare(self, fss, idxs, log=None):
        self.fss, self.idxs, self.log = fss, idxs, log

    def _response(self, *xs):
        if self.log is not None:
            self.log.append([np.array(v, dtype=float, copy=True) for v in xs])
        self.shapes = [np.shape(v) for v in xs]
        self.x = np.concatenate([np.ravel(np.asarray(v, dtype=float)) for v in xs])
        return [fn_value(fs, self.x[ix]) for fs, ix in zip(self.fss, self.idxs)]

    def _sensitivity(self, *dgs):
        tot = np.zeros_like(self.x)
        for fs, ix, dg in zip(self.fss, self.idxs, dgs):
            if dg is not None:
                tot[ix] += dg * fn_grad(fs, self.x[ix])
        out, o = [], 0
        for shp in self.shapes:
            k = int(np.prod(shp)) if len(shp) else 1
            out.append(float(tot[o]) if shp == () else tot[o:o + k].reshape(shp))
            o += k
        return out


def _arg(spec, name):
    mode, val, container = spec[name]
    if mode == 'scalar':
        return val
    return np.array(val, dtype=float) if container == 'array' else list(val)


def build(spec, log):
    sv = [pym.Signal(f'x{i}', (float(v['x0'][0]) if v['kind'] == 'scalar' else np.array(v['x0'], dtype=float))) for i, v in enumerate(spec['vars'])]
    sr = [pym.Signal(f'g{i}') for i in range(len(spec['resp']))]
    mods = []
    if spec.get('one_module'):
        mods.append(C10Response(sv, sr, spec['resp'], [full_index(spec, fs) for fs in spec['resp']], log))
    else:
        for i, fs in enumerate(spec['resp']):
            which = fs.get('vars') or list(range(len(sv)))
            k = int(np.sum([sizes_of(spec)[j] for j in which]))
            mods.append(C10Response([sv[j] for j in which], [sr[i]], [fs], [np.arange(k)], log if i == 0 else None))
    return pym.Network(mods), sv, sr


class _Abort(Exception):
    pass


SOLVE_LIMIT = 10.0   # seconds allowed for one subproblem solve (unchanged code: about 0.01 s, 3 s when it runs into its iteration cap)


def timed(fn, *args, **kw):
    """call fn; raise _Abort('timeout') when it has not returned after SOLVE_LIMIT seconds (a broken Newton iteration can spin for hours)"""
    def handler(signum, frame):
        raise _Abort('timeout')
    old = signal.signal(signal.SIGALRM, handler)
    signal.setitimer(signal.ITIMER_REAL, SOLVE_LIMIT)
    try:
        return fn(*args, **kw)
    finally:
        signal.setitimer(signal.ITIMER_REAL, 0)
        signal.signal(signal.SIGALRM, old)


def run(spec, second_maxit=None, prior=0):
    """run minimize_mma (or MMA.response twice when second_maxit is given) with the subproblem solver and the callback instrumented;
    prior = number of complete un-instrumented minimize_mma runs (3 iterations each) on the same network and signals beforehand"""
    log = []
    net, sv, sr = build(spec, log)
    given = [s.state for s in sv]
    given_copy = [np.array(v, copy=True) for v in given]
    for _ in range(prior):
        with contextlib.redirect_stdout(io.StringIO()):
            pym.minimize_mma(net, sv, sr, **dict(spec['opts'], maxit=3, verbosity=0, **{k: _arg(spec, k) for k in ('xmin', 'xmax', 'move') if spec[k][0] != 'default'}))
    del log[:]
    init_states = [np.array(s.state, copy=True) for s in sv]
    tr = dict(calls=[], cb=[], log=log, printed='', error=None)
    orig = _mma_mod.subsolv

    def wrapped(epsimin, low, upp, alfa, beta, P, Q, a0, a, b, c, d, x0=None):
        args = dict(epsimin=float(epsimin), low=low.copy(), upp=upp.copy(), alfa=alfa.copy(), beta=beta.copy(), P=P.copy(), Q=Q.copy(), a0=float(a0),
                    a=np.array(a, dtype=float), b=b.copy(), c=np.array(c, dtype=float), d=np.array(d, dtype=float), x0=None if x0 is None else x0.copy())
        buf = io.StringIO()
        with contextlib.redirect_stdout(buf):
            ret = timed(orig, epsimin, low, upp, alfa, beta, P, Q, a0, a, b, c, d, x0=x0)
        tr['calls'].append(dict(args=args, ret=[np.array(v, dtype=float, copy=True) for v in ret], msg=buf.getvalue()))
        if buf.getvalue():   # the solver reported that it hit its iteration cap; such solves are very slow: stop the run after the second one (the recorded part is audited)
            tr['capped'] = tr.get('capped', 0) + 1
            if tr['capped'] >= spec.get('cap_abort', 2):
                raise _Abort()
        return ret

    def callback():
        tr['cb'].append(dict(states=[np.array(s.state, dtype=float, copy=True) for s in sv], ndims=[np.ndim(s.state) for s in sv], nlog=len(log), ncalls=len(tr['calls'])))

    bounds_in = {k: _arg(spec, k) for k in ('xmin', 'xmax', 'move') if spec[k][0] != 'default'}
    bounds_copy = {k: (np.array(v, copy=True) if hasattr(v, '__len__') else v) for k, v in bounds_in.items()}
    _mma_mod.subsolv = wrapped
    buf = io.StringIO()
    try:
        with contextlib.redirect_stdout(buf):
            kw = {k: (np.array(v, dtype=float) if k in ('a', 'c') else v) for k, v in spec['opts'].items()}
            kw = dict(kw, verbosity=spec.get('verbosity', 0), fn_callback=callback, **bounds_in)
            form = spec.get('varform', 'list')   # how the caller passes variables / responses
            va = sv[0] if form == 'single' else (tuple(sv) if form == 'tuple' else sv)
            ra = tuple(sr) if form == 'tuple' else sr
            if second_maxit is None:
                pym.minimize_mma(net, va, ra, **kw)
            else:
                opt = _mma_mod.MMA(net, va, ra, **kw)
                opt.response()
                tr['first'] = (len(tr['cb']), opt.iter)
                opt.maxIt = second_maxit
                opt.response()
                tr['iter'] = opt.iter
    except _Abort as e:
        tr['aborted'] = True
        tr['timeout'] = 'timeout' in str(e)
    except Exception as e:   # noqa
        tr['error'] = f'{type(e).__name__}: {e}'[:300]
    finally:
        _mma_mod.subsolv = orig
    tr['printed'] = buf.getvalue()
    tr['final'] = [np.array(s.state, dtype=float, copy=True) for s in sv]
    tr['final_resp'] = [None if s.state is None else float(s.state) for s in sr]
    tr['init'] = init_states
    tr['init_unchanged'] = all(np.array_equal(np.asarray(a), b) for a, b in zip(given, given_copy))
    tr['args_unchanged'] = all(np.array_equal(np.asarray(bounds_in[k]), np.asarray(bounds_copy[k])) for k in bounds_in)
    return tr


def _cat(states):
    return np.concatenate([np.ravel(v) for v in states])


def eps_last(epsimin):
    e, last = 1.0, None
    while e > epsimin:
        last = e
        e /= 10
    return last


def kkt_residual(a, ret, el):
    """optimality conditions of  min f0(x) + a0 z + sum(c y + d y^2/2)  s.t. f_i(x) - a_i z - y_i <= b_i, alfa <= x <= beta, y, z >= 0  with
    f_i(x) = sum_j p_ij/(upp_j - x_j) + q_ij/(x_j - low_j); complementarity products relaxed to the barrier parameter el"""
    xr, y, z, lam, xsi, eta, mu, zet, s = ret
    z, zet = float(z), float(zet)
    P, Q = a['P'], a['Q']
    U, L = 1 / (a['upp'] - xr), 1 / (xr - a['low'])
    dfdx = P * U ** 2 - Q * L ** 2
    fval = P[1:] @ U + Q[1:] @ L - a['b']
    return np.concatenate([dfdx[0] + lam @ dfdx[1:] - xsi + eta, a['c'] + a['d'] * y - lam - mu, [a['a0'] - a['a'] @ lam - zet], fval - a['a'] * z - y + s,
                           xsi * (xr - a['alfa']) - el, eta * (a['beta'] - xr) - el, mu * y - el, [zet * z - el], lam * s - el])


# ---------------------------------------------------------------- audit: every clause of C10 on one recorded run
def audit(spec, tr, conv=None):
    """returns a list of (clause, witness) for every violated clause; empty list = run satisfies C10"""
    bad = []

    def chk(cond, clause, **w):
        if not cond:
            bad.append((clause, {k: (v.tolist() if isinstance(v, np.ndarray) else v) for k, v in w.items()}))
        return cond

    if not chk(tr['error'] is None, 'run completes without an exception', error=tr['error']):
        return bad
    chk(not tr.get('timeout'), f'the subproblem solver returns a solution (none after {SOLVE_LIMIT} s; about 0.01 s on the unchanged code)', subproblems_solved=len(tr['calls']))
    sz = sizes_of(spec)
    n, m = int(np.sum(sz)), len(spec['resp']) - 1
    o = spec['opts']
    xmin, xmax, move = (expand(spec[k][0], spec[k][1], sz) for k in ('xmin', 'xmax', 'move'))
    dx = xmax - xmin
    scale = np.max(np.abs(np.concatenate([xmin, xmax])))
    tiny = 1e-13 * scale
    albefa, asyinit, asyincr, asydecr, asybound = (o.get(k, dflt) for k, dflt in (('albefa', 0.1), ('asyinit', 0.5), ('asyincr', 1.2), ('asydecr', 0.7), ('asybound', 10.0)))
    version = o.get('mmaversion', 'Svanberg2007')
    epsimin = o.get('epsimin', 1e-10) * np.sqrt(m + n)
    cb, calls = tr['cb'], tr['calls']
    chk(1 <= len(cb) <= (o.get('maxit', 100) if 'first' not in tr else tr['iter'] + 1), 'number of iterations within maxit', n_callbacks=len(cb))
    chk(tr['args_unchanged'], 'xmin/xmax/move arrays of the caller are not modified')
    chk(tr['init_unchanged'], 'initial state arrays of the caller are not modified')
    xs = [_cat(c['states']) for c in cb]
    # ---- write-back and observation points
    chk(len(xs) > 0 and np.array_equal(xs[0], _cat(tr['init'])), 'first design is the initial state of the variable signals', got=xs[0] if xs else None)
    for k, c in enumerate(cb):
        ok = all(np.size(s) == z for s, z in zip(c['states'], sz)) and all((nd == 0) if v['kind'] == 'scalar' else (nd <= 1) for nd, v in zip(c['ndims'], spec['vars']))
        if not chk(ok, 'each variable signal receives a state of its own size (scalars stay scalar)', iteration=k, sizes=[int(np.size(s)) for s in c['states']], ndims=c['ndims']):
            return bad
        chk(c['nlog'] == k and c['ncalls'] == k, 'callback runs once per iteration, before the response', iteration=k, responses_before=c['nlog'], subsolves_before=c['ncalls'])
        if k < len(tr['log']) and not spec['resp'][0].get('vars'):
            chk(np.array_equal(_cat(tr['log'][k]), xs[k]), 'network response is evaluated at the design written to the variable signals', iteration=k)
    chk(len(tr['log']) == len(cb), 'one network response per callback', responses=len(tr['log']), callbacks=len(cb))
    chk(len(calls) in (len(cb), len(cb) - 1), 'one subproblem per iteration (the last may stop on tolf)', subsolves=len(calls), callbacks=len(cb))
    chk(np.array_equal(_cat(tr['final']), xs[-1]), 'after the run the variable signals hold the last evaluated design', final=_cat(tr['final']), last=xs[-1])
    g_last, _ = ref_g_dg(spec, xs[-1])
    chk(np.allclose(tr['final_resp'], g_last, rtol=1e-12, atol=1e-12), 'response signals hold the values at the last design', got=tr['final_resp'], want=g_last)
    # ---- bounds and move limit on every design
    for k, x in enumerate(xs):
        chk(np.all(x >= xmin) and np.all(x <= xmax), 'design variables stay within [xmin, xmax]', iteration=k, x=x, xmin=xmin, xmax=xmax)
        if k > 0:
            chk(np.all(np.abs(x - xs[k - 1]) <= move * dx * (1 + 1e-12) + tiny), 'design variables move by at most move*(xmax-xmin)', iteration=k, step=x - xs[k - 1], limit=move * dx)
    # ---- subproblem interface
    offset = np.full(n, float(asyinit))
    el = eps_last(epsimin)
    for k, call in enumerate(calls):
        a = call['args']
        x = xs[k]
        wit = dict(iteration=k)
        chk(a['x0'] is not None and np.array_equal(a['x0'], x), 'subproblem is set up at the current design (concatenation order of the variable signals)', x0=a['x0'], x=x, **wit)
        if 'first' in tr and k + 1 == tr['first'][0] and k + 1 < len(xs):
            chk(np.array_equal(xs[k], xs[k + 1]), 'a second response() resumes from the design held by the variable signals', design=xs[k], next_design=xs[k + 1], **wit)
        elif k + 1 < len(xs):
            chk(np.array_equal(call['ret'][0], xs[k + 1]), 'subproblem solution is written back to the right signals', ret=call['ret'][0], next_design=xs[k + 1], **wit)
        low, upp, alfa, beta, P, Q = (a[q] for q in ('low', 'upp', 'alfa', 'beta', 'P', 'Q'))
        if not chk(low.shape == (n,) and upp.shape == (n,) and alfa.shape == (n,) and beta.shape == (n,) and P.shape == (m + 1, n) and Q.shape == (m + 1, n) and a['b'].shape == (m,),
                   'shapes of the subproblem data', **wit):
            continue
        # admissible interval and asymptotes
        chk(np.all(alfa >= xmin) and np.all(beta <= xmax), 'admissible interval inside [xmin, xmax]', alfa=alfa, beta=beta, **wit)
        chk(np.all(alfa >= x - move * dx - tiny) and np.all(beta <= x + move * dx + tiny), 'admissible interval inside the move limit', alfa=alfa, beta=beta, x=x, limit=move * dx, **wit)
        chk(np.all(alfa <= x) and np.all(x <= beta) and np.all(alfa < beta), 'current design inside a non-empty admissible interval', alfa=alfa, beta=beta, x=x, **wit)
        chk(np.all(low < alfa) and np.all(beta < upp) and np.all(np.isfinite(low)) and np.all(np.isfinite(upp)), 'asymptotes strictly enclose the admissible interval', low=low, alfa=alfa, beta=beta, upp=upp, **wit)
        # asymptote parameters are honoured (reference recurrence on the recorded designs)
        if k >= 2:
            zzz = (xs[k] - xs[k - 1]) * (xs[k - 1] - xs[k - 2])
            offset = np.where(zzz > 0, offset * asyincr, np.where(zzz < 0, offset * asydecr, offset))
            offset = np.minimum(np.maximum(offset, 1 / asybound ** 2), asybound)
        sh = offset * dx
        rl, ru = x - sh, x + sh
        ra = np.maximum(np.maximum(rl + albefa * sh, x - move * dx), xmin)
        rb = np.minimum(np.minimum(ru - albefa * sh, x + move * dx), xmax)
        tol = 1e-12 * (scale + np.max(sh))
        chk(np.allclose(low, rl, rtol=0, atol=tol) and np.allclose(upp, ru, rtol=0, atol=tol),
            'asymptotes follow asyinit / asyincr (monotone) / asydecr (oscillating) / asybound', low=low, want_low=rl, upp=upp, want_upp=ru, **wit)
        chk(np.allclose(alfa, ra, rtol=0, atol=tol) and np.allclose(beta, rb, rtol=0, atol=tol),
            'admissible interval = intersection of bounds, move limit and albefa-reduced asymptote interval', alfa=alfa, want_alfa=ra, beta=beta, want_beta=rb, **wit)
        # approximation: convex, value and gradient at the current design
        g, dg = ref_g_dg(spec, x)
        U, L = 1 / (upp - x), 1 / (x - low)
        gs = np.abs(dg) @ (upp - x) + np.abs(g) + 1.0
        chk(np.all(P >= 0) and np.all(Q >= 0), 'approximation coefficients are non-negative (convex approximations)', **wit)
        val = P[1:] @ U + Q[1:] @ L - a['b']
        chk(np.all(np.abs(val - g[1:]) <= 1e-9 * gs[1:]), 'approximation reproduces the constraint values at the current design', approx=val, exact=g[1:], **wit)
        grad = P * U ** 2 - Q * L ** 2
        chk(np.all(np.abs(grad - dg) <= 1e-9 * (1 + np.abs(dg).max())), 'approximation reproduces the gradient of every response at the current design', approx=grad, exact=dg, **wit)
        if '1987' in version:
            chk(np.all(np.minimum(P, Q) == 0), 'version 1987: one-sided coefficients', **wit)
        else:
            chk(np.all(np.minimum(P, Q) > 0), 'version 2007: strictly positive coefficients on both sides', **wit)
        # solver parameters as configured
        chk(abs(a['epsimin'] - epsimin) <= 1e-12 * epsimin and a['a0'] == o.get('a0', 1.0) and np.array_equal(a['a'], np.asarray(o.get('a', np.zeros(m)), dtype=float))
            and np.array_equal(a['c'], np.asarray(o.get('c', np.full(m, o.get('cCoef', 1e3))), dtype=float)) and np.array_equal(a['d'], np.ones(m)),
            'subproblem parameters epsimin*sqrt(m+n), a0, a, c, d as configured', epsimin=a['epsimin'], a0=a['a0'], a=a['a'], c=a['c'], d=a['d'], **wit)
        # returned solution
        xr, y, z, lam, xsi, eta, mu, zet, s = call['ret']
        z, zet = float(z), float(zet)
        if not chk(xr.shape == (n,) and y.shape == (m,) and lam.shape == (m,) and all(np.all(np.isfinite(v)) for v in call['ret']), 'subproblem solution finite and of the right shape', **wit):
            continue
        chk(np.all(xr > alfa) and np.all(xr < beta), 'subproblem solution strictly inside the admissible interval', x=xr, alfa=alfa, beta=beta, **wit)
        chk(all(np.all(v > 0) for v in (y, lam, xsi, eta, mu, s)) and z > 0 and zet > 0, 'slacks and multipliers of the subproblem solution are positive', **wit)
        res = kkt_residual(a, call['ret'], el)
        chk(np.max(np.abs(res)) <= el, 'subproblem solution satisfies the (barrier-relaxed) optimality conditions to the requested accuracy',
            max_residual=float(np.max(np.abs(res))), allowed=el, solver_message=call['msg'], **wit)
    # ---- convergence on a convex problem with known optimum
    if conv is not None:
        xstar = np.array(spec['xstar'])
        d0, d1 = np.max(np.abs(xs[0] - xstar) / dx), np.max(np.abs(xs[-1] - xstar) / dx)
        gl, _ = ref_g_dg(spec, xs[-1])
        gst, _ = ref_g_dg(spec, xstar)
        chk(d1 <= conv['xtol'], 'iterates approach the known optimum', start_distance=d0, final_distance=d1, iterations=len(xs), x=xs[-1], xstar=xstar)
        chk(np.all(gl[1:] <= conv['gtol']), 'constraints end up satisfied', g=gl[1:])
        chk(abs(gl[0] - gst[0]) <= conv['ftol'] * max(1.0, abs(gst[0])), 'objective approaches the optimal value', f=gl[0], fstar=gst[0])
    return bad
