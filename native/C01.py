"""C01 bounded stand-ins: the adjoint identity  Re sum(g*v) = d/dt Re sum(w*y(x+t v))  evaluated on the real modules.

Every case is a small source text that builds one module with generated inputs (native/C01_engine.py runs it: response,
sensitivity for several seed sets incl. partial / single-entry / integer seeds, accumulation, directions per input, joint and
single-entry, a second input point on the same object, return to the first point).  The same text + seed is the replay.
References: exact differences for affine responses, the exact 5-point stencil on integer data for EinSum, Ridders'
extrapolated differences (with error estimate) for the smooth ones, closed forms where the property freezes something.
"""
import functools
import itertools
import os
import textwrap
import numpy as np
from native.util import bound, REPLAY_HEAD
from native import C01_engine as E

ENGINE_SRC = open(os.path.join(os.path.dirname(os.path.abspath(__file__)), 'C01_engine.py')).read()


def replay(src, seed):
    return (REPLAY_HEAD + ENGINE_SRC +
            f"\n\nSRC = {src!r}\nfails, n = run_case(SRC, seed={seed})\nprint(SRC)\nfor f in fails:\n    print(f)\nassert not fails, f'{{len(fails)}} violated clause(s)'\n")


def D(s):
    return textwrap.dedent(s).strip('\n') + '\n'


def run(r, cases, seed, finding=None, symptoms=None, reps=1):
    """cases: iterable of (key, src) or (key, src, finding); symptoms: {text in the observed exception: finding id};
    reps: number of passes with different engine seeds (the generated data, seeds and directions all depend on it)"""
    cases = list(cases)
    for rep in range(reps):
        for k, c in enumerate(cases):
            key, src = c[0], c[1]
            fid = c[2] if len(c) > 2 else finding
            sd = seed + k + 7919 * rep
            try:
                fails, n = E.run_case(src, seed=sd)
            except Exception as e:   # the case text itself failed (construction of the module raises)
                fails, n = [dict(what='building the module raises', observed=f'{type(e).__name__}: {(str(e).splitlines() or [""])[0][:200]}', expected=None)], 0
            for _ in range(max(n, 1)):
                r.case(key)
            seen = set()
            for f in fails:
                if f['what'] in seen:
                    continue
                seen.add(f['what'])
                extra = {k2: v for k2, v in f.items() if k2 not in ('what', 'observed', 'expected')}
                for text, sid in (symptoms or {}).items():
                    if isinstance(f['observed'], str) and text in f['observed']:
                        fid = sid
                r.check(False, f['what'], dict(case=key, seed=sd, **extra), f['observed'], f['expected'], replay_code=replay(src, sd), finding=fid)


def reps(tier, n=3):
    return 1 if tier == 'quick' else n


# ------------------------------------------------------------------------------------------------------------------
# 1. element-wise modules: Scaling, MakeComplex, RealPart, ImagPart, ComplexNorm
# ------------------------------------------------------------------------------------------------------------------
XKINDS = {
    'pyfloat': "x = 2.5",
    'negfloat': "x = -0.75",
    'npfloat': "x = np.float64(1.25)",
    '0d': "x = np.array(0.8)",
    'vec1': "x = np.array([1.7])",
    'vec': "x = 0.5 + rng.random(5)",
    'negvec': "x = -0.5 - rng.random(4)",
    'mat': "x = 0.5 + rng.random((2, 3))",
    'cvec': "x = 0.5 + rng.random(4) + 1j*rng.standard_normal(4)",
}
ZKINDS = {
    'pycomplex': "z = 1.5-0.5j",
    '0d': "z = np.array(0.8+0.3j)",
    'vec': "z = (0.5 + rng.random(5))*np.exp(2j*np.pi*rng.random(5))",
    'mat': "z = (0.5 + rng.random((3, 2)))*np.exp(2j*np.pi*rng.random((3, 2)))",
    'imagonly': "z = 1j*(0.5 + rng.random(3))",
    'realvec': "z = np.array([0.7, -1.2, 2.0])",
}


def elementwise_cases(tier):
    for xk, xsrc in XKINDS.items():
        for opt in ("", ", scaling=3.5", ", scaling=-2.0", ", scaling=15.0, minval=0.5", ", scaling=15.0, maxval=0.25", ", minval=-1.7", ", scaling=1.0, maxval=1e3"):
            yield (('Scaling', xk, opt), D(f"""
                rng = np.random.default_rng([11, SEED])
                {xsrc}
                m = pym.Scaling(pym.Signal('x', x), pym.Signal('y'){opt})
                MODE = 'linear'; POINTS = 3
                """))
    for xk in ('pyfloat', 'npfloat', '0d', 'vec', 'mat', 'vec1'):
        yield (('MakeComplex', xk), D(f"""
            rng = np.random.default_rng([12, SEED])
            {XKINDS[xk]}
            y = x*0.5 - 0.3 if not isinstance(x, np.ndarray) else np.asarray(rng.standard_normal(x.shape))
            m = pym.MakeComplex([pym.Signal('x', x), pym.Signal('y', y)], pym.Signal('z'))
            MODE = 'linear'
            """))
    for zk, zsrc in ZKINDS.items():
        for cls in ('RealPart', 'ImagPart', 'ComplexNorm'):
            if zk == 'realvec' and cls == 'ImagPart':
                continue   # the imaginary part of real data: the sensitivity is purely imaginary, nothing to pair with
            mode = "MODE = 'linear'" if cls != 'ComplexNorm' else "MODE = 'smooth'; H0 = 2e-2; POINTS = 2; PSTEP = 0.1"
            yield ((cls, zk), D(f"""
                rng = np.random.default_rng([13, SEED])
                {zsrc}
                m = pym.{cls}(pym.Signal('z', z), pym.Signal('y'))
                {mode}
                """))


@bound('Scaling x {objective, scaling 3.5/-2, min/max constraint forms} x {python/numpy scalar, 0-d, 1-vector, vector, negative, matrix, complex vector}, 3 points on one object (scale factor frozen by the first call); '
       'MakeComplex on 6 input kinds; RealPart/ImagPart/ComplexNorm on python complex, 0-d, vector, matrix, purely imaginary and real data; seeds random/unit/integer, accumulation')
def elementwise(r, tier, seed):
    run(r, elementwise_cases(tier), seed, reps=reps(tier, 3))


# ------------------------------------------------------------------------------------------------------------------
# 2. aggregations (frozen scaling factor and active set as the property says)
# ------------------------------------------------------------------------------------------------------------------
AGG_REF = D("""
    def f_own(x, name, par):
        if name == 'PNorm':
            return np.sum(np.abs(x)**par)**(1/par)
        if name == 'KSFunction':
            return np.log(np.sum(np.exp(par*x)))/par
        e = np.exp(par*(x - (x.max() if par > 0 else x.min())))
        return np.sum(x*e)/np.sum(e)

    def own_active(x, lr, ur, la, ua):
        n = x.size
        if x.max() == x.min():
            return np.ones(n, dtype=bool)
        xr = (x - x.min())/(x.max() - x.min())
        sel = np.ones(n, dtype=bool)
        if lr > 0: sel &= xr >= lr
        if ur < 1: sel &= xr <= ur
        order = np.argsort(x, kind='stable')
        nlo = int(n*la) if la > 0 else 0
        nup = int(n*(1 - ua)) if ua < 1 else 0
        sel[order[:nlo]] = False
        if nup > 0: sel[order[n - nup:]] = False
        return sel
    """)


def aggregation_cases(tier):
    ns = (1, 2, 7) if tier == 'quick' else (1, 2, 3, 7, 20)
    pars = (2.0, -3.0, 16.0, -30.0) if tier == 'quick' else (2.0, 3.0, -3.0, 8.0, 16.0, -16.0, 30.0, -30.0)
    for name in ('PNorm', 'KSFunction', 'SoftMinMax'):
        for n in ns:
            for scale in (1.0, 0.02, 40.0):
                for par in pars:
                    if name != 'PNorm' and abs(par) * scale * 1.2 > 500:
                        continue
                    # (a) plain module: the reference is response() itself
                    yield ((name, n, scale, par, 'plain'), D(f"""
                        rng = np.random.default_rng([{n}, SEED])
                        x = {scale}*(0.3 + rng.random({n}))
                        m = pym.{name}(pym.Signal('x', x), pym.Signal('y'), {par})
                        MODE = 'smooth'; H0 = {f'{scale}*min(1e-2, 0.1/abs({par}))' if name == 'PNorm' else f'min({scale}*1e-2, 0.1/abs({par}))'}; POINTS = 2; PSTEP = 0.05*{scale}
                        """))
    # (a') p-norm of data of both signs (differentiable away from zero entries; the module only warns)
    for n in (2, 5):
        for par in (2.0, 3.0, 4.0, 7.0):
            yield (('PNorm', n, par, 'mixed signs'), D(f"""
                rng = np.random.default_rng([{n}, SEED])
                x = (0.3 + rng.random({n}))*np.where(np.arange({n}) % 2, -1.0, 1.0)
                m = pym.PNorm(pym.Signal('x', x), pym.Signal('y'), {par})
                MODE = 'smooth'; H0 = 1e-2; POINTS = 2; PSTEP = 0.05
                """))
    # (b) scaling and/or active set: frozen at the evaluated point; closed-form reference  sf0 * f(x[sel0])
    asets = [None, (0.0, 1.0, 0.0, 1.0), (0.15, 1.0, 0.0, 1.0), (0.0, 0.8, 0.0, 1.0), (0.0, 1.0, 0.3, 1.0), (0.0, 1.0, 0.0, 0.72), (0.1, 0.95, 0.15, 0.88)]
    for name in ('PNorm', 'KSFunction', 'SoftMinMax'):
        for n in ((2, 9) if tier == 'quick' else (2, 3, 9, 25)):
            for par in ((4.0, -6.0) if tier == 'quick' else (4.0, -6.0, 20.0, -20.0)):
                for damp in (None, 0.0, 0.4):
                    for aset in (asets if n > 3 else asets[:5]):   # with two or three values the stronger settings can leave an empty set
                        if damp is None and aset is None:
                            continue
                        which = 'max' if par > 0 else 'min'
                        sc = 'None' if damp is None else f"pym.AggScaling('{which}', {damp})"
                        ac = 'None' if aset is None else f"pym.AggActiveSet{aset}"
                        yield ((name, n, par, damp, aset), AGG_REF + D(f"""
                            rng = np.random.default_rng([{n}, SEED])
                            x = 0.3 + rng.random({n})
                            ASET = {aset}
                            m = pym.{name}(pym.Signal('x', x), pym.Signal('y'), {par}, scaling={sc}, active_set={ac})
                            def REF(m, xs, x0s):
                                sel = np.ones(x0s[0].size, dtype=bool) if ASET is None else own_active(x0s[0], *ASET)
                                sf = float(m.sig_out[0].state)/f_own(x0s[0][sel], '{name}', {par})
                                return [sf*f_own(xs[0][sel], '{name}', {par})]
                            MODE = 'smooth'; H0 = min(1e-2, 0.1/abs({par})); POINTS = 3; PSTEP = 0.05; HISTORY = {damp in (None, 0.0)}
                            """))


@bound('PNorm/KSFunction/SoftMinMax, n in {1,2,7} [quick] / {1,2,3,7,20}, parameters +-2..30, positive data on scales 0.02/1/40, PNorm also on data of both signs, 2 points per object (reference = extrapolated differences of response()); '
       'with AggScaling(min/max, damping none/0/0.4) x 6 active-set settings, n in {2,9} [quick], 3 points per object: scaling factor and active set frozen, closed-form reference')
def aggregation(r, tier, seed):
    run(r, aggregation_cases(tier), seed, reps=reps(tier, 2))


# ------------------------------------------------------------------------------------------------------------------
# 3. EinSum (exact integer data, 5-point stencil exact for the multilinear response) and ConcatSignal
# ------------------------------------------------------------------------------------------------------------------
def einsum_expressions(max_ops=3, max_letters=4, max_rank=3):
    """all expressions (up to renaming of the subscripts) with 1..max_ops operands, no repeated subscript inside an operand,
    at most max_letters distinct subscripts, every output a repeat-free arrangement of a subset of the used subscripts"""
    letters = 'ijkl'[:max_letters]

    def operands(prefix, used):
        # canonical form: a new letter may only be the next unused one
        if prefix:
            yield prefix, used
        if len(prefix) >= max_rank:
            return
        for c in letters[:min(used + 1, max_letters)]:
            if c in prefix:
                continue
            yield from operands(prefix + c, max(used, letters.index(c) + 1))

    def rec(ops, used):
        if ops:
            yield ops, used
        if len(ops) >= max_ops:
            return
        for op, u in operands('', used):
            yield from rec(ops + [op], u)

    seen = set()
    for ops, used in rec([], 0):
        key = tuple(ops)
        if key in seen:
            continue
        seen.add(key)
        L = letters[:used]
        for k in range(0, used + 1):
            for out in itertools.permutations(L, k):
                yield ops, ''.join(out)


def einsum_supported(ops, out):
    """region in which the sensitivity is implemented: every subscript of an operand re-appears in the output or in another
    operand (else the adjoint needs a broadcast that einsum cannot express), or the single-operand full sum"""
    if len(ops) == 1 and out == '':
        return True
    for a, op in enumerate(ops):
        others = set(out).union(*[set(o) for b, o in enumerate(ops) if b != a])
        if not set(op) <= others:
            return False
    return True


EIN_SRC = """
rng = np.random.default_rng([{s}, SEED])
DIM = dict(i=2, j=3, k=4, l=2)
ops = {ops!r}
cplx = {cplx!r}
xs = [rng.integers(-3, 4, [DIM[c] for c in op]).astype(float) + (1j*rng.integers(-3, 4, [DIM[c] for c in op]) if cz else 0) for op, cz in zip(ops, cplx)]
m = pym.EinSum([pym.Signal('a%d' % i, x) for i, x in enumerate(xs)], pym.Signal('y'), expression={expr!r})
MODE = 'poly'; TOL = 1e-12
"""


@functools.lru_cache(maxsize=None)
def _all_expressions():
    return [(tuple(ops), out, einsum_supported(ops, out)) for ops, out in einsum_expressions()]


def einsum_cases(tier, seed, supported=True):
    allx = [(list(ops), out) for ops, out, sup in _all_expressions() if sup == supported]
    one = [e for e in allx if len(e[0]) == 1]
    two = [e for e in allx if len(e[0]) == 2]
    three = [e for e in allx if len(e[0]) == 3]
    rng = np.random.default_rng(seed + 17)
    if supported:
        n2, n3 = (60, 60) if tier == 'quick' else (600, 900)
    else:
        n2, n3 = 3, 3
        one = one[:4]
    pick = one + [two[i] for i in sorted(rng.choice(len(two), min(n2, len(two)), replace=False))] + [three[i] for i in sorted(rng.choice(len(three), min(n3, len(three)), replace=False))]
    named = [(['ij', 'jk'], 'ik'), (['i', 'i'], ''), (['i', 'j'], 'ij'), (['ij', 'j'], 'i'), (['i', 'ij', 'j'], ''), (['ij', 'ij'], 'ij'), (['ji', 'ij'], 'ij'),
             (['ji', 'jk', 'kl'], 'il'), (['ij', 'jk', 'k'], 'ik'), (['ijk', 'kl'], 'lji'), (['i'], ''), (['ij'], ''), (['ijk'], ''), (['ij'], 'ji'), (['ijk'], 'kij')]
    if supported:
        pick = named + pick
    for k, (ops, out) in enumerate(pick):
        expr = ','.join(ops) + '->' + out
        variants = [tuple(False for _ in ops)]
        if k % 3 == 0:
            variants.append(tuple(True for _ in ops))
        if k % 3 == 1 and len(ops) > 1:
            variants.append(tuple(i == (k // 3) % len(ops) for i in range(len(ops))))      # one complex operand, the others real
        for cz in variants:
            yield ((expr, cz), EIN_SRC.format(s=k, ops=ops, cplx=cz, expr=expr))
    if supported:
        for cz in (False, True):
            yield (('ii->', cz), D(f"""
                rng = np.random.default_rng([5, SEED])
                A = rng.integers(-3, 4, (4, 4)).astype(float) + ({'1j*rng.integers(-3, 4, (4, 4))' if cz else '0'})
                m = pym.EinSum(pym.Signal('A', A), pym.Signal('y'), expression='ii->')
                MODE = 'poly'; TOL = 1e-12
                """))


@bound('EinSum: the named table of the docstring + all 1-operand expressions + 60/60 [quick] (600/900 thorough) sampled 2-/3-operand expressions out of the complete enumeration (<=3 operands, rank<=3, <=4 distinct '
       'subscripts, no repeats, explicit output) restricted to the region where every subscript re-appears in the output or another operand; plus ii->; integer data of sizes 2,3,4,2, real / all complex / one complex operand')
def einsum(r, tier, seed):
    run(r, einsum_cases(tier, seed), seed)


def concat_cases():
    kinds = {'npfloat': 'np.float64(1.5)', '0d': 'np.array(-0.5)', 'vec1': 'np.array([2.5])', 'vec3': 'rng.standard_normal(3)', 'vec5': 'rng.standard_normal(5)',
             'row': 'rng.standard_normal((1, 4))', 'cvec': 'rng.standard_normal(3) + 1j*rng.standard_normal(3)', 'empty': 'np.zeros(0)'}
    combos = [('vec3',), ('npfloat',), ('0d', 'vec3'), ('vec3', 'vec5', 'vec1'), ('vec5', '0d', 'row', 'npfloat', 'vec3'), ('cvec', 'vec3'), ('vec3', 'cvec', '0d'), ('vec3', 'empty', 'vec5'), ('row', 'row')]
    for c in combos:
        yield (('ConcatSignal', c), D(f"""
            rng = np.random.default_rng([3, SEED])
            xs = [{', '.join(kinds[k] for k in c)}]
            m = pym.ConcatSignal([pym.Signal('s%d' % i, x) for i, x in enumerate(xs)], pym.Signal('y'))
            MODE = 'linear'
            """))


@bound('ConcatSignal of 1..5 inputs: numpy scalars, 0-d arrays, vectors of lengths 0,1,3,5, (1,4) rows, complex vectors mixed with real ones')
def concat(r, tier, seed):
    run(r, concat_cases(), seed, reps=reps(tier, 3))


# ------------------------------------------------------------------------------------------------------------------
# 4. linear operators: assembly, element / nodal operations, filters   (affine responses: exact differences)
# ------------------------------------------------------------------------------------------------------------------
GRIDS2 = [(1, 1), (3, 1), (1, 4), (3, 2), (4, 3)]
GRIDS3 = [(1, 1, 1), (2, 1, 3), (2, 2, 2)]
UNITS = [(1.0, 1.0, 1.0), (0.5, 1.5, 2.0)]


def dom_src(g, u):
    g = tuple(g) + (0,) * (3 - len(g))
    return f"dom = pym.DomainDefinition({g[0]}, {g[1]}, {g[2]}, {u[0]}, {u[1]}, {u[2]})"


def assembly_cases(tier):
    grids = [g for g in GRIDS2] + [g for g in GRIDS3]
    if tier != 'quick':
        grids += [(5, 4), (3, 3, 2)]
    k = 0
    for g in grids:
        for ndof in (1, 2, 3):
            for bc in ('None', 'perm', 'list', 'all_but_one'):
                k += 1
                if tier == 'quick' and len(g) == 3 and ndof == 3 and bc != 'perm':
                    continue
                cplx_x = (k % 5 == 0)
                cplx_e = (k % 7 == 0)
                mt = ['sps.csc_matrix', 'sps.csr_matrix', 'sps.csc_array'][k % 3]
                addc = (k % 4 == 1) and mt != 'sps.csc_array'
                bcd = ['None', '0.0', '7.5'][k % 3]
                bcsrc = {'None': 'bc = None', 'perm': 'bc = rng.permutation(n)[:max(1, n//4)]', 'list': 'bc = [int(b) for b in rng.permutation(n)[:2]]', 'all_but_one': 'bc = np.arange(n)[::-1][:n-1]'}[bc]
                yield (('AssembleGeneral', g, ndof, bc, mt, bcd, addc, cplx_x, cplx_e), D(f"""
                    rng = np.random.default_rng([{k}, SEED])
                    {dom_src(g, UNITS[k % 2])}
                    ned = dom.elemnodes*{ndof}; n = dom.nnodes*{ndof}
                    elmat = rng.standard_normal((ned, ned)){' + 1j*rng.standard_normal((ned, ned))' if cplx_e else ''}
                    {bcsrc}
                    x = 0.1 + rng.random(dom.nel){' + 1j*rng.standard_normal(dom.nel)' if cplx_x else ''}
                    x[rng.integers(0, dom.nel)] = 0.0
                    const = {'sps.random(n, n, 0.2, random_state=1, format="csc")' if addc else 'None'}
                    m = pym.AssembleGeneral(pym.Signal('x', x), pym.Signal('A'), dom, elmat, bc=bc, bcdiagval={bcd}, matrix_type={mt}, add_constant=const)
                    MODE = 'linear'
                    SEEDS = [['rand'], ['dyad'], ['cdyad'], ['cdense'], ['unit'], ['int']]
                    """))
    for g in [(2, 3), (1, 2), (2, 1, 2)] + ([(4, 4), (2, 3, 2)] if tier != 'quick' else []):
        for u in UNITS:
            for bc in ('None', 'perm'):
                bcs = 'None' if bc == 'None' else 'np.array([3, 0, 2])'
                for plane in ("'strain'", "'stress'"):
                    yield (('AssembleStiffness', g, u, bc, plane), D(f"""
                        rng = np.random.default_rng([1, SEED])
                        {dom_src(g, u)}
                        x = 0.1 + rng.random(dom.nel)
                        m = pym.AssembleStiffness(pym.Signal('x', x), pym.Signal('K'), dom, e_modulus=2.5, poisson_ratio=0.25, plane={plane}, bc={bcs}, bcdiagval=3.0)
                        MODE = 'linear'
                        SEEDS = [['rand'], ['dyad'], ['unit']]
                        """))
                for ndof in (1, 2):
                    yield (('AssembleMass', g, u, bc, ndof), D(f"""
                        rng = np.random.default_rng([2, SEED])
                        {dom_src(g, u)}
                        x = 0.1 + rng.random(dom.nel)
                        m = pym.AssembleMass(pym.Signal('x', x), pym.Signal('M'), dom, material_property=1.7, ndof={ndof}, bc={bcs})
                        MODE = 'linear'
                        SEEDS = [['rand'], ['cdyad'], ['unit']]
                        """))
                yield (('AssemblePoisson', g, u, bc), D(f"""
                    rng = np.random.default_rng([3, SEED])
                    {dom_src(g, u)}
                    x = 0.1 + rng.random(dom.nel)
                    m = pym.AssemblePoisson(pym.Signal('x', x), pym.Signal('P'), dom, material_property=0.6, bc={bcs})
                    MODE = 'linear'
                    SEEDS = [['rand'], ['dyad'], ['cdense']]
                    """))


@bound('AssembleGeneral on grids 1x1,3x1,1x4,3x2,4x3,1x1x1,2x1x3,2x2x2 x dofs/node 1..3 x bc none/unsorted array/list/all-but-one dof, bcdiagval None/0/7.5, csc/csr matrix and csc_array, add_constant, '
       'non-symmetric (some complex) element matrix, real/complex scaling with an exact zero, unit and 0.5x1.5x2 element sizes; seeds dense real/complex, real/complex DyadCarrier, single-entry, integer; '
       'AssembleStiffness (plane strain/stress) / AssembleMass (1,2 dofs) / AssemblePoisson on 2x3, 1x2, 2x1x2 with and without bc')
def assembly(r, tier, seed):
    run(r, assembly_cases(tier), seed, reps=reps(tier, 3))


def elemop_cases(tier):
    grids = GRIDS2 + GRIDS3
    k = 0
    for g in grids:
        for ndof in (1, 2, 3):
            for prefix in ('()', '(3,)', '(2, 3)'):
                for pernode in (False, True):
                    k += 1
                    if tier == 'quick' and k % 2 and len(g) == 3:
                        continue
                    cplx = k % 4 == 0
                    yield (('ElementOperation', g, ndof, prefix, pernode, cplx), D(f"""
                        rng = np.random.default_rng([{k}, SEED])
                        {dom_src(g, UNITS[k % 2])}
                        B = rng.standard_normal({prefix} + (dom.elemnodes*{1 if pernode else ndof},))
                        u = rng.standard_normal(dom.nnodes*{ndof}){' + 1j*rng.standard_normal(dom.nnodes*%d)' % ndof if cplx else ''}
                        m = pym.ElementOperation(pym.Signal('u', u), pym.Signal('y'), dom, B)
                        MODE = 'linear'; POINTS = 2
                        """))
    for g in grids:
        for u in UNITS:
            dim = len(g)
            for opt in ('voigt=True', 'voigt=False'):
                yield (('Strain', g, u, opt), D(f"""
                    rng = np.random.default_rng([4, SEED])
                    {dom_src(g, u)}
                    u = rng.standard_normal(dom.nnodes*{dim})
                    m = pym.Strain(pym.Signal('u', u), pym.Signal('e'), dom, {opt})
                    MODE = 'linear'
                    """))
            for opt in ("plane='strain'", "plane='stress', e_modulus=3.0, poisson_ratio=0.2"):
                yield (('Stress', g, u, opt), D(f"""
                    rng = np.random.default_rng([5, SEED])
                    {dom_src(g, u)}
                    u = rng.standard_normal(dom.nnodes*{dim}) + 1j*rng.standard_normal(dom.nnodes*{dim})
                    m = pym.Stress(pym.Signal('u', u), pym.Signal('s'), dom, {opt})
                    MODE = 'linear'
                    """))
                yield (('ThermoMechanical', g, u, opt), D(f"""
                    rng = np.random.default_rng([6, SEED])
                    {dom_src(g, u)}
                    x = rng.random(dom.nel)
                    m = pym.ThermoMechanical(pym.Signal('xT', x), pym.Signal('f'), dom, alpha=0.01, {opt})
                    MODE = 'linear'
                    """))
            for ndof in (1, 2, 3):
                yield (('ElementAverage', g, u, ndof), D(f"""
                    rng = np.random.default_rng([7, SEED])
                    {dom_src(g, u)}
                    v = rng.standard_normal(dom.nnodes*{ndof})
                    m = pym.ElementAverage(pym.Signal('v', v), pym.Signal('ve'), dom)
                    MODE = 'linear'
                    """))
        for ndof in (1, 2):
            for lead in ('', '3, '):
                yield (('NodalOperation', g, ndof, lead), D(f"""
                    rng = np.random.default_rng([8, SEED])
                    {dom_src(g, UNITS[1])}
                    A = rng.standard_normal(({lead}dom.elemnodes*{ndof},))
                    x = rng.standard_normal(({lead}dom.nel,))
                    m = pym.NodalOperation(pym.Signal('x', x), pym.Signal('u'), dom, A)
                    MODE = 'linear'
                    """))


@bound('ElementOperation on 5 2D + 3 3D grids x dofs/node 1..3 x operator shapes (k,), (3,k), (2,3,k) given per dof or per node (expanded at the first call), real/complex nodal data, 2 points per object; '
       'Strain (voigt on/off), Stress and ThermoMechanical (plane strain/stress, complex displacements for Stress), ElementAverage (1..3 dofs), NodalOperation (vector and (3,nel) block input); unit and non-unit element sizes')
def element_operations(r, tier, seed):
    run(r, elemop_cases(tier), seed, reps=reps(tier, 3))


BCS = ["'symmetric'", "'edge'", "'wrap'", "0.0", "1.0", "0.3"]


def filter_cases(tier, seed):
    rng = np.random.default_rng(seed + 5)
    k = 0
    # (a) every boundary type on every side (same kernel), 2D and 3D, radius kernel
    for g in [(4, 3), (1, 5), (3, 1), (2, 2, 3)]:
        for b in BCS:
            k += 1
            yield (('FilterConv', g, 'all', b), D(f"""
                rng = np.random.default_rng([{k}, SEED])
                {dom_src(g, UNITS[0])}
                x = rng.random(dom.nel)
                m = pym.FilterConv(pym.Signal('x', x), pym.Signal('y'), dom, radius={[1.5, 2.0, 2.6][k % 3]}, xmin_bc={b}, xmax_bc={b}, ymin_bc={b}, ymax_bc={b}, zmin_bc={b}, zmax_bc={b})
                MODE = 'linear'
                """))
    # (b) all ordered pairs of boundary types on one axis with a non-symmetric kernel
    for axis in ('x', 'y'):
        for b0, b1 in itertools.product(BCS, repeat=2):
            k += 1
            if tier == 'quick' and k % 2:
                continue
            yield (('FilterConv', 'pair', axis, b0, b1), D(f"""
                rng = np.random.default_rng([{k}, SEED])
                {dom_src((3, 4), UNITS[0])}
                x = rng.random(dom.nel)
                w = rng.random({(5, 3) if axis == 'x' else (3, 5)})
                m = pym.FilterConv(pym.Signal('x', x), pym.Signal('y'), dom, weights=w, {axis}min_bc={b0}, {axis}max_bc={b1})
                MODE = 'linear'
                """))
    # (c) random mixtures, asymmetric kernels of several shapes, absolute radius on non-unit elements, user overrides, complex data
    nmix = 30 if tier == 'quick' else 300
    for i in range(nmix):
        k += 1
        d3 = i % 3 == 2
        g = [(4, 3), (2, 5), (3, 3), (1, 4)][i % 4] if not d3 else [(2, 3, 2), (3, 1, 2), (2, 2, 1)][(i // 3) % 3]
        b = [BCS[j] for j in rng.integers(0, len(BCS), 6)]
        kern = [f"weights=rng.random({s})" for s in ((3, 3), (3, 1), (1, 3), (5, 3), (3,), (3, 3, 1))][i % 6] if not d3 else [f"weights=rng.random({s})" for s in ((3, 3, 3), (1, 3, 3), (3, 1, 5))][(i // 3) % 3]
        if i % 5 == 4:
            kern = f"radius={[1.2, 2.1, 3.3][i % 3]}, relative_units=False"
        over = "m.override_values(np.s_[0, :, :], 0.7); m.override_values(np.s_[-1, 0, 0], 0.0)" if i % 7 == 3 else ""
        cplx = " + 1j*rng.random(dom.nel)" if i % 6 == 5 else ""
        yield (('FilterConv', 'mix', g, tuple(b), kern, bool(over), bool(cplx)), D(f"""
            rng = np.random.default_rng([{k}, SEED])
            {dom_src(g, UNITS[i % 2])}
            x = rng.random(dom.nel){cplx}
            m = pym.FilterConv(pym.Signal('x', x), pym.Signal('y'), dom, {kern}, xmin_bc={b[0]}, xmax_bc={b[1]}, ymin_bc={b[2]}, ymax_bc={b[3]}, zmin_bc={b[4]}, zmax_bc={b[5]})
            {over}
            MODE = 'linear'
            """))
    # (d) DensityFilter and a user Filter with symmetric H
    for g in [(1, 1), (4, 1), (1, 3), (4, 3), (5, 5), (2, 2, 2), (3, 1, 2)] + ([(8, 6), (4, 3, 3)] if tier != 'quick' else []):
        for rad in (1.0, 1.5, 2.0, 2.7, 4.2):
            for nonpad in ('None', 'np.arange(dom.nel)[::2]', 'np.array([0])'):
                k += 1
                if tier == 'quick' and k % 3 == 0:
                    continue
                yield (('DensityFilter', g, rad, nonpad), D(f"""
                    rng = np.random.default_rng([{k}, SEED])
                    {dom_src(g, UNITS[k % 2])}
                    x = rng.random(dom.nel){' + 1j*rng.random(dom.nel)' if k % 8 == 0 else ''}
                    m = pym.DensityFilter(pym.Signal('x', x), pym.Signal('y'), dom, radius={rad}, nonpadding={nonpad})
                    MODE = 'linear'
                    """))
    for n in (1, 4, 9):
        for nonpad in ('None', 'np.array([0])'):
            yield (('Filter', n, nonpad), D(f"""
                rng = np.random.default_rng([{n}, SEED])
                class UserFilter{n}(pym.Filter):
                    @staticmethod
                    def _calculate_h(H):
                        return H
                R = sps.random({n}, {n}, 0.5, random_state=2, format='coo')
                H = (R + R.T + sps.identity({n})).tocoo()
                x = rng.random({n})
                m = UserFilter{n}(pym.Signal('x', x), pym.Signal('y'), H, nonpadding={nonpad})
                MODE = 'linear'
                """))


@bound('FilterConv: each of symmetric/edge/wrap/0/1/0.3 on all sides (4x3,1x5,3x1,2x2x3), all 36 ordered pairs per axis with a non-symmetric 5x3 kernel (every second one in quick), 30 [300 thorough] random side mixtures '
       'with non-symmetric kernels of 9 shapes, absolute radius on 0.5x1.5x2 elements, override_values, complex data; DensityFilter on 7 grids x radius 1,1.5,2,2.7,4.2 x nonpadding none/every second/one; user Filter with symmetric H')
def filters(r, tier, seed):
    run(r, filter_cases(tier, seed), seed, reps=reps(tier, 2))


# ------------------------------------------------------------------------------------------------------------------
# 5. OverhangFilter (smooth, layer recursion)
# ------------------------------------------------------------------------------------------------------------------
def overhang_cases(tier):
    k = 0
    params = ["", ", xi_0=0.3, p=10.0, eps=1e-2", ", xi_0=0.7, p=12.0, eps=1e-3", ", p=80.0, eps=1e-5"]
    sizes2 = [(1, 1), (4, 1), (1, 4), (2, 2), (3, 2), (2, 5), (4, 3)] + ([(7, 5), (5, 8)] if tier != 'quick' else [])
    dirs2 = [(1, 0), (-1, 0), (0, 1), (0, -1), (0.0, -2.0, 0.0), 'x', '-x', '+y', 'y-', 'Y']
    for g in sizes2:
        for d in dirs2:
            k += 1
            for ip, par in enumerate(params):
                if tier == 'quick' and (k + ip) % 2:
                    continue
                exact = "x[rng.integers(0, dom.nel)] = 0.0; x[rng.integers(0, dom.nel)] = 1.0" if (par == "" and k % 3 == 0) else ""
                yield (('OverhangFilter', g, d, par, bool(exact)), D(f"""
                    rng = np.random.default_rng([{k}, SEED])
                    {dom_src(g, UNITS[k % 2])}
                    x = 0.05 + 0.95*rng.random(dom.nel)
                    {exact}
                    m = pym.OverhangFilter(pym.Signal('x', x), pym.Signal('y'), dom, direction={d!r}{par})
                    MODE = {"'cstep'" if (exact or k % 2) else "'smooth'"}; H0 = 1e-3; POINTS = 2; PSTEP = 0.01
                    """))
    sizes3 = [(1, 1, 1), (2, 2, 2), (3, 2, 2), (2, 1, 3), (1, 3, 2), (3, 3, 3)] + ([(4, 3, 5)] if tier != 'quick' else [])
    dirs3 = [(1, 0, 0), (-1, 0, 0), (0, 1, 0), (0, -1, 0), (0, 0, 1), (0, 0, -1), 'z', '-z', 'x-', '+y']
    for g in sizes3:
        for d in dirs3:
            for ns in (5, 9, None):
                k += 1
                if tier == 'quick' and k % 2 == 0:
                    continue
                par = params[(k // 2) % 4]
                yield (('OverhangFilter', g, d, ns, par), D(f"""
                    rng = np.random.default_rng([{k}, SEED])
                    {dom_src(g, UNITS[k % 2])}
                    x = 0.05 + 0.95*rng.random(dom.nel)
                    m = pym.OverhangFilter(pym.Signal('x', x), pym.Signal('y'), dom, direction={d!r}, nsampling={ns}{par})
                    MODE = {"'cstep'" if (k // 2) % 2 else "'smooth'"}; H0 = 1e-3; POINTS = 2; PSTEP = 0.01
                    """))


@bound('OverhangFilter 2D on 1x1,4x1,1x4,2x2,3x2,2x5,4x3 x 10 print directions (arrays incl. unnormalised, strings incl. upper case / sign after the letter) x 4 parameter sets (default, p=10/eps=1e-2/xi0=0.3, p=12/xi0=0.7, p=80), '
       'exact 0 and 1 densities; 3D on 1x1x1..3x3x3 x 10 directions x nsampling 5/9/default; single-layer and single-column domains; 2 points per object; seeds random / single entry / integer; reference alternately extrapolated differences and the complex-step derivative (always for exact 0/1 densities)')
def overhang(r, tier, seed):
    run(r, overhang_cases(tier), seed, reps=reps(tier, 2))


# ------------------------------------------------------------------------------------------------------------------
# 6. matrix modules: Inverse, LinSolve, SystemOfEquations, StaticCondensation (perturbations inside the matrix class)
# ------------------------------------------------------------------------------------------------------------------
MATSRC = D("""
    def make_matrix(rng, n, kind, sparse=False, diag_only=0):
        R = np.clip(rng.standard_normal((n, n)), -2.5, 2.5)      # with the shifts below: well conditioned also for n = 1, 2
        if sparse:
            R = R*(rng.random((n, n)) < 0.4)
            R[-1, -2], R[-2, -1] = 0.7, -0.4      # never a diagonal matrix (the module keeps the solver chosen for the first matrix)
        C = rng.standard_normal((n, n))*(R != 0)
        for k in range(diag_only):          # rows and columns that only hold their diagonal entry (like constrained dofs)
            R[k, :] = 0; R[:, k] = 0; C[k, :] = 0; C[:, k] = 0
        alt = np.where(np.arange(n) % 2, -1.0, 1.0)
        if kind == 'gen':        # real, non-symmetric
            return R + (n + 2)*np.eye(n)
        if kind == 'sym':        # real symmetric indefinite
            return (R + R.T)/2 + np.diag((n + 2)*alt)
        if kind == 'spd':
            return (R + R.T)/2 + (n + 2)*np.eye(n)
        if kind == 'cgen':
            return R + 1j*C + (n + 2)*np.eye(n)
        if kind == 'herm':       # Hermitian positive definite
            return (R + R.T)/2 + 1j*(C - C.T)/2 + (n + 2)*np.eye(n)
        if kind == 'hermind':    # Hermitian indefinite
            return (R + R.T)/2 + 1j*(C - C.T)/2 + np.diag((n + 2)*alt)
        if kind == 'csym':       # complex symmetric, not Hermitian
            return (R + R.T)/2 + 1j*(C + C.T)/2 + (n + 2)*np.eye(n)
        raise ValueError(kind)
    """)
MCLASS = {'gen': None, 'sym': 'sym', 'spd': 'sym', 'cgen': None, 'herm': 'herm', 'hermind': 'herm', 'csym': 'sym'}
RHS = {'vec': 'rng.standard_normal(N)', 'blk': 'rng.standard_normal((N, 3))', 'blk1': 'rng.standard_normal((N, 1))',
       'cvec': 'rng.standard_normal(N) + 1j*rng.standard_normal(N)', 'cblk': 'rng.standard_normal((N, 2)) + 1j*rng.standard_normal((N, 2))'}


def linsolve_cases(tier, cg_zero_column=False):
    k = 0
    for kind in (MCLASS if not cg_zero_column else ()):
        for sparse in (None, 'csc', 'csr', 'csc_array'):
            for rhs in RHS:
                if sparse and kind in ('gen', 'sym', 'spd') and rhs.startswith('c'):
                    continue     # rejected by the module (complex rhs for a real sparse matrix)
                for lda in (True, False):
                    k += 1
                    if sparse in ('csr', 'csc_array') and k % 3:
                        continue
                    if tier == 'quick' and (k % 2 and rhs in ('blk1', 'cblk') or k % 4 == 3):
                        continue
                    flags = ['', '', ', hermitian=%s' % (MCLASS[kind] == ('sym' if kind in ('sym', 'spd') else 'herm')), ', symmetric=%s' % (MCLASS[kind] == 'sym')][k % 4]
                    if kind in ('herm', 'hermind') and 'symmetric' in flags:
                        flags = ''
                    diag_only = 2 if k % 5 == 0 else 0
                    n = 5 + k % 4
                    if lda and 'blk' in rhs:
                        # LDAWrapper stores rounding noise as a database vector when a block holds more independent columns than the space has
                        # dimensions left (finding C01-lda-dependent-rhs-columns): keep response + all seed columns below n here
                        n += 9
                    vc = MCLASS[kind] if (MCLASS[kind] or k % 2) else 'pattern+'
                    conv = '' if not sparse else (f"A = sps.{sparse}(A)" if sparse == 'csc_array' else f"A = sps.{sparse}_matrix(A)")
                    yield (('LinSolve', kind, sparse, rhs, lda, flags, diag_only, n), MATSRC + D(f"""
                        rng = np.random.default_rng([{k}, SEED]); n = {n}
                        A = make_matrix(rng, n, {kind!r}, {bool(sparse)}, {diag_only})
                        {conv}
                        b = {RHS[rhs].replace('N', 'n')}
                        m = pym.LinSolve([pym.Signal('A', A), pym.Signal('b', b)], pym.Signal('x'){flags})
                        m.use_lda_solver = {lda}
                        MODE = 'smooth'; H0 = 1e-2; POINTS = 2; VCLASS = [{vc!r}, None]
                        """))
    # explicit solver objects
    solvers = [('gen', None, 'pym.solvers.SolverDenseLU()'), ('gen', None, 'pym.solvers.SolverDenseQR()'), ('spd', None, 'pym.solvers.SolverDenseCholesky()'), ('herm', None, 'pym.solvers.SolverDenseCholesky()'),
               ('sym', None, 'pym.solvers.SolverDenseLDL()'), ('hermind', None, 'pym.solvers.SolverDenseLDL(hermitian=True)'), ('csym', None, 'pym.solvers.SolverDenseLDL(hermitian=False)'),
               ('gen', 'csc', 'pym.solvers.SolverSparseLU()'), ('cgen', 'csr', 'pym.solvers.SolverSparseLU()'), ('spd', 'csc', 'pym.solvers.CG(tol=1e-13, maxit=300)'),
               ('spd', 'csc', 'pym.solvers.CG(preconditioner=pym.solvers.ILU(), tol=1e-13, maxit=300)')]
    for kind, sparse, solver in solvers:
        for rhs in ('vec', 'blk'):
            for lda in (True, False):
                k += 1
                # CG returns nan for a right-hand side with a zero column: reached by single-entry seeds on block data without the LDA wrapper
                if ('CG(' in solver and rhs == 'blk' and not lda) != cg_zero_column:
                    continue
                yield (('LinSolve', kind, sparse, rhs, lda, solver), MATSRC + D(f"""
                    rng = np.random.default_rng([{k}, SEED]); n = 6
                    A = make_matrix(rng, n, {kind!r}, {bool(sparse)})
                    {'A = sps.%s_matrix(A)' % sparse if sparse else ''}
                    b = {RHS[rhs].replace('N', 'n')}
                    m = pym.LinSolve([pym.Signal('A', A), pym.Signal('b', b)], pym.Signal('x'), solver={solver})
                    m.use_lda_solver = {lda}
                    MODE = 'smooth'; H0 = 1e-2; POINTS = 2; VCLASS = [{MCLASS[kind]!r}, None]
                    """))
    for kind in (('gen', 'cgen', 'sym', 'herm', 'csym') if not cg_zero_column else ()):
        for n in (1, 2, 5):
            yield (('Inverse', kind, n), MATSRC + D(f"""
                rng = np.random.default_rng([{n}, SEED]); n = {n}
                A = make_matrix(rng, n, {kind!r})
                m = pym.Inverse(pym.Signal('A', A), pym.Signal('Ainv'))
                MODE = 'smooth'; H0 = 1e-2; POINTS = 2; PSTEP = 0.05
                """))


@bound('LinSolve: 7 matrix classes (real general / symmetric indefinite / SPD, complex general / Hermitian PD / Hermitian indefinite / complex symmetric) x dense, csc, csr, csc_array x rhs real/complex vector, (n,3), (n,1), (n,2) blocks '
       'x LDAWrapper on/off, hermitian=/symmetric= flags, rows holding only a diagonal entry, n = 5..8 (14..17 for block data with the LDAWrapper), 11 explicit solver objects (dense LU/QR/Cholesky/LDL, sparse LU, CG with/without ILU); directions inside the matrix class '
       '(symmetric / Hermitian / sparsity pattern, also a few entries outside the pattern), 2 points per object; Inverse on 5 classes, n = 1,2,5')
def linsolve_inverse(r, tier, seed):
    run(r, linsolve_cases(tier), seed, reps=reps(tier, 3))


def soe_cases(tier, complex_real_inputs=False, lda_region=False):
    k = 0
    for kind in ('spd', 'sym', 'csym'):
        for rhs in ('vec', 'blk', 'cvec'):
            if (rhs == 'cvec') != (kind == 'csym') and not (complex_real_inputs and kind == 'csym' and rhs != 'cvec'):
                continue
            if complex_real_inputs and not (kind == 'csym' and rhs != 'cvec'):
                continue
            if lda_region and not (kind == 'spd' and rhs == 'blk'):
                continue
            for sel in ('free=free, prescribed=pres', 'free=free', 'prescribed=pres', 'free=np.sort(free)'):
                for fmt in ('csc', 'csr'):
                    k += 1
                    if fmt == 'csr' and k % 4:
                        continue
                    n, nf = [(7, 4), (6, 5), (5, 1), (8, 4)][k % 4]
                    if rhs == 'blk':
                        # all response and seed columns fit into the free space and A_fp has at least as many columns as there are load cases,
                        # so that no block of adjoint loads has dependent columns (see C01-lda-dependent-rhs-columns)
                        n, nf = [(25, 21), (24, 20), (26, 23), (26, 22)][k % 4]
                    if lda_region:
                        n, nf = 24, 23
                    r0, r1 = RHS[rhs].replace('N', 'nf'), RHS[rhs].replace('N', 'n - nf')
                    yield (('SystemOfEquations', kind, rhs, sel, fmt, n, nf), MATSRC + D(f"""
                        rng = np.random.default_rng([{k}, SEED]); n = {n}; nf = {nf}
                        A = sps.{fmt}_matrix(make_matrix(rng, n, {kind!r}, True))
                        perm = rng.permutation(n); free = perm[:nf]; pres = perm[nf:]
                        bf = {r0}; xp = {r1}
                        m = pym.SystemOfEquations([pym.Signal('A', A), pym.Signal('bf', bf), pym.Signal('xp', xp)], [pym.Signal('x'), pym.Signal('b')], {sel})
                        MODE = 'smooth'; H0 = 1e-2; POINTS = 2; VCLASS = ['sym', None, None]
                        """))


def condensation_cases(tier, kinds=('spd', 'sym')):
    k = 0
    for kind in kinds:
        for n, nm, nfree in ((8, 3, 4), (6, 1, 5), (7, 3, 4), (5, 4, 1)):
            for order in ('perm', 'sorted'):
                k += 1
                yield (('StaticCondensation', kind, n, nm, nfree, order), MATSRC + D(f"""
                    rng = np.random.default_rng([{k}, SEED]); n = {n}
                    A = sps.csc_matrix(make_matrix(rng, n, {kind!r}, True))
                    perm = rng.permutation(n); main = perm[:{nm}]; free = perm[{nm}:{nm + nfree}]
                    {'main = np.sort(main); free = np.sort(free)' if order == 'sorted' else ''}
                    m = pym.StaticCondensation(pym.Signal('A', A), pym.Signal('Ared'), main=main, free=free)
                    MODE = 'smooth'; H0 = 1e-2; POINTS = 2; VCLASS = ['sym']
                    SEEDS = [['rand'], ['dyad'], ['unit'], ['int']]
                    """))


@bound('SystemOfEquations: sparse symmetric A (SPD / indefinite real with real data, complex symmetric with complex data), csc/csr, free and/or prescribed sets given (unsorted permutations, sorted), sizes (7,4),(6,5),(5,1),(8,4) ((25,21),(24,20),(26,23),(26,22) for block data), '
       'vector and (.,3) block data, seeds on x and b / x only / b only / single entries; StaticCondensation: sparse real symmetric A (SPD, indefinite), 4 partitions with unsorted / sorted index sets incl. dofs in neither set, '
       'dense and DyadCarrier seeds; symmetric perturbations, 2 points per object (inputs re-set before every response)')
def partitioned_systems(r, tier, seed):
    run(r, itertools.chain(soe_cases(tier), condensation_cases(tier)), seed, reps=reps(tier, 3))


# ------------------------------------------------------------------------------------------------------------------
# 7. EigenSolve (simple eigenvalues, sign convention away from its switching point, ordering stable)
# ------------------------------------------------------------------------------------------------------------------
EIGSRC = D("""
    import scipy.linalg as spla

    def eig_matrix(rng, n, kind):
        lam = np.arange(1, n + 1)*1.0 + 0.3*rng.random(n)
        if kind in ('sym', 'herm'):
            Z = rng.standard_normal((n, n)) + (1j*rng.standard_normal((n, n)) if kind == 'herm' else 0)
            U, _ = np.linalg.qr(Z)
            A = (U*lam) @ U.conj().T
            return (A + A.conj().T)/2
        S = np.eye(n) + 0.3*rng.standard_normal((n, n)) + (0.3j*rng.standard_normal((n, n)) if kind == 'cgen' else 0)
        if kind == 'gen':        # real non-symmetric
            return S @ np.diag(lam) @ np.linalg.inv(S)
        if kind == 'genc':       # real non-symmetric with a complex pair
            Dm = np.diag(lam)
            Dm[0, 1], Dm[1, 0], Dm[1, 1] = 0.8, -0.8, Dm[0, 0]
            return S @ Dm @ np.linalg.inv(S)
        if kind == 'cgen':
            return S @ np.diag(lam + 0.5j*rng.standard_normal(n)) @ np.linalg.inv(S)

    def pd_matrix(rng, n, cplx=False):
        Z = rng.standard_normal((n, n)) + (1j*rng.standard_normal((n, n)) if cplx else 0)
        return Z @ Z.conj().T/n + np.eye(n)

    def stable_order(W, Q):     # ordering that does not depend on rounding for conjugate pairs
        return np.lexsort((np.imag(W), np.round(np.real(W), 3)))

    def well_posed(A, B, herm, real_gap=True):
        # simple eigenvalues (gap 0.3) and the normalisation of the module away from its switching points: it divides the LAPACK
        # vector q by sqrt(q.Bq) (branch cut on the negative real axis) and flips by the sign of Re(mean(q))
        W, Q = spla.eigh(A, b=B) if herm else spla.eig(A, b=B)
        Bq = Q if B is None else B @ Q
        c = np.sum(Q*Bq, axis=0)
        Wk = np.real(W) if real_gap else W
        gap = np.min(np.abs(Wk[:, None] - Wk[None, :]) + 10*np.eye(W.size))
        mag = np.sort(np.abs(Q), axis=0)
        top2 = np.min(mag[-1] - mag[-2]) if (np.iscomplexobj(Q) and Q.shape[0] > 1) else 1.0
        top2b = 1.0
        if np.iscomplexobj(Q) and Q.shape[0] > 1:
            m1 = np.sort(np.abs(Q.real) + np.abs(Q.imag), axis=0)
            top2b = np.min(m1[-1] - m1[-2])
        return (gap > 0.3 and np.min(np.abs(c)/np.sum(np.abs(Q*Bq), axis=0)) > 0.2 and np.max(np.abs(np.angle(c))) < np.pi - 0.5
                and np.min(np.abs(np.real(np.mean(Q, axis=0)))/np.linalg.norm(Q, axis=0)) > 0.06 and top2 > 0.06 and top2b > 0.06)
    """)


def eig_cases(tier):
    k = 0
    for kind in ('sym', 'herm', 'gen', 'genc', 'cgen'):
        for B in (None, 'spd', 'hpd'):
            if (B == 'hpd' and kind in ('sym', 'gen', 'genc')) or (B == 'spd' and kind == 'herm'):
                continue
            for opt in ('', ', hermitian=FLAG', ', sorting_func=lambda W, Q: np.argsort(-np.real(W))'):
                for n in ((2, 5) if tier == 'quick' else (2, 3, 5, 7)):
                    k += 1
                    herm = kind in ('sym', 'herm')
                    o = opt.replace('FLAG', str(herm))
                    realgap = True
                    if kind == 'genc' or (not herm and B is not None):
                        if 'sorting_func' in o or n == 2:
                            continue
                        o += ', sorting_func=stable_order'
                        realgap = False
                    bsrc = {None: 'B = None', 'spd': 'B = pd_matrix(rng, n)', 'hpd': 'B = pd_matrix(rng, n, True)'}[B]
                    realvec = kind == 'sym' or (kind == 'gen' and B is None)     # real eigenvectors: only the sign convention can switch
                    if not realvec and n > 5:
                        continue     # instances away from all switching points of the complex normalisation become too rare
                    vca = {'sym': 'sym', 'herm': 'herm'}.get(kind)
                    vcb = {'spd': 'sym', 'hpd': 'herm'}.get(B)
                    yield (('EigenSolve', kind, B, o, n), EIGSRC + D(f"""
                        for trial in range(20000):
                            rng = np.random.default_rng([{k}, trial, SEED]); n = {n}
                            A = eig_matrix(rng, n, {kind!r})
                            {bsrc}
                            if well_posed(A, B, {herm}, {realgap}):
                                break
                        assert trial < 19999, 'no well-posed instance generated'
                        ins = [pym.Signal('A', A)] + ([pym.Signal('B', B)] if B is not None else [])
                        m = pym.EigenSolve(ins, [pym.Signal('W'), pym.Signal('Q')]{o})
                        MODE = 'smooth'; H0 = {2e-4 if realvec else 2e-5}; PSTEP = {3e-3 if realvec else 2e-4}; POINTS = 2; VCLASS = [{vca!r}] + ([{vcb!r}] if B is not None else [])
                        SEEDS = [['rand', 'rand'], ['rand', None], [None, 'rand'], [None, 'unit'], ['unit', None], ['int', 'int']]
                        """))


def eig_sparse_cases(tier, pinned=None):
    k = 66
    for B in (False, True):
        for opt in (', nmodes=3', ', nmodes=3, sigma=0.5', ', nmodes=2, hermitian=True', ', nmodes=1, sigma=-1.0'):
            k += 1
            yield (('EigenSolve sparse', B, opt), D(f"""
                import scipy.linalg as spla
                PIN = {pinned}
                for trial in range(200):
                    rng = np.random.default_rng([{k}, trial, SEED if PIN is None else PIN]); n = 12
                    R = sps.random(n, n, 0.25, random_state=rng).toarray()
                    A = (R + R.T)/2 + np.diag(np.arange(1, n + 1)*1.0)
                    Bd = np.diag(1.0 + rng.random(n)) + 0.1*(np.abs(R) + np.abs(R.T))
                    W, Q = spla.eigh(A, b=Bd if {B} else None)
                    if np.min(np.diff(W)) > 0.25 and np.min(np.abs(np.mean(Q, axis=0))[:4]) > 0.03:
                        break
                ins = [pym.Signal('A', sps.csc_matrix(A))] + ([pym.Signal('B', sps.csc_matrix(Bd))] if {B} else [])
                m = pym.EigenSolve(ins, [pym.Signal('W'), pym.Signal('Q')]{opt})
                MODE = 'smooth'; H0 = 2e-3; POINTS = 2; VCLASS = ['sym'] + (['sym'] if {B} else []); TOL = 1e-5
                SEEDS = [['rand', 'rand'], ['rand', None], [None, 'rand'], [None, 'unit']]
                """))


@bound('EigenSolve dense: real symmetric, complex Hermitian, real non-symmetric (real spectrum / with a complex pair), complex general; standard and generalized (B real SPD / Hermitian PD); hermitian flag given or detected, '
       'descending / rounding-independent sorting functions; n in {2,5} [quick] / {2,3,5,7}; generated so that eigenvalue gaps > 0.3 and the sign convention is > 0.05 away from switching; seeds: both, eigenvalues only, '
       'eigenvectors only, a single eigenvector entry, a single eigenvalue, integers; perturbations inside the class, 2 points per object.')
def eigensolve(r, tier, seed):
    run(r, eig_cases(tier), seed, reps=reps(tier, 3))


SINGULAR = {'Factor is exactly singular': 'C01-eigensolve-sparse-singular-factor'}


@bound('EigenSolve sparse (ARPACK shift-invert): symmetric n = 12, 1..3 modes, sigma 0/0.5/-1, with and without sparse SPD B, seeds on eigenvalues and/or eigenvectors incl. single entries, symmetric perturbations, 2 points per object, '
       'tolerance 1e-5; the sporadic RuntimeError of the eigenvector adjoint (LU of the singular A - lambda*B) is tagged as the known finding')
def eigensolve_sparse(r, tier, seed):
    run(r, eig_sparse_cases(tier), seed, symptoms=SINGULAR, reps=reps(tier, 3))


# ------------------------------------------------------------------------------------------------------------------
# 8. MathGeneral (needs sympy: taken from the tool environment when /venv has none), modules without outputs
# ------------------------------------------------------------------------------------------------------------------
SYMPY = D("""
    import sys, os, tempfile, glob
    def sympy_overlay():
        try:
            import sympy
            return True
        except ImportError:
            pass
        for sp in glob.glob('/opt/veriftools/pyvenv/lib/python3*/site-packages'):
            if os.path.isdir(os.path.join(sp, 'sympy')) and os.path.isdir(os.path.join(sp, 'mpmath')):
                d = os.path.join(tempfile.gettempdir(), 'c01_sympy_overlay_%d' % os.getuid())
                os.makedirs(d, exist_ok=True)
                for pkg in ('sympy', 'mpmath'):
                    try:
                        os.symlink(os.path.join(sp, pkg), os.path.join(d, pkg))
                    except FileExistsError:
                        pass
                sys.path.append(d)
                try:
                    import sympy
                    return True
                except ImportError:
                    return False
        return False
    SKIP = not sympy_overlay()
    """)


def math_cases(unused_input=False):
    ins = {'2float': "xs = [1.3, 4.8]", 'vecfloat': "xs = [0.5 + rng.random(4), 2.5]", '2vec': "xs = [0.5 + rng.random(5), 0.5 + rng.random(5)]",
           'bcast': "xs = [0.5 + rng.random(4), 2.5, 0.5 + rng.random((3, 1))]", '0d': "xs = [np.array(0.7), np.float64(1.9)]", 'cvec': "xs = [0.5 + rng.random(3) + 1j*rng.random(3), 0.5 + rng.random(3)]",
           'mat': "xs = [0.5 + rng.random((2, 3)), 0.5 + rng.random((2, 3))]", 'rowcol': "xs = [0.5 + rng.random((1, 4)), 0.5 + rng.random((3, 1))]"}
    exprs = {'2float': ["inp0*inp1", "sin(a)*b + a^2", "exp(-inp0)/inp1 + sqrt(b)"], 'vecfloat': ["sin(a)*b", "a/b + log(a)*inp1", "a*3.0"], '2vec': ["a*b", "a**2 + 3*a*b - exp(-b)", "tanh(inp0)/inp1"],
             'bcast': ["sin(a)*b + c^2*inp0", "a + b + c", "c*b"], '0d': ["a*b + a/b"], 'cvec': ["a*b + a^2", "exp(a)*b"], 'mat': ["a*b - cos(a)"], 'rowcol': ["a*b + a", "a - b**3"]}
    if unused_input:      # an input that does not occur in the expression while the output is a python scalar
        exprs = {'vecfloat': ["b*b + 0*a", "2*inp1"]}
    for kind, src in ins.items():
        for ex in exprs.get(kind, []):
            yield (('MathGeneral', kind, ex), SYMPY + D(f"""
                if not SKIP:
                    rng = np.random.default_rng([4, SEED])
                    {src}
                    m = pym.MathGeneral([pym.Signal('abcd'[i], x) for i, x in enumerate(xs)], pym.Signal('y'), {ex!r})
                    MODE = 'smooth'; H0 = 1e-2; POINTS = 2; PSTEP = 0.05
                """))


@bound('MathGeneral (sympy taken from the tool environment; skipped when unavailable): 20 expressions (products, quotients, powers, sin/cos/tanh/exp/log/sqrt, unused input, tag and inpK names) on python floats, 0-d, vectors, '
       'matrices, complex vectors, and broadcasting vector x scalar x (3,1) column / (1,4) row x (3,1) column; 2 points per object')
def mathgeneral(r, tier, seed):
    run(r, math_cases(), seed)


@bound('WriteToVTI, ScalarToFile, PlotDomain, PlotGraph, PlotIter (no output signals): response() then sensitivity() completes and leaves the input sensitivities (None or pre-set) untouched; 2D 3x2 domain, temp directory')
def outputless(r, tier, seed):
    import tempfile
    import pymoto as pym
    rng = np.random.default_rng(seed)
    code = REPLAY_HEAD + D("""
        import tempfile
        tmp = tempfile.mkdtemp()
        dom = pym.DomainDefinition(3, 2)
        x = pym.Signal('x', np.linspace(0.1, 1, dom.nel)); s = pym.Signal('s', 1.5); it = pym.Signal('it', np.arange(3.0)); v = pym.Signal('v', np.arange(3.0)**2)
        mods = [pym.WriteToVTI([x], domain=dom, saveto=tmp + '/a.vti'), pym.ScalarToFile([s, it], saveto=tmp + '/log.txt'), pym.PlotDomain(x, domain=dom, show=False),
                pym.PlotGraph([it, v], show=False), pym.PlotIter([s], show=False)]
        pre = np.array([1.0, 2.0, 3.0]); v.sensitivity = pre.copy()
        for m in mods:
            m.response(); m.sensitivity()
            assert all(q.sensitivity is None for q in (x, s, it)) and np.array_equal(v.sensitivity, pre), type(m).__name__
        """)
    with tempfile.TemporaryDirectory() as tmp:
        dom = pym.DomainDefinition(3, 2)
        x = pym.Signal('x', rng.random(dom.nel)); s = pym.Signal('s', 1.5); it = pym.Signal('it', np.arange(3.0)); v = pym.Signal('v', np.arange(3.0) ** 2)
        mk = [('WriteToVTI', lambda: pym.WriteToVTI([x], domain=dom, saveto=tmp + '/a.vti')), ('ScalarToFile', lambda: pym.ScalarToFile([s, it], saveto=tmp + '/log.txt')),
              ('PlotDomain', lambda: pym.PlotDomain(x, domain=dom, show=False)), ('PlotGraph', lambda: pym.PlotGraph([it, v], show=False)), ('PlotIter', lambda: pym.PlotIter([s], show=False))]
        pre = np.array([1.0, 2.0, 3.0])
        v.sensitivity = pre.copy()
        for name, f in mk:
            r.case(name)
            try:
                m = f()
                m.response(); m.sensitivity(); m.response(); m.sensitivity()
                ok = all(q.sensitivity is None for q in (x, s, it)) and np.array_equal(v.sensitivity, pre)
                r.check(ok, 'a module without outputs changes an input sensitivity', name, replay_code=code)
            except Exception as e:
                r.check(False, 'response()/sensitivity() of a module without outputs raises', name, f'{type(e).__name__}: {str(e).splitlines()[0][:200]}', replay_code=code)
    import matplotlib.pyplot as plt
    plt.close('all')


# ------------------------------------------------------------------------------------------------------------------
# 9. regions in which the unchanged tree violates the property (kept, tagged with finding ids)
# ------------------------------------------------------------------------------------------------------------------
def finding_cases(tier, seed):
    for c in itertools.islice(einsum_cases(tier, seed, supported=False), 0, None):
        yield c + ('C01-einsum-summed-index',)
    for expr, shapes in (('ij,jk', ((2, 3), (3, 4))), ('ij,j', ((2, 3), (3,)))):
        yield (('EinSum implicit output', expr), D(f"""
            rng = np.random.default_rng([1, SEED])
            xs = [rng.integers(-3, 4, s).astype(float) for s in {shapes}]
            m = pym.EinSum([pym.Signal('a%d' % i, x) for i, x in enumerate(xs)], pym.Signal('y'), expression={expr!r})
            MODE = 'poly'; TOL = 1e-12
            """), 'C01-einsum-implicit-output')
    for nm, val in (('float', '1.5'), ('int', '3'), ('complex', '1.5-0.5j')):
        yield (('ConcatSignal python scalar', nm), D(f"""
            rng = np.random.default_rng([1, SEED])
            m = pym.ConcatSignal([pym.Signal('a', {val}), pym.Signal('b', rng.standard_normal(3))], pym.Signal('y'))
            MODE = 'linear'
            """), 'C01-concat-python-scalar')
    yield (('ConcatSignal matrix',), D("""
        rng = np.random.default_rng([1, SEED])
        m = pym.ConcatSignal([pym.Signal('a', rng.standard_normal((2, 3))), pym.Signal('b', rng.standard_normal(3))], pym.Signal('y'))
        MODE = 'linear'
        """), 'C01-concat-matrix')
    for c in itertools.islice(soe_cases(tier, complex_real_inputs=True), 4):
        yield c + ('C01-soe-complex-sens-real-input',)
    for c in linsolve_cases(tier, cg_zero_column=True):
        yield c + ('C01-linsolve-cg-zero-seed-column',)
    for c in math_cases(unused_input=True):
        yield c + ('C01-mathgeneral-unused-input',)
    for kind, sparse in (('spd', True), ('sym', True), ('spd', False), ('herm', True)):
        yield (('LinSolve', kind, sparse, 'rhs columns [b, 2b, c]'), MATSRC + D(f"""
            rng = np.random.default_rng([1, SEED]); n = 6
            A = make_matrix(rng, n, {kind!r}, {sparse})
            {'A = sps.csc_matrix(A)' if sparse else ''}
            b1 = rng.standard_normal(n)
            b = np.stack([b1, 2*b1, rng.standard_normal(n)], axis=1)
            m = pym.LinSolve([pym.Signal('A', A), pym.Signal('b', b)], pym.Signal('x'))
            MODE = 'smooth'; H0 = 1e-2; VCLASS = [{MCLASS[kind]!r}, None]
            SEEDS = [['rand']]
            """), 'C01-lda-dependent-rhs-columns')
    for pin, opt in ((57, ', nmodes=3'), (66, ', nmodes=3, sigma=0.5'), (89, ', nmodes=2, hermitian=True')):
        for c in eig_sparse_cases(tier, pinned=pin):
            if c[0][1] and c[0][2] == opt:
                yield (c[0] + (pin,), c[1] + "POINTS = 1; SEEDS = [['rand', 'rand'], [None, 'rand']]\n", 'C01-eigensolve-sparse-singular-factor')
    for c in itertools.islice(soe_cases(tier, lda_region=True), 2):     # one prescribed dof and three load cases: the adjoint loads A_fp*w are multiples of one vector
        yield c + ('C01-lda-dependent-rhs-columns',)
    for c in condensation_cases(tier, kinds=('csym',)):
        yield c + ('C01-staticcond-complex',)


FINDINGS = {
    'C01-einsum-summed-index': 'EinSum with a subscript that occurs in one operand only and not in the output (ij->i, ij,k->ik, ...; 4 one-operand, 3 two-operand, 3 three-operand expressions): sensitivity() raises',
    'C01-einsum-implicit-output': 'EinSum with an implicit output (ij,jk and ij,j): sensitivity() raises',
    'C01-concat-python-scalar': 'ConcatSignal with a python float / int / complex input next to a vector: sensitivity() raises under this numpy',
    'C01-concat-matrix': 'ConcatSignal with a 2x3 matrix input: sensitivity() raises',
    'C01-soe-complex-sens-real-input': 'SystemOfEquations with complex symmetric A and real b_f, x_p: the sensitivities of the real inputs are complex and cannot be added to an existing real sensitivity',
    'C01-staticcond-complex': 'StaticCondensation with complex symmetric A: the imaginary part of the condensation operator is dropped in the sensitivity',
    'C01-linsolve-cg-zero-seed-column': 'LinSolve(solver=CG) without LDAWrapper and block data: a seed with a zero column gives nan sensitivities',
    'C01-lda-dependent-rhs-columns': 'LinSolve (default LDAWrapper) with a symmetric/Hermitian matrix and a right-hand-side block with linearly dependent columns [b, 2b, c] (or more columns than unknowns): '
                                     'rounding noise is normalised and stored as a solution pair, later (adjoint) solves are wrong by ~1e-2',
    'C01-eigensolve-sparse-singular-factor': 'EigenSolve on sparse matrices with eigenvector seeds factorises the singular matrix A - lambda*B with a sparse LU; for about 1% of the generated (A, B) '
                                             'SuperLU meets an exactly zero pivot and sensitivity() raises RuntimeError (instances pinned from seeds 57, 66, 89; depends on the last bits of lambda)',
    'C01-mathgeneral-unused-input': 'MathGeneral with a vector input that does not occur in the expression and a python-scalar output: sensitivity() raises',
}


def make_finding_check(fid):
    @bound('region of a known defect of the unchanged tree (kept, tagged ' + fid + '): ' + FINDINGS[fid], finding=fid)
    def chk(r, tier, seed):
        run(r, [c for c in finding_cases(tier, seed) if c[2] == fid], seed)
    return chk


CHECKS = [('elementwise', elementwise), ('aggregation', aggregation), ('einsum', einsum), ('concat', concat), ('assembly', assembly), ('element_operations', element_operations), ('filters', filters), ('overhang', overhang), ('linsolve_inverse', linsolve_inverse), ('partitioned_systems', partitioned_systems),
          ('eigensolve', eigensolve), ('eigensolve_sparse', eigensolve_sparse), ('mathgeneral', mathgeneral), ('outputless', outputless)]
CHECKS += [('finding_' + fid[4:].replace('-', '_'), make_finding_check(fid)) for fid in FINDINGS]

if os.environ.get('C01_ONLY', '-') != '-':   # development aid: restrict to the checks whose name contains one of the comma separated parts
    CHECKS = [c for c in CHECKS if any(p in c[0] for p in os.environ['C01_ONLY'].split(','))]
