"""C11 bounded stand-ins: EigenSolve on pencils built from a PRESCRIBED spectrum (A = V diag(d) V^-1, generalised: A = B V diag(d) V^-1 or
L U diag(d) U^H L^H with B = L L^H), so the eigenvalues, their count and the ones closest to a shift are known independently of any eigensolver.
Well-conditioned V (cond < 4) and B (cond < 10), gaps >= 0.5 between eigenvalues: eigenvalue errors are O(1e-14), tolerances 1e-9 / 1e-8."""
import itertools
import warnings
import numpy as np
import scipy.sparse as sps
import scipy.linalg as spla
import pymoto as pym
from native.util import bound, REPLAY_HEAD
from native.C07_gen import lit, mat_lit, dense_of, same_values, orth, REPLAY_IMPORTS

warnings.filterwarnings('ignore')
HEAD = REPLAY_HEAD + REPLAY_IMPORTS
TOL_RES = 1e-9     # relative eigen-residual
TOL_VAL = 1e-8     # relative eigenvalue error against the prescribed spectrum
FID_STALE = 'C11-stale-hermitian-flag'

VERIFY_SRC = '''
def dense(M):
    return M.toarray() if sps.issparse(M) else np.asarray(M)
def lexi_sorted(W):
    return all((a.real < b.real) or (a.real == b.real and a.imag <= b.imag) for a, b in zip(W[:-1], W[1:]))
def verify(A, B, W, Q, want=None, default_order=True, real_sym=False, k=None):
    Ad = dense(A); n = Ad.shape[0]; Bd = np.eye(n) if B is None else dense(B)
    k = n if k is None else k
    assert W.shape == (k,) and Q.shape == (n, k), (W.shape, Q.shape)
    for i in range(k):
        q = Q[:, i]; nq = np.linalg.norm(q)
        res = np.linalg.norm(Ad @ q - W[i] * (Bd @ q))
        assert res <= 1e-9 * (np.linalg.norm(Ad) + abs(W[i]) * np.linalg.norm(Bd)) * nq, ('A q = lambda B q', i, res)
        assert abs(q @ (Bd @ q) - 1) <= 1e-10 * (1 + np.linalg.norm(Bd) * nq ** 2), ('q^T B q = 1', i, q @ (Bd @ q))
        if real_sym:
            assert np.isrealobj(Q) and q.mean() >= -1e-14 * np.abs(q).max(), ('mean entry >= 0', i, q.mean())
    if default_order:
        assert lexi_sorted(W), ('ascending order', W)
    if want is not None:
        want = np.asarray(want); left = list(W)
        assert len(left) == len(want), (len(left), len(want))
        for d in want:
            j = int(np.argmin([abs(w - d) for w in left]))
            assert abs(left[j] - d) <= 1e-8 * max(1.0, np.abs(want).max()), ('eigenvalue set', d, left[j])
            left.pop(j)
'''
exec(VERIFY_SRC)   # the replay programs run exactly the verification code used here


class Lazy:
    def __init__(self, r):
        self.r = r

    def case(self, key=None):
        self.r.case(key)

    def check(self, cond, what, inputs, observed=None, expected=None, replay_code=None, finding=None):
        if cond:
            return True
        if callable(replay_code):
            replay_code = replay_code()
        return self.r.check(False, what, inputs, observed, expected, replay_code, finding)


def lazy(fn):
    def wrapped(r, tier, seed):
        return fn(Lazy(r), tier, seed)
    wrapped.__name__ = fn.__name__
    return wrapped


# ------------------------------------------------------------------------------------------------------------- generators
def spectrum(n, rng, kind='mixed'):
    """n distinct reals with gaps in [0.5, 1.5]; 'mixed' straddles zero (no value within 0.2 of zero), 'pos' starts at 0.7."""
    gaps = rng.uniform(0.5, 1.5, n)
    d = np.cumsum(gaps)
    if kind == 'mixed':
        d = d - d[n // 3] + 0.25
        d[np.abs(d) < 0.2] += 0.25
    else:
        d = d + 0.2
    return d


def well_conditioned(n, rng, cplx=False):
    R = rng.uniform(-1, 1, (n, n)) + (1j * rng.uniform(-1, 1, (n, n)) if cplx else 0)
    return np.eye(n) + 0.3 * R / max(1.0, np.sqrt(n))


def chol_factor(n, rng, cplx=False, kind='full'):
    if kind == 'diag':
        return np.diag(rng.uniform(0.7, 1.6, n))
    if kind == 'scaled_identity':
        return 2.0 * np.eye(n)
    L = 1.5 * np.eye(n) + 0.2 * np.tril(rng.uniform(-1, 1, (n, n)), -1)
    if cplx:
        L = L + 0.2j * np.tril(rng.uniform(-1, 1, (n, n)), -1)
    return L


PENCILS = ('rsym', 'rsym_gen', 'rsym_gen_diagB', 'rsym_gen_4I', 'herm', 'herm_gen', 'rgen', 'rgen_cpair', 'rgen_gen', 'cgen', 'cgen_gen', 'csym')


def pencil(kind, n, rng, spec='mixed'):
    """-> A, B (or None), prescribed eigenvalues d, hermitian?, real-symmetric problem?"""
    d = spectrum(n, rng, spec)
    if kind.startswith('rsym') or kind.startswith('herm'):
        cplx = kind.startswith('herm')
        U = orth(n, rng, cplx)
        if kind in ('rsym', 'herm'):
            A = U @ np.diag(d) @ U.conj().T
            B = None
        else:
            L = chol_factor(n, rng, cplx, 'diag' if kind.endswith('diagB') else 'scaled_identity' if kind.endswith('4I') else 'full')
            A = L @ U @ np.diag(d) @ U.conj().T @ L.conj().T
            B = L @ L.conj().T
            B = (B + B.conj().T) / 2
        A = (A + A.conj().T) / 2
        if cplx and n == 1:
            A = A.real.astype(complex)
        return A, B, d, True, not cplx
    cplx = kind.startswith('c')
    V = well_conditioned(n, rng, cplx)
    if kind == 'rgen_cpair':
        D = np.zeros((n, n))
        dd = []
        i = 0
        while i < n:
            if i + 1 < n and (i // 2) % 2 == 0:
                a, b = d[i], 0.5 + 0.25 * i
                D[i:i + 2, i:i + 2] = [[a, b], [-b, a]]
                dd += [a + 1j * b, a - 1j * b]
                i += 2
            else:
                D[i, i] = d[i]
                dd.append(d[i])
                i += 1
        d = np.array(dd, dtype=complex)
    elif cplx:
        d = d + 1j * rng.uniform(-2, 2, n)
        D = np.diag(d)
    else:
        D = np.diag(d)
    if kind == 'csym':
        Qc = orth(n, rng, False)              # complex symmetric, not Hermitian: real orthogonal vectors, complex eigenvalues
        A = Qc @ D @ Qc.T
        return (A + A.T) / 2, None, d, False, False
    A = V @ D @ np.linalg.inv(V)
    B = None
    if kind.endswith('_gen'):
        L = chol_factor(n, rng, cplx)
        B = L @ L.conj().T
        B = (B + B.conj().T) / 2
        A = B @ A
    return A, B, d, False, False


def closest(d, sigma, k):
    d = np.asarray(d)
    return d[np.argsort(np.abs(d - sigma), kind='stable')[:k]]


def run_eig(A, B=None, **kw):
    sigs = [pym.Signal('A', A)] + ([pym.Signal('B', B)] if B is not None else [])
    m = pym.EigenSolve(sigs, **kw)
    m.response()
    return m, m.sig_out[0].state, m.sig_out[1].state


def replay_src(A, B, kw_src, want, default_order, real_sym, k):
    return (HEAD + VERIFY_SRC + f"A={mat_lit(A)}\nB={'None' if B is None else mat_lit(B)}\n"
            f"m=pym.EigenSolve([pym.Signal('A',A)]+([pym.Signal('B',B)] if B is not None else []){', ' + kw_src if kw_src else ''})\nm.response()\nW,Q=[s.state for s in m.sig_out]\n"
            f"verify(A,B,W,Q,want={'None' if want is None else lit(np.asarray(want))},default_order={default_order},real_sym={real_sym},k={k})\n")


def check_pairs(r, what, key, A, B, W, Q, want, default_order, real_sym, k, replay, finding=None, tol_res=TOL_RES):
    """All clauses for one returned (W, Q); mirrors verify() with one recorded failure per clause."""
    Ad = dense_of(A)
    n = Ad.shape[0]
    Bd = np.eye(n) if B is None else dense_of(B)
    k = n if k is None else k
    if not r.check(isinstance(W, np.ndarray) and isinstance(Q, np.ndarray) and W.shape == (k,) and Q.shape == (n, k), f'{what}: number of eigenvalues / shape of the eigenvector matrix', key,
                   (getattr(W, 'shape', None), getattr(Q, 'shape', None)), ((k,), (n, k)), replay_code=replay, finding=finding):
        return False
    ok = True
    nA, nB = np.linalg.norm(Ad), np.linalg.norm(Bd)
    worst = (0.0, -1)
    worst_n = (0.0, -1)
    neg_mean = None
    for i in range(k):
        q = Q[:, i]
        nq = np.linalg.norm(q)
        res = np.linalg.norm(Ad @ q - W[i] * (Bd @ q)) / max((nA + abs(W[i]) * nB) * nq, 1e-300)
        if not np.isfinite(res) or res > worst[0]:
            worst = (res if np.isfinite(res) else np.inf, i)
        nv = abs(q @ (Bd @ q) - 1) / (1 + nB * nq ** 2)
        if not np.isfinite(nv) or nv > worst_n[0]:
            worst_n = (nv if np.isfinite(nv) else np.inf, i)
        if real_sym and not (np.isrealobj(Q) and q.mean() >= -1e-14 * np.abs(q).max()):
            neg_mean = (i, float(np.real(q.mean())))
    ok &= r.check(worst[0] <= tol_res, f'{what}: A q_i = lambda_i B q_i', key, dict(i=worst[1], rel_residual=worst[0]), tol_res, replay_code=replay, finding=finding)
    ok &= r.check(worst_n[0] <= 1e-10, f'{what}: q_i^T B q_i = 1 (bilinear form)', key, dict(i=worst_n[1], deviation=worst_n[0]), 1e-10, replay_code=replay, finding=finding)
    if real_sym:
        ok &= r.check(neg_mean is None, f'{what}: real eigenvectors with non-negative mean entry', key, neg_mean, replay_code=replay, finding=finding)
    if default_order:
        ok &= r.check(lexi_sorted(W), f'{what}: eigenvalues in ascending order (default sorting function)', key, W, replay_code=replay, finding=finding)
    if want is not None:
        left = list(W)
        bad = None
        scale = max(1.0, float(np.abs(want).max())) if len(want) else 1.0
        for d in want:
            j = int(np.argmin([abs(w - d) for w in left]))
            if not abs(left[j] - d) <= TOL_VAL * scale:
                bad = (complex(d) if np.iscomplexobj(d) else float(d), complex(left[j]) if np.iscomplexobj(left[j]) else float(left[j]))
                break
            left.pop(j)
        ok &= r.check(bad is None, f'{what}: the returned eigenvalues are the expected set ({"complete spectrum" if k == n else "the k closest to the shift"})', key, dict(missing_or_wrong=bad, W=W), np.asarray(want), replay_code=replay, finding=finding)
    return ok


def eig_case(r, what, key, A, B, kw_src, want, default_order, real_sym, k, hermitian=None, finding=None, fresh_dtype=True):
    A0, B0 = dense_of(A).copy(), None if B is None else dense_of(B).copy()
    r.case(key)

    def replay():
        return replay_src(A, B, kw_src, want, default_order, real_sym, k)
    try:
        m, W, Q = run_eig(A, B, **eval(f"dict({kw_src})", {'np': np}))
    except Exception as e:
        r.check(False, f'{what}: response() raised', key, f'{type(e).__name__}: {str(e)[:200]}', 'eigenpairs', replay_code=replay, finding=finding)
        return None
    check_pairs(r, what, key, A, B, W, Q, want, default_order, real_sym, k, replay, finding)
    if fresh_dtype and hermitian is not None and isinstance(W, np.ndarray) and isinstance(Q, np.ndarray):
        cplx = np.iscomplexobj(A0) or (B0 is not None and np.iscomplexobj(B0))
        r.check((W.dtype.kind == 'f') == hermitian, f'{what}: eigenvalues real for the Hermitian path, complex for the general path', key, str(W.dtype), replay_code=replay, finding=finding)
        if hermitian or cplx:
            r.check((Q.dtype.kind == 'c') == cplx, f'{what}: eigenvectors complex iff the pencil is complex', key, str(Q.dtype), replay_code=replay, finding=finding)
    r.check(same_values(A, A0) and (B is None or same_values(B, B0)), f'{what}: input matrices are not modified', key, replay_code=replay, finding=finding)
    return m


# ------------------------------------------------------------------------------------------------------------------- dense
@bound('dense EigenSolve, 12 pencil classes (real symmetric / Hermitian, standard and generalised with full, diagonal and 4I mass matrices; real general with real and with '
       'complex-pair spectrum; complex general; complex symmetric; generalised general) x n in {1,2,3,5,8,13} [quick] / {1..6,8,13,21,34} [thorough] x spectra {mixed sign, positive}; '
       'plus a repeated eigenvalue (multiplicity 2 and 3) for the symmetric classes; hermitian= flag None / true class / False on Hermitian input; ndarray C and F order')
@lazy
def dense_eigenpairs(r, tier, seed):
    ns = (1, 2, 3, 5, 8, 13) if tier == 'quick' else (1, 2, 3, 4, 5, 6, 8, 13, 21, 34)
    for n in ns:
        for ik, kind in enumerate(PENCILS):
            for spec in ('mixed', 'pos'):
                rng = np.random.default_rng(seed + 100 * n + ik + (50 if spec == 'pos' else 0))
                A, B, d, herm, rsym = pencil(kind, n, rng, spec)
                if n == 1 and np.imag(A[0, 0]) == 0:
                    herm = True      # a real 1x1 matrix is Hermitian whatever class it was drawn from
                for kw_src, path_h in (('', herm), (f'hermitian={herm}', herm)) + ((('hermitian=False', False),) if herm else ()):
                    if tier == 'quick' and kw_src and spec == 'pos':
                        continue
                    eig_case(r, f'EigenSolve dense [{kind}]', (kind, n, spec, kw_src), A, B, kw_src, d, True, rsym, None, hermitian=path_h)
                if spec == 'mixed':
                    eig_case(r, f'EigenSolve dense, F-ordered operands [{kind}]', (kind, n, 'F'), np.asfortranarray(A), None if B is None else np.asfortranarray(B), '', d, True, rsym, None, hermitian=herm)
    # repeated eigenvalues: the clauses do not depend on the choice of basis in the eigenspace
    for n, mult in ((3, 2), (4, 3), (7, 2), (7, 3)):
        for kind in ('rsym', 'rsym_gen', 'herm'):
            rng = np.random.default_rng(seed + 7000 + 10 * n + mult)
            d = spectrum(n, rng, 'pos')
            d[1:1 + mult] = d[1]
            cplx = kind == 'herm'
            U = orth(n, rng, cplx)
            if kind == 'rsym_gen':
                L = chol_factor(n, rng)
                A, B = L @ U @ np.diag(d) @ U.T @ L.T, L @ L.T
                B = (B + B.T) / 2
            else:
                A, B = U @ np.diag(d) @ U.conj().T, None
            A = (A + A.conj().T) / 2
            eig_case(r, f'EigenSolve dense, eigenvalue of multiplicity {mult} [{kind}]', (kind, n, mult), A, B, '', d, True, not cplx, None, hermitian=True)
    eig_case(r, 'EigenSolve dense, identity matrix', 'identity', np.eye(4), None, '', np.ones(4), True, True, None, hermitian=True)


SORTERS = [
    # (sorting function source, source of a key function on the RETURNED (W, Q) that must come out non-decreasing)
    ("sorting_func=lambda W, Q: np.argsort(-np.real(W))", "lambda W, Q: -np.real(W)"),
    ("sorting_func=lambda W, Q: np.argsort(np.abs(W))", "lambda W, Q: np.abs(W)"),
    ("sorting_func=lambda W, Q: np.argsort(np.abs(W - 1.3))", "lambda W, Q: np.abs(W - 1.3)"),
    ("sorting_func=lambda W, Q: np.argsort(-np.abs(Q[0, :]) / np.linalg.norm(Q, axis=0))", "lambda W, Q: -np.abs(Q[0, :]) / np.linalg.norm(Q, axis=0)"),
    ("sorting_func=lambda W, Q: np.argsort(np.imag(W) + 0.01 * np.real(W))", "lambda W, Q: np.imag(W) + 0.01 * np.real(W)"),
    ("sorting_func=lambda W, Q: np.argsort(W)[::-1]", "lambda W, Q: -np.real(W)"),
]


@bound('dense EigenSolve with 6 user sorting functions (descending, by modulus, by distance to 1.3, by a scale-invariant function of the eigenvector, by imaginary part, reversed '
       'argsort) x 7 pencil classes x n in {2,3,6,11} [quick] / {2,3,4,6,11,20} [thorough]: the returned pairs must be in the order the function defines (key recomputed on the output), '
       'pairs stay matched, complete spectrum')
@lazy
def dense_sorting(r, tier, seed):
    ns = (2, 3, 6, 11) if tier == 'quick' else (2, 3, 4, 6, 11, 20)
    for n in ns:
        for ik, kind in enumerate(('rsym', 'rsym_gen', 'herm_gen', 'rgen', 'rgen_cpair', 'cgen', 'cgen_gen')):
            rng = np.random.default_rng(seed + 100 * n + ik + 3)
            A, B, d, herm, rsym = pencil(kind, n, rng)
            for kw_src, key_src in SORTERS:
                key = (kind, n, kw_src)
                m = eig_case(r, f'EigenSolve dense, {kw_src} [{kind}]', key, A, B, kw_src, d, False, rsym, None)
                if m is None:
                    continue
                W, Q = [s.state for s in m.sig_out]
                kv = eval(key_src, {'np': np})(W, Q)
                r.check(np.all(np.diff(kv) >= -1e-9 * max(1.0, float(np.abs(kv).max()))), f'EigenSolve dense: pairs are ordered by the user sorting function ({kw_src})', key, kv, 'non-decreasing key',
                        replay_code=lambda kw_src=kw_src, key_src=key_src: replay_src(A, B, kw_src, d, False, rsym, None) + f"kv=({key_src})(W,Q)\nassert np.all(np.diff(kv)>=-1e-9*max(1.0,np.abs(kv).max())), kv\n")


# ------------------------------------------------------------------------------------------------------------------ sparse
def shifts(d):
    """Shifts that are not eigenvalues and have a unique k-closest set: between two eigenvalues (off-centre), below and above the spectrum."""
    d = np.sort(np.real(d))
    n = len(d)
    mid = n // 2
    return [('inside', float(d[mid] + 0.3 * (d[mid + 1] - d[mid]))), ('below', float(d[0] - 0.7)), ('above', float(d[-1] + 0.4))]


SP_CONT = {'csc': sps.csc_matrix, 'csr': sps.csr_matrix, 'csc_array': sps.csc_array, 'coo': sps.coo_matrix}


@bound('sparse EigenSolve (shift-invert), pencil classes {real symmetric, Hermitian, real general, complex general, complex symmetric} standard and generalised x n in {12, 25} [quick] / '
       '{9, 12, 25, 60} [thorough] x containers csc, csr (+ csc_array, coo for the symmetric class) x nmodes in {default(6), 1, 2, 5, n-2} x sigma in {default, 0.0, inside the spectrum, below, '
       'above (negative and positive values)}: residual, bilinear normalisation, ascending order, sign clause, and the returned eigenvalues are exactly the nmodes prescribed eigenvalues closest to sigma')
@lazy
def sparse_shift_invert(r, tier, seed):
    ns = (12, 25) if tier == 'quick' else (9, 12, 25, 60)
    kinds = ('rsym', 'rsym_gen', 'rsym_gen_diagB', 'herm', 'herm_gen', 'rgen', 'rgen_gen', 'cgen', 'cgen_gen', 'csym')
    for n in ns:
        for ik, kind in enumerate(kinds):
            for spec in ('mixed', 'pos'):
                rng = np.random.default_rng(seed + 100 * n + ik + (50 if spec == 'pos' else 0) + 9)
                A, B, d, herm, rsym = pencil(kind, n, rng, spec)
                conts = ('csc', 'csr') + (('csc_array', 'coo') if kind in ('rsym', 'rsym_gen') and spec == 'mixed' else ())
                sig_list = [('default', None), ('zero', 0.0)] + shifts(d)
                k_list = [None, 1, 2, 5, n - 2]
                for (sname, sg), k in itertools.product(sig_list, k_list):
                    if k is not None and k >= n - 1:
                        continue
                    if tier == 'quick' and spec == 'pos' and (k in (2, 5) or sname in ('below', 'default')):
                        continue
                    for cname in conts:
                        if tier == 'quick' and cname != 'csc' and ((k in (1, n - 2)) or sname == 'above'):
                            continue
                        kk = 6 if k is None else k
                        kw_src = ', '.join(([f'nmodes={k}'] if k is not None else []) + ([f'sigma={sg!r}'] if sg is not None else []))
                        want = closest(d, 0.0 if sg is None else sg, kk)
                        conv = SP_CONT[cname]
                        eig_case(r, f'EigenSolve sparse [{kind}, {cname}]', (kind, n, spec, cname, k, sname), conv(A), None if B is None else conv(B), kw_src, want, True, rsym, kk, hermitian=herm)


def fe_pencil(dims, rng, e_modulus=1.0, mass_bc=True):
    dom = pym.DomainDefinition(*dims, 0.5, 1.5, 2.0)
    nd = dom.dim
    face = dom.get_nodenumber(*np.meshgrid(0, np.arange(dims[1] + 1), np.arange(dims[2] + 1), indexing='ij')).flatten()
    bc = np.sort((face[:, None] * nd + np.arange(nd)[None, :]).flatten())
    x = 0.3 + 0.7 * rng.random(dom.nel)
    sx = pym.Signal('x', x)
    mK = pym.AssembleStiffness(sx, domain=dom, bc=bc, e_modulus=e_modulus)
    mM = pym.AssembleMass(sx, domain=dom, bc=bc, ndof=nd)
    mK.response()
    mM.response()
    return x, bc, mK.sig_out[0].state, mM.sig_out[0].state


FE_SRC = ("dom=pym.DomainDefinition(*dims,0.5,1.5,2.0); nd=dom.dim\n"
          "face=dom.get_nodenumber(*np.meshgrid(0,np.arange(dims[1]+1),np.arange(dims[2]+1),indexing='ij')).flatten()\n"
          "bc=np.sort((face[:,None]*nd+np.arange(nd)[None,:]).flatten())\nsx=pym.Signal('x',x)\n"
          "mK=pym.AssembleStiffness(sx,domain=dom,bc=bc,e_modulus=emod); mM=pym.AssembleMass(sx,domain=dom,bc=bc,ndof=nd); mK.response(); mM.response()\n"
          "K,M=mK.sig_out[0].state,mM.sig_out[0].state\nfree=np.setdiff1d(np.arange(K.shape[0]),bc)\n"
          "Kd,Md=(K.toarray()/emod).real,M.toarray()\nref=emod*spla.eigh(Kd[np.ix_(free,free)],Md[np.ix_(free,free)],eigvals_only=True)\n")


@bound('FE-generated sparse pencils with boundary conditions: stiffness/mass of 2D 3x4, 4x3 and 3D 2x2x2 meshes [quick] + 5x5, 3x2x2 [thorough] (random densities, one clamped face, element size '
       '0.5x1.5x2), real and complex (e_modulus = 1+1j) stiffness; generalised K q = lambda M q with nmodes in {default, 1, 4, 9} and sigma in {default, 0, between the 6th and 7th eigenvalue}; '
       'standard problem on K; reference: LAPACK eigh on the dense free-free pencil; clamped entries of the eigenvectors are zero')
@lazy
def fe_pencils(r, tier, seed):
    meshes = ((3, 4, 0), (4, 3, 0), (2, 2, 2)) + (((5, 5, 0), (3, 2, 2)) if tier != 'quick' else ())
    for dims in meshes:
        for emod in (1.0, 1.0 + 1.0j):
            rng = np.random.default_rng(seed + sum(dims) * 3 + 1)
            x, bc, K, M = fe_pencil(dims, rng, emod)
            n = K.shape[0]
            free = np.setdiff1d(np.arange(n), bc)
            Kr = (K.toarray() / emod).real
            Md = M.toarray()
            ref = emod * spla.eigh(Kr[np.ix_(free, free)], Md[np.ix_(free, free)], eigvals_only=True)
            herm = emod == 1.0
            for k, sg in itertools.product((None, 1, 4, 9), (None, 0.0, 'mid')):
                sgv = float(np.real(ref[5]) + 0.3 * np.real(ref[6] - ref[5])) if sg == 'mid' else sg
                kk = 6 if k is None else k
                kw_src = ', '.join(([f'nmodes={k}'] if k is not None else []) + ([f'sigma={sgv!r}'] if sgv is not None else []))
                want = closest(ref, 0.0 if sgv is None else sgv, kk)
                key = ('FE', dims, str(emod), k, sg)
                r.case(key)

                def replay(kw_src=kw_src, want=want, kk=kk):
                    return (HEAD + VERIFY_SRC + f"dims={dims!r}\nemod={emod!r}\nx={lit(x)}\n" + FE_SRC +
                            f"m=pym.EigenSolve([mK.sig_out[0],mM.sig_out[0]]{', ' + kw_src if kw_src else ''}); m.response(); W,Q=[s.state for s in m.sig_out]\n"
                            f"sg={0.0 if sgv is None else sgv!r}\nwant=ref[np.argsort(np.abs(ref-sg),kind='stable')[:{kk}]]\n"
                            f"verify(K,M,W,Q,want=want,default_order=True,real_sym={herm},k={kk})\nassert np.abs(Q[bc]).max()<=1e-9*np.abs(Q).max()\n")
                try:
                    m, W, Q = run_eig(K, M, **eval(f"dict({kw_src})"))
                except Exception as e:
                    r.check(False, 'EigenSolve FE pencil: response() raised', key, f'{type(e).__name__}: {str(e)[:200]}', replay_code=replay)
                    continue
                if check_pairs(r, 'EigenSolve FE pencil (K, M)', key, K, M, W, Q, want, True, herm, kk, replay, tol_res=1e-8):
                    r.check(np.abs(Q[bc]).max() <= 1e-9 * np.abs(Q).max(), 'EigenSolve FE pencil: eigenvectors vanish on the clamped dofs', key, float(np.abs(Q[bc]).max()), 0.0, replay_code=replay)
                r.check((W.dtype.kind == 'f') == herm, 'EigenSolve FE pencil: real eigenvalues for the symmetric pencil', key, str(W.dtype), replay_code=replay)
            # standard problem on the stiffness matrix alone (the clamped dofs appear as one repeated eigenvalue bcdiagval; only simple eigenvalues are requested)
            if herm:
                refK = np.linalg.eigvalsh(K.toarray())
                gaps = np.diff(refK)
                j = next(i for i in range(n // 2, n - 1) if gaps[i] > 1e-2)
                for k, sgv in ((None, None), (3, 0.0), (2, float(np.round(refK[j] + 0.37 * gaps[j], 4)))):
                    kk = 6 if k is None else k
                    want = closest(refK, 0.0 if sgv is None else sgv, kk + 1)
                    if any(np.sum(np.abs(refK - w) < 1e-6) > 1 for w in want):
                        continue
                    kw_src = ', '.join(([f'nmodes={k}'] if k is not None else []) + ([f'sigma={sgv!r}'] if sgv is not None else []))
                    eig_case(r, 'EigenSolve FE stiffness, standard problem', ('FE-K', dims, k, sgv), K, None, kw_src, want[:kk], True, True, kk, hermitian=True)


@bound('pencils whose two matrices belong to different classes: sparse diagonal A with a tridiagonal SPD B (n in {12, 20}; nmodes 3; sigma default, inside, below; csc/csr) and sparse diagonal A '
       'alone with a shift; dense symmetric A with a non-symmetric B whose symmetric part is positive definite (n in {3, 6}; general path required). Reference spectrum: LAPACK on the dense pencil')
@lazy
def mixed_class_pencils(r, tier, seed):
    for n in (12, 20):
        rng = np.random.default_rng(seed + n)
        da = spectrum(n, rng, 'mixed')
        rng.shuffle(da)
        A = np.diag(da)
        Bm = np.diag(2.0 + rng.uniform(0, 1, n))
        for i in range(n - 1):
            Bm[i, i + 1] = Bm[i + 1, i] = -rng.uniform(0.2, 0.9)
        ref = spla.eigh(A, Bm, eigvals_only=True)
        for sname, sg in [('default', None)] + shifts(ref)[:2]:
            if sg is not None:
                sg = float(np.round(sg, 4))
            for cname in ('csc', 'csr'):
                kw_src = 'nmodes=3' + (f', sigma={sg!r}' if sg is not None else '')
                conv = SP_CONT[cname]
                eig_case(r, 'EigenSolve sparse [diagonal A, tridiagonal SPD B]', ('diagA', n, sname, cname), conv(A), conv(Bm), kw_src, closest(ref, 0.0 if sg is None else sg, 3), True, True, 3, hermitian=True)
                eig_case(r, 'EigenSolve sparse [tridiagonal SPD A, diagonal B]', ('diagB', n, sname, cname), conv(Bm), conv(np.diag(np.abs(da))), kw_src,
                         closest(spla.eigh(Bm, np.diag(np.abs(da)), eigvals_only=True), 0.0 if sg is None else sg, 3), True, True, 3, hermitian=True)
        sg = float(np.round(shifts(da)[0][1], 4))
        eig_case(r, 'EigenSolve sparse [diagonal A, no B, shifted]', ('diagA-noB', n), sps.csc_matrix(A), None, f'nmodes=3, sigma={sg!r}', closest(da, sg, 3), True, True, 3, hermitian=True)
    for n in (3, 6):
        rng = np.random.default_rng(seed + n + 40)
        A, _, _, _, _ = pencil('rsym', n, rng)
        L = chol_factor(n, rng)
        K = rng.uniform(-1, 1, (n, n))
        Bn = L @ L.T + 0.4 * (K - K.T)        # x^T B x > 0 but B != B^T
        ref = np.linalg.eigvals(np.linalg.solve(Bn, A))
        eig_case(r, 'EigenSolve dense [symmetric A, non-symmetric positive definite B]', ('nonsymB', n), A, Bn, '', ref, True, False, None, hermitian=False)


# --------------------------------------------------------------------------------------------------------------- histories
def history(r, what, key0, steps, kw_src, conv_src, finding_from=None, finding=None):
    """steps: list of (name, A, B, want, real_sym, k); ONE EigenSolve object; the caller overwrites the returned arrays between calls."""
    conv = eval(conv_src, {'np': np, 'sps': sps})
    has_B = steps[0][2] is not None

    def replay(upto):
        return (HEAD + VERIFY_SRC + f"conv={conv_src}\nsteps=[{', '.join('(' + lit(A) + ', ' + ('None' if B is None else lit(B)) + ', ' + ('None' if w is None else lit(np.asarray(w))) + f', {rs}, {k})' for _, A, B, w, rs, k in steps[:upto + 1])}]\n"
                f"sA=pym.Signal('A'); sB=pym.Signal('B')\nm=pym.EigenSolve([sA{', sB' if has_B else ''}]{', ' + kw_src if kw_src else ''})\n"
                "for A,B,want,rs,k in steps:\n    sA.state=conv(A)\n    if B is not None: sB.state=conv(B)\n    m.response(); W,Q=[s.state for s in m.sig_out]\n"
                "    verify(A,B,W,Q,want=want,default_order=True,real_sym=rs,k=k)\n    W[...]=7.0; Q[...]=7.0\n")
    sA, sB = pym.Signal('A'), pym.Signal('B')
    try:
        m = pym.EigenSolve([sA, sB] if has_B else [sA], **eval(f"dict({kw_src})"))
    except Exception as e:
        r.check(False, f'{what}: construction raised', key0, str(e)[:200])
        return
    for i, (name, A, B, want, rs, k) in enumerate(steps):
        fid = finding if finding_from is not None and i >= finding_from else None
        key = key0 + (name,)
        r.case(key)
        sA.state = conv(A)
        if B is not None:
            sB.state = conv(B)
        A0 = A.copy()
        try:
            m.response()
            W, Q = [s.state for s in m.sig_out]
        except Exception as e:
            r.check(False, f'{what} [{name}]: response() raised', key, f'{type(e).__name__}: {str(e)[:200]}', replay_code=lambda i=i: replay(i), finding=fid)
            return
        check_pairs(r, f'{what} [{name}]', key, A, B, W, Q, want, True, rs, k, (lambda i=i: replay(i)), finding=fid)
        r.check(same_values(sA.state, A0), f'{what} [{name}]: input matrix not modified', key, finding=fid)
        W[...] = 7.0
        Q[...] = 7.0


@bound('call sequences on ONE EigenSolve object, the caller overwriting the returned arrays between calls: dense (n in {4,9}) and sparse (n = 14; nmodes=3; sigma default / 0.0 / inside the spectrum), '
       'classes real symmetric, Hermitian, real general, each standard and generalised: pencil 1; pencil 1 again; pencil 2 (other spectrum and vectors); only B changed; pencil 1 again; plus '
       'general -> symmetric class change (supported by the general path)')
@lazy
def histories(r, tier, seed):
    for sparse in (False, True):
        for n in ((4, 9) if not sparse else (14,)):
            for ik, kind in enumerate(('rsym', 'rsym_gen', 'herm_gen', 'rgen', 'rgen_gen')):
                rng = np.random.default_rng(seed + 31 * n + ik)
                P1, P2 = pencil(kind, n, rng), pencil(kind, n, rng, 'pos')
                variants = [('', None)] if not sparse else [('nmodes=3', 0.0), ('nmodes=3, sigma=0.0', 0.0), (None, 'inside')]
                for kw_src, sg in variants:
                    if sg == 'inside':
                        sg = shifts(np.concatenate([np.real(P1[2]), np.real(P2[2])]))[0][1]
                        sg = float(np.round(sg, 3)) + 0.0137
                        alld = np.concatenate([np.real(P1[2]), np.real(P2[2]), 2.0 * np.real(P2[2])])
                        while np.abs(alld - sg).min() < 0.05:
                            sg = float(np.round(sg + 0.11, 4))
                        kw_src = f'nmodes=3, sigma={sg!r}'
                    k = 3 if sparse else None

                    def want(d, scale=1.0):
                        return d * scale if not sparse else closest(d * scale, sg, 3)
                    A1, B1, d1, herm, rs = P1
                    A2, B2, d2 = P2[:3]
                    steps = [('pencil 1', A1, B1, want(d1), rs, k), ('pencil 1 again', A1, B1, want(d1), rs, k), ('pencil 2', A2, B2, want(d2), rs, k)]
                    if B1 is not None:
                        steps.append(('only B changed (B/2: eigenvalues double)', A2, B2 / 2.0, want(d2, 2.0), rs, k))
                    steps.append(('back to pencil 1', A1, B1, want(d1), rs, k))
                    for conv_src in (('np.array',) if not sparse else ('sps.csc_matrix', 'sps.csr_matrix')):
                        history(r, f'EigenSolve history ({"sparse, " + kw_src if sparse else "dense"}) [{kind}]', (kind, n, sparse, kw_src, conv_src), steps, kw_src, conv_src)
            # a class change the general path supports: non-symmetric first, symmetric afterwards
            rng = np.random.default_rng(seed + 31 * n + 17)
            G, _, dg, _, _ = pencil('rgen', n, rng)
            S, _, ds, _, _ = pencil('rsym', n, rng, 'pos')
            kw_src = '' if not sparse else 'nmodes=3'
            k = 3 if sparse else None
            wg, ws = (dg, ds) if not sparse else (closest(dg, 0.0, 3), closest(ds, 0.0, 3))
            history(r, 'EigenSolve history [general -> symmetric]', ('gen->sym', n, sparse), [('general', G, None, wg, False, k), ('symmetric', S, None, ws, False, k), ('general again', G, None, wg, False, k)],
                    kw_src, 'sps.csc_matrix' if sparse else 'np.array')


@bound('ONE EigenSolve object whose input stops being Hermitian between calls (symmetric -> general real, Hermitian -> general complex), dense n in {4,9} and sparse n = 14 (nmodes=3): the Hermitian '
       'flag is detected in the first call only', finding=FID_STALE)
@lazy
def stale_hermitian_flag(r, tier, seed):
    for sparse in (False, True):
        for n in ((4, 9) if not sparse else (14,)):
            for a, b in (('rsym', 'rgen'), ('herm', 'cgen')):
                rng = np.random.default_rng(seed + 31 * n + 5)
                S, _, ds, _, rs = pencil(a, n, rng)
                G, _, dg, _, _ = pencil(b, n, rng, 'pos')
                k = 3 if sparse else None
                ws, wg = (ds, dg) if not sparse else (closest(ds, 0.0, 3), closest(dg, 0.0, 3))
                history(r, f'EigenSolve history [{a} -> {b}]', (a, b, n, sparse), [(a, S, None, ws, rs, k), (b, G, None, wg, False, k)], 'nmodes=3' if sparse else '',
                        'sps.csc_matrix' if sparse else 'np.array', finding_from=1, finding=FID_STALE)


CHECKS = [('dense_eigenpairs', dense_eigenpairs), ('dense_sorting', dense_sorting), ('sparse_shift_invert', sparse_shift_invert), ('fe_pencils', fe_pencils), ('mixed_class_pencils', mixed_class_pencils),
          ('histories', histories), ('stale_hermitian_flag', stale_hermitian_flag)]
