"""C19 bounded stand-ins: finite_difference is run on fixture modules/networks with exactly known (dyadic) Jacobians - correct ones and
deliberately wrong ones - and everything it reports (test_fn callbacks, printed summary) and leaves behind (states, sensitivities) is compared with a
reference computed from the pure functions only (native/C19_lib.py, embedded verbatim in every replay program)."""
import itertools, os
import numpy as np
from native.util import bound, REPLAY_HEAD
from native import C19_lib as L

LIB = open(os.path.join(os.path.dirname(os.path.abspath(__file__)), 'C19_lib.py')).read()

# case id -> outputs are terminal (the random seed can be read off the output signal)
MODULE_CASES = ['lin_vec', 'quad_vec', 'two_io', 'two_io:x2_y2', 'two_io:x1_y1', 'two_io:x2x1_y2y1', 'two_io:x1_all', 'matrix', 'matrix:F', 'cplx_holo', 'cplx_nonholo',
                'real_to_cplx', 'sparse_out']
SCALAR_CASES = ['scal:float', 'scal:int', 'scal:np', 'scal:0d', 'scal:zero', 'scal:0d_zero', 'scal:neg', 'scal_cplx:py', 'scal_cplx:np', 'scal_cplx:0d', 'scal_cplx:py_npsens']
NETWORK_CASES = ['chain:a_d', 'chain:b_c', 'chain:b_d', 'chain:a_c', 'chain:a_cd', 'chain:c_d', 'chain:default', 'chain:c_b', 'chain:c_bd', 'chain:asl_dsl', 'chain:a_db',
                 'diamond:x_c', 'diamond:a_c', 'diamond:b_c', 'diamond:ab_c', 'pre_module:x_y', 'pre_module:xp_y', 'pre_module:p_y', 'chain_cplx:x_c', 'chain_cplx:b_c']
SLICE_CASES = ['slice:in', 'slice:out', 'slice:both', 'slice:fancy', 'slice:two', 'slice_cplx:in', 'slice_cplx:fancy', 'slice_cplx:out']
NO_RANDOM = {'chain:a_cd', 'chain:default', 'chain:a_db', 'chain:asl_dsl', 'chain:c_bd', 'slice:out', 'slice:both', 'slice:fancy', 'slice_cplx:out'}   # seeded output is sliced or also fed from downstream

# deliberately wrong sensitivities: case -> [(kind, module index, input index)]
WRONG = {
    'lin_vec': [('neg', 0, 0), ('roll', 0, 0), ('none', 0, 0)], 'quad_vec': [('scale', 0, 0), ('roll', 0, 0)],
    'two_io': [('neg', 0, 1), ('scale', 0, 0), ('none', 0, 1)], 'two_io:x2_y2': [('neg', 0, 1)], 'two_io:x1_y1': [('roll', 0, 0)], 'matrix': [('scale', 0, 0), ('roll', 0, 0)], 'matrix:F': [('roll', 0, 0)],
    'cplx_holo': [('conj', 0, 0), ('roll', 0, 0), ('neg', 0, 0)], 'cplx_nonholo': [('conj', 0, 0), ('roll', 0, 0)], 'real_to_cplx': [('neg', 0, 0)], 'sparse_out': [('roll', 0, 0), ('neg', 0, 0)],
    'scal:float': [('neg', 0, 0), ('scale', 0, 0)], 'scal:0d': [('scale', 0, 0)], 'scal_cplx:np': [('conj', 0, 0)], 'scal_cplx:0d': [('conj', 0, 0), ('neg', 0, 0)],
    'chain:a_d': [('roll', 1, 0), ('neg', 0, 0), ('scale', 2, 0)], 'chain:b_c': [('neg', 1, 0)], 'chain:a_cd': [('neg', 2, 0), ('roll', 0, 0)], 'chain:default': [('scale', 1, 0)],
    'diamond:x_c': [('neg', 1, 0), ('scale', 2, 1), ('none', 0, 0)], 'diamond:a_c': [('neg', 2, 0)], 'pre_module:x_y': [('neg', 1, 0)], 'pre_module:xp_y': [('scale', 0, 0), ('neg', 1, 1)],
    'chain_cplx:x_c': [('conj', 1, 0), ('neg', 0, 0)], 'slice:in': [('neg', 0, 0), ('roll', 0, 0)], 'slice:both': [('roll', 0, 0)], 'slice:fancy': [('neg', 0, 0)], 'slice_cplx:in': [('conj', 0, 0)],
}


def region(case_id, keep_zero):
    """known defective regions of the unchanged tree"""
    if case_id == 'scal:zero' and keep_zero:
        return 'C19-scalar-zero-perturbed'
    if case_id == 'scal_cplx:py':
        return 'C19-python-complex-scalar'
    if case_id == 'slice_cplx:fancy':
        return 'C19-complex-intarray-slice'
    if case_id in ('chain:c_b', 'chain:c_bd'):
        return 'C19-upstream-output-sens-left'
    return None


def once(r, cond, what, inputs, observed=None, expected=None, replay_code=None, finding=None):
    """r.check; a known finding is recorded once per check function so that the 5 retained failures of a check stay available for anything else"""
    if not cond and finding is not None:
        seen = r.__dict__.setdefault('_known_seen', set())
        if finding in seen:
            return cond
        seen.add(finding)
    return r.check(cond, what, inputs, observed, expected, replay_code, finding)


WHAT = {'raise': 'finite_difference completes', 'count': 'one (analytical, numerical) pair per perturbed entry (non-zero entries by default), direction and output',
        'analytical': 'analytical value = backpropagated sensitivity of the module for the seed used (real part; imaginary part in the imaginary pass)',
        'numerical': 'numerical value = sum((F(x + h e) - F(x))/h * seed) with h = dx (or dx*|x0|), real/imaginary part',
        'entry': 'every entry is reported once with its original value x0 and dx', 'order': 'numerical value equals the true directional derivative up to O(dx)',
        'match': 'correct module -> matching pairs, wrong module -> non-matching pairs at exactly the wrong entries', 'report': 'printed summary counts tested / failed pairs per input',
        'restore': 'every input state is restored exactly', 'sens-left': 'no sensitivity is left set after the call', 'use_df': 'use_df is not modified', 'seed': 'random seed: uniform sample with the shape/type of the output',
        'fixture': 'fixture self-check'}


def run(r, case_id, finding_keepzero=True, **kw):
    args = ', '.join(f'{k}={v!r}' for k, v in kw.items())
    code = REPLAY_HEAD + LIB + f"\nprobs = run_case({case_id!r}, {args})\nfor p in probs:\n    print(p)\nassert not probs, probs\n"
    r.case((case_id, tuple(sorted(kw.items()))))
    probs = L.run_case(case_id, **kw)
    what = WHAT.get(probs[0][0], probs[0][0]) if probs else ''
    once(r, not probs, what, dict(case=case_id, **kw), probs[:3], [], replay_code=code, finding=region(case_id, kw.get('keep_zero', True)))
    return probs


def options(tier, k, allow_random, light=False):
    """dx x relative_dx x seed mode x keep_zero_structure in full; verbose, stale sensitivities, repeated call, bare signal argument, earlier response rotate"""
    modes = ['use_df', 'ones'] + (['random'] if allow_random else [])
    dxs = (10, 20) if tier == 'quick' else (6, 10, 20, 26)
    j = k
    for dx_exp, rel, mode, kz in itertools.product(dxs, (False, True), modes, (True, False)):
        j += 1
        if light and tier == 'quick' and ((dx_exp == 10 and j % 3 != 0) or (not kz and j % 2 != 0)):   # networks (expensive to build): thinned grid in the quick tier
            continue
        for jj in ((j,) if tier == 'quick' else (j, j + 1, j + 3)):   # thorough: three different rotations of the secondary flags per grid point
            yield dict(dx_exp=dx_exp, relative=rel, seedmode=mode, keep_zero=kz, verbose=jj % 2 == 0, pollute=jj % 3 == 0, ncalls=2 if jj % 4 == 0 else 1, bare=jj % 5 == 0, preresponse=jj % 7 == 0, rngseed=jj, reuse_out=jj % 2 == 1, keep_alloc=jj % 6 == 0)


@bound('single fixture modules with exact dyadic Jacobians: linear and quadratic (with mixed second derivatives) vector maps, 2 inputs (vector + Python float) x 2 outputs (vector + Python float) with '
       '5 fromsig/tosig choices, 2x3 matrix input (C and Fortran order), complex holomorphic, complex non-holomorphic (|x|^2, c*conj(x)), real -> complex, sparse-matrix output; zero entries present; '
       'dx = 2^-10, 2^-20 [thorough: 2^-6..2^-26] x relative_dx x seeds {use_df, ones, random} x keep_zero_structure; verbose, stale sensitivities before the call, a second call on the same objects, '
       'bare signal argument, an earlier response(), modules that overwrite their output arrays in place and input signals with keep_alloc rotate')
def modules_correct(r, tier, seed):
    for k, cid in enumerate(MODULE_CASES):
        for kw in options(tier, k + seed, cid not in NO_RANDOM):
            run(r, cid, **kw)


@bound('scalar input signals: Python float, Python int, numpy float64, 0-d array, negative, exactly zero (Python float and 0-d array), Python complex, numpy complex128, complex 0-d array; same option grid')
def scalars(r, tier, seed):
    for k, cid in enumerate(SCALAR_CASES):
        for kw in options(tier, k + seed + 3, True):
            run(r, cid, **kw)


@bound('networks: 3-module chain with 11 fromsig/tosig choices (source, intermediate, several outputs, default, sliced, output upstream of the input), diamond (two consumers of the input), '
       'module in front of the first consumer (its state must be computed first), complex chain; same option grid (random seeds only where the seeded signals are terminal; quick tier: dx = 2^-10 only in every third and keep_zero_structure=False in every second configuration)')
def networks(r, tier, seed):
    for k, cid in enumerate(NETWORK_CASES):
        for kw in options(tier, k + seed + 1, cid not in NO_RANDOM, light=True):
            run(r, cid, **kw)


@bound('SignalSlice arguments: fromsig x[1:3], tosig y[0:2], both (stepped slice), integer-array slices x[[3,0]] / y[[2,0,1]], two disjoint slices of one signal; complex signal with x[1:4], x[[3,0]], y[0:2]; same option grid')
def slices(r, tier, seed):
    for k, cid in enumerate(SLICE_CASES):
        for kw in options(tier, k + seed + 2, cid not in NO_RANDOM):
            run(r, cid, **kw)


@bound('the same fixtures with a deliberately wrong sensitivity in one module (sign, one entry scaled by 1.25, entries rolled by one index, complex conjugate, no sensitivity returned): '
       '48 (case, defect) pairs x relative_dx x seeds {use_df, ones} x verbose, dx = 2^-20; the non-matching pairs must be exactly the entries where the wrong and the true sensitivity differ')
def modules_wrong(r, tier, seed):
    k = seed
    for cid, lst in WRONG.items():
        for wrong in lst:
            for rel, mode in itertools.product((False, True), ('use_df', 'ones')):
                k += 1
                run(r, cid, wrong=wrong, dx_exp=20, relative=rel, seedmode=mode, keep_zero=(k % 3 != 0), verbose=k % 2 == 0, pollute=k % 5 == 0)


INEXACT_CASES = ['lin_vec', 'quad_vec', 'two_io', 'matrix', 'matrix:F', 'cplx_holo', 'cplx_nonholo', 'sparse_out', 'scal:float', 'scal:0d', 'scal_cplx:0d', 'chain:a_d', 'chain:b_d', 'diamond:x_c',
                 'pre_module:xp_y', 'chain_cplx:x_c', 'slice:in', 'slice:fancy', 'slice:two']


@bound('19 of the fixtures with data 1.1 * (dyadic values) and dx = 1.1 * 2^-k, k in {1, 20} [thorough: 0, 1, 2, 10, 20, 26, 30] (the large steps cross a binade, so x + h - h != x in floating point) x relative_dx x seeds {use_df, random}: '
       'states must be restored bit for bit; reported numbers compared with tolerance 1e-5 (round-off of the difference quotient)')
def restore_inexact(r, tier, seed):
    k = seed
    for cid in INEXACT_CASES:
        for dx_exp, rel, mode in itertools.product((1, 20) if tier == 'quick' else (0, 1, 2, 10, 20, 26, 30), (False, True), ('use_df', 'random')):
            if mode == 'random' and cid in NO_RANDOM:
                continue
            k += 1
            run(r, cid, dx_exp=dx_exp, relative=rel, seedmode=mode, inexact=True, keep_zero=k % 2 == 0, verbose=False, rngseed=k, reuse_out=k % 3 == 0)


@bound('input signal holding a scipy.sparse matrix (2x2, 3 stored entries), y = S v, dx = 2^-20, keep_zero_structure in {True, False}', finding='C19-sparse-input')
def sparse_input(r, tier, seed):
    for kz in (True, False):
        r.case(kz)
        probs = L.run_sparse_input(20, kz)
        once(r, not probs, 'sparse-matrix input: every stored entry is perturbed and reported', dict(keep_zero_structure=kz), probs[:2], [],
             replay_code=REPLAY_HEAD + LIB + f"\nprobs = run_sparse_input(20, {kz})\nprint(probs)\nassert not probs, probs\n", finding='C19-sparse-input')


CHECKS = [('restore_inexact', restore_inexact), ('modules_correct', modules_correct), ('scalars', scalars), ('networks', networks), ('slices', slices), ('modules_wrong', modules_wrong), ('sparse_input', sparse_input)]
