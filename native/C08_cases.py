"""C08 case functions: each takes plain parameters, runs the real pymoto modules and returns a list of failed clauses
[(what, observed, expected), ...].  The source of this file (and of C08_ref.py) is inlined into replay programs."""
import numpy as np
import scipy.sparse as sp
import pymoto as pym
try:
    from native.C08_ref import *          # noqa: F401,F403  (in a replay program the reference source is inlined above)
except ImportError:
    pass

RT = 1e-12   # relative tolerance: all data are O(1)-scaled sums of < 200 products, errors are a few ulp of the largest entry


def dense(A):
    if sp.issparse(A):
        return A.toarray()
    return np.asarray(A)


def close(a, b, rt=RT, scale=None):
    a, b = np.asarray(a), np.asarray(b)
    if a.shape != b.shape:
        return False
    if not (np.all(np.isfinite(a)) and np.all(np.isfinite(b))):
        return False
    s = scale if scale is not None else max(float(np.abs(b).max()) if b.size else 0.0, 1e-300)
    return bool(np.abs(a - b).max() <= rt * s) if a.size else True


def custom_dense_type(arg, shape=None):
    vals, (rows, cols) = arg
    assert len(vals) == len(rows) == len(cols)
    D = np.zeros(shape, dtype=np.result_type(np.asarray(vals).dtype, float))   # float at least: a dense constant is added in place
    np.add.at(D, (np.asarray(rows), np.asarray(cols)), vals)
    return D


MTYPES = dict(csc=sp.csc_matrix, csr=sp.csr_matrix, coo=sp.coo_matrix, csc_array=sp.csc_array, csr_array=sp.csr_array, custom=custom_dense_type)


def make_x(kind, nel, rng):
    if kind == 'pos':
        return 0.1 + rng.random(nel)
    if kind == 'ones':
        return np.ones(nel)
    if kind == 'zeros':      # non-negative with exact zeros
        x = rng.random(nel)
        x[rng.random(nel) < 0.4] = 0.0
        x[0] = 0.0
        return x
    if kind == 'neg':        # mixed signs
        return rng.standard_normal(nel)
    if kind == 'int':
        return rng.integers(0, 4, nel)
    if kind == 'complex':
        return rng.standard_normal(nel) + 1j * rng.standard_normal(nel)
    raise ValueError(kind)


def make_bc(kind, n, rng):
    if kind is None:
        return None
    if kind == 'empty':
        return np.array([], dtype=int)
    if kind == 'first':
        return np.array([0])
    if kind == 'last':
        return np.array([n - 1])
    if kind == 'rand':
        return rng.choice(n, size=max(1, n // 3), replace=False)
    if kind == 'all':
        return rng.permutation(n)
    if kind == 'list':
        return [int(v) for v in rng.choice(n, size=max(1, n // 4), replace=False)]
    if kind == 'int32':
        return np.sort(rng.choice(n, size=max(1, n // 2), replace=False)).astype(np.int32)[::-1].copy()
    raise ValueError(kind)


def make_const(kind, n, rng, cplx=False):
    if kind is None:
        return None
    if kind == 'diag':
        return sp.diags(1.0 + rng.random(n), format='csc')
    if kind == 'sparse':
        C = sp.random(n, n, density=min(1.0, 6.0 / n), random_state=np.random.RandomState(int(rng.integers(1 << 30))), format='csr')
        C = C + sp.eye(n, k=1, format='csr') * 0.5
        return (C * (1 + 0.5j)).tocsr() if cplx else C
    if kind == 'dense':
        return rng.standard_normal((n, n))
    raise ValueError(kind)


def case_general(nx, ny, nz, h, ndof, elkind, xkind, bckind, bcdiag, constkind, mtype, seed):
    """AssembleGeneral with an arbitrary (non-symmetric) element matrix against the dense scatter sum"""
    rng = np.random.default_rng(seed)
    d = pym.DomainDefinition(nx, ny, nz, *h)
    g = Grid(nx, ny, nz, h)
    m_el = g.en * ndof
    if elkind == 'real':
        el = rng.standard_normal((m_el, m_el))
    elif elkind == 'int':
        el = rng.integers(-3, 4, (m_el, m_el))
    else:
        el = rng.standard_normal((m_el, m_el)) + 1j * rng.standard_normal((m_el, m_el))
    x = make_x(xkind, g.nel, rng)
    n = ndof * g.nnodes
    bc = make_bc(bckind, n, rng)
    const = make_const(constkind, n, rng, cplx=(elkind == 'complex'))
    el0, x0 = el.copy(), x.copy()
    bc0 = None if bc is None else list(np.asarray(bc).tolist())
    c0 = None if const is None else dense(const).copy()
    es0, conn0 = d.element_size.copy(), d.conn.copy()
    kw = {}
    if bc is not None:
        kw['bc'] = bc
    if bcdiag is not None:
        kw['bcdiagval'] = bcdiag
    if const is not None:
        kw['add_constant'] = const
    if mtype != 'default':
        kw['matrix_type'] = MTYPES[mtype]
    s = pym.Signal('x', x)
    m = pym.AssembleGeneral(s, domain=d, element_matrix=el, **kw)
    m.response()
    A = m.sig_out[0].state
    diagv = bcdiag if bcdiag is not None else np.max(el0)
    ref = assemble(g, el0, x0, ndof, bc0, diagv, c0)
    bad = []
    Ad = dense(A)
    if Ad.shape != (n, n):
        bad.append(('matrix shape is (ndof*nnodes)^2', Ad.shape, (n, n)))
        return bad
    if not close(Ad, ref):
        k = np.unravel_index(np.argmax(np.abs(Ad - ref)), ref.shape)
        bad.append(('A = sum_e x_e A_e scattered (+constant), constrained rows/columns zeroed, chosen value on their diagonal',
                    dict(entry=[int(k[0]), int(k[1])], got=complex(Ad[k]) if np.iscomplexobj(Ad) else float(Ad[k])),
                    complex(ref[k]) if np.iscomplexobj(ref) else float(ref[k])))
    if bc0:
        off = Ad.copy()
        off[bc0, bc0] = 0
        if np.abs(off[bc0, :]).max() != 0 and constkind is None:
            bad.append(('constrained rows are exactly zero off the diagonal', float(np.abs(off[bc0, :]).max()), 0.0))
        if np.abs(off[:, bc0]).max() != 0 and constkind is None:
            bad.append(('constrained columns are exactly zero off the diagonal', float(np.abs(off[:, bc0]).max()), 0.0))
    if mtype in ('default', 'csc', 'csr', 'csc_array', 'csr_array') and constkind is None:
        want_t = sp.csc_matrix if mtype == 'default' else MTYPES[mtype]
        if not isinstance(A, want_t):
            bad.append(('output has the requested matrix_type', type(A).__name__, want_t.__name__))
    # operands untouched
    if not (np.array_equal(el, el0) and el.dtype == el0.dtype):
        bad.append(('element matrix argument not modified', None, None))
    if not (np.array_equal(x, x0) and s.state is x):
        bad.append(('input state x not modified', x, x0))
    if bc0 is not None and list(np.asarray(bc).tolist()) != bc0:
        bad.append(('bc argument not modified', bc, bc0))
    if c0 is not None and not np.array_equal(dense(const), c0):
        bad.append(('add_constant argument not modified by response()', None, None))
    if not (np.array_equal(d.element_size, es0) and np.array_equal(d.conn, conn0)):
        bad.append(('domain not modified', None, None))
    # second call after the caller has scribbled on the first result: same matrix again (no accumulation of the constant, nothing aliased)
    try:
        if sp.issparse(A) and hasattr(A, 'data'):
            A.data[:] = 7.0
        else:
            Ad2 = np.asarray(A)
            Ad2[...] = 7.0
    except Exception:
        pass
    m.response()
    A2 = dense(m.sig_out[0].state)
    if not close(A2, ref):
        bad.append(('second response() on the same module gives the same matrix (caller overwrote the first result)', float(np.abs(A2 - ref).max()), 0.0))
    if c0 is not None and not np.array_equal(dense(const), c0):
        bad.append(('add_constant argument not modified by two responses', None, None))
    return bad


def _bc_for(kind, g, ndof, rng):
    return make_bc(kind, ndof * g.nnodes, rng)


def _given(**kw):
    return {k: v for k, v in kw.items() if v is not None}


def _mt(mtype):
    return {} if mtype == 'default' else dict(matrix_type=MTYPES[mtype])


def _type_ok(A, mtype):
    want = sp.csc_matrix if mtype == 'default' else MTYPES[mtype]
    return mtype == 'custom' or isinstance(A, want)


def case_stiffness(nx, ny, nz, h, E, nu, plane, xkind, bckind, bcdiag, positional, mtype, seed):
    rng = np.random.default_rng(seed)
    d = pym.DomainDefinition(nx, ny, nz, *h)
    g = Grid(nx, ny, nz, h)
    dim = g.dim
    mat = _given(e_modulus=E, poisson_ratio=nu, plane=plane)       # None = argument omitted: documented defaults E=1, nu=0.3, plane strain
    E, nu, plane = (1.0 if E is None else E), (0.3 if nu is None else nu), ('strain' if plane is None else plane)
    mode = '3d' if dim == 3 else plane.lower()
    x = make_x(xkind, g.nel, rng)
    n = dim * g.nnodes
    bc = _bc_for(bckind, g, dim, rng)
    es0 = d.element_size.copy()
    s = pym.Signal('x', x.copy())
    if positional:
        args = [d] + ([bc] if bc is not None else []) + ([bcdiag] if (bc is not None and bcdiag is not None) else [])
        m = pym.AssembleStiffness(s, pym.Signal('K'), *args, **mat, **_mt(mtype))
    else:
        kw = _mt(mtype)
        if bc is not None:
            kw['bc'] = bc
        if bcdiag is not None:
            kw['bcdiagval'] = bcdiag
        m = pym.AssembleStiffness(s, domain=d, **mat, **kw)
    m.response()
    K = dense(m.sig_out[0].state)
    tok = _type_ok(m.sig_out[0].state, mtype)
    Ke = ke_stiffness(g.h, dim, E, nu, mode)
    diagv = bcdiag if (bcdiag is not None and bc is not None) else float(np.max(Ke))
    bcl = None if bc is None else list(np.asarray(bc).tolist())
    ref = assemble(g, Ke, x, dim, bcl, diagv)
    bad = []
    sc = max(float(np.abs(ref).max()), float(np.abs(Ke).max()) * 1e-3)
    if K.shape != ref.shape or not close(K, ref, scale=sc):
        bad.append(('stiffness matrix = scatter of x_e * (exact integral of B^T D B over the box element) with bc', None if K.shape != ref.shape else float(np.abs(K - ref).max()), sc))
        if K.shape != ref.shape:
            return bad
    if not tok:
        bad.append(('output has the requested matrix_type', type(m.sig_out[0].state).__name__, mtype))
    if not close(K, K.T, rt=1e-13, scale=sc):
        bad.append(('stiffness matrix symmetric', float(np.abs(K - K.T).max()), 0.0))
    if not np.array_equal(d.element_size, es0):
        bad.append(('domain.element_size not modified by the module', d.element_size, es0))
    nonneg = bool(np.all(x >= 0))
    if nonneg and (bc is None or diagv >= 0):
        w = np.linalg.eigvalsh(0.5 * (K + K.T))
        if not w.min() >= -1e-10 * max(w.max(), 1e-300):
            bad.append(('stiffness matrix positive semi-definite for x >= 0', float(w.min()), '>= 0'))
    if bc is None:
        kmax = float(np.abs(Ke).max()) * max(float(np.abs(x).max()), 1e-300)
        for k, r_ in enumerate(rigid_modes(g)):
            res = np.abs(K @ r_).max()
            if not res <= 1e-11 * kmax * max(np.abs(r_).max(), 1.0) * 8:
                bad.append((f'K annihilates rigid-body motion #{k}', float(res), 0.0))
        # energy of an affine field: u^T K u = sum_e x_e V_e eps^T D eps  (D from the inverse compliance)
        Gm = rng.standard_normal((dim, dim))
        a = rng.standard_normal(dim)
        u = g.affine(a, Gm)
        eps = voigt_strain(Gm, dim)
        D = d_matrix(E, nu, mode)
        want = float(x.sum()) * g.vol * float(eps @ D @ eps)
        got = float(u @ K @ u)
        esc = float(np.abs(x).sum()) * g.vol * float(np.abs(eps) @ np.abs(D) @ np.abs(eps)) * (1 + float(np.abs(u).max()) ** 2)
        if not abs(got - want) <= 1e-10 * max(esc, 1e-300):
            bad.append(('u^T K u of an affine field = sum_e x_e V_e eps:D:eps', got, want))
    return bad


def case_mass(nx, ny, nz, h, rho, ndof, xkind, bckind, bcdiag, positional, mtype, seed):
    rng = np.random.default_rng(seed)
    d = pym.DomainDefinition(nx, ny, nz, *h)
    g = Grid(nx, ny, nz, h)
    x = make_x(xkind, g.nel, rng)
    mat = _given(material_property=rho, ndof=ndof)                 # None = argument omitted: documented defaults 1.0 and one dof per node
    rho, ndof = (1.0 if rho is None else rho), (1 if ndof is None else ndof)
    bc = _bc_for(bckind, g, ndof, rng)
    es0 = d.element_size.copy()
    s = pym.Signal('x', x.copy())
    kw = _mt(mtype)
    if bcdiag is not None:
        kw['bcdiagval'] = bcdiag
    if positional and bc is not None:
        m = pym.AssembleMass(s, pym.Signal('M'), d, bc, **mat, **kw)
    else:
        if bc is not None:
            kw['bc'] = bc
        m = pym.AssembleMass(s, domain=d, **mat, **kw)
    m.response()
    M = dense(m.sig_out[0].state)
    Me = me_mass(g.h, g.dim, rho, ndof)
    diagv = bcdiag if bcdiag is not None else 0.0
    bcl = None if bc is None else list(np.asarray(bc).tolist())
    ref = assemble(g, Me, x, ndof, bcl, diagv)
    bad = []
    sc = max(float(np.abs(ref).max()), float(np.abs(Me).max()) * 1e-3)
    if M.shape != ref.shape or not close(M, ref, scale=sc):
        bad.append(('mass matrix = scatter of x_e * rho * (exact integral of N^T N) with bc (default bc diagonal 0)', None if M.shape != ref.shape else float(np.abs(M - ref).max()), sc))
        if M.shape != ref.shape:
            return bad
    if not np.array_equal(d.element_size, es0):
        bad.append(('domain.element_size not modified by the module', d.element_size, es0))
    if bc is None:
        for a in range(ndof):
            ea = np.zeros(ndof * g.nnodes); ea[a::ndof] = 1.0
            for b in range(ndof):
                eb = np.zeros(ndof * g.nnodes); eb[b::ndof] = 1.0
                got = float(ea @ M @ eb)
                want = rho * g.vol * float(x.sum()) if a == b else 0.0
                if not abs(got - want) <= 1e-11 * max(abs(rho) * g.vol * float(np.abs(x).sum()), 1e-300):
                    bad.append((f'total mass 1_{a}^T M 1_{b} = rho*V*sum(x) per direction (0 across directions)', got, want))
    return bad


def case_poisson(nx, ny, nz, h, kappa, xkind, bckind, bcdiag, positional, mtype, seed):
    rng = np.random.default_rng(seed)
    d = pym.DomainDefinition(nx, ny, nz, *h)
    g = Grid(nx, ny, nz, h)
    x = make_x(xkind, g.nel, rng)
    bc = _bc_for(bckind, g, 1, rng)
    es0 = d.element_size.copy()
    s = pym.Signal('x', x.copy())
    kw = _mt(mtype)
    if bcdiag is not None:
        kw['bcdiagval'] = bcdiag
    mat = _given(material_property=kappa)                          # None = argument omitted: documented default 1.0
    kappa = 1.0 if kappa is None else kappa
    if positional and bc is not None:
        m = pym.AssemblePoisson(s, pym.Signal('P'), d, bc, **mat, **kw)
    else:
        if bc is not None:
            kw['bc'] = bc
        m = pym.AssemblePoisson(s, domain=d, **mat, **kw)
    m.response()
    P = dense(m.sig_out[0].state)
    Pe = pe_poisson(g.h, g.dim, kappa)
    diagv = bcdiag if bcdiag is not None else float(np.max(Pe))
    bcl = None if bc is None else list(np.asarray(bc).tolist())
    ref = assemble(g, Pe, x, 1, bcl, diagv)
    bad = []
    sc = max(float(np.abs(ref).max()), float(np.abs(Pe).max()) * 1e-3)
    if P.shape != ref.shape or not close(P, ref, scale=sc):
        bad.append(('Poisson matrix = scatter of x_e * k * (exact integral of grad N . grad N) with bc', None if P.shape != ref.shape else float(np.abs(P - ref).max()), sc))
        if P.shape != ref.shape:
            return bad
    if not np.array_equal(d.element_size, es0):
        bad.append(('domain.element_size not modified by the module', d.element_size, es0))
    if bc is None:
        pmax = float(np.abs(Pe).max()) * max(float(np.abs(x).max()), 1e-300)
        res = float(np.abs(P @ np.ones(g.nnodes)).max())
        if not res <= 1e-11 * pmax * 8:
            bad.append(('Poisson matrix annihilates constants', res, 0.0))
        gr = rng.standard_normal(g.dim)
        c0 = float(rng.standard_normal())
        u = c0 + g.pos @ gr
        got = float(u @ P @ u)
        want = kappa * g.vol * float(gr @ gr) * float(x.sum())
        esc = abs(kappa) * g.vol * float(gr @ gr) * float(np.abs(x).sum()) * (1 + float(np.abs(u).max()) ** 2)
        if not abs(got - want) <= 1e-10 * max(esc, 1e-300):
            bad.append(('energy of a linear field u^T P u = k * V * |g|^2 * sum(x)', got, want))
    return bad


def case_history(kind, nx, ny, nz, h, ndof, bckind, constkind, seed):
    """one module object, a sequence of response() calls with changed / repeated / in-place-modified inputs and reset() in between"""
    rng = np.random.default_rng(seed)
    d = pym.DomainDefinition(nx, ny, nz, *h)
    g = Grid(nx, ny, nz, h)
    dim = g.dim
    if kind == 'general':
        el = rng.standard_normal((g.en * ndof, g.en * ndof))
        nd = ndof
    elif kind == 'stiffness':
        el = ke_stiffness(g.h, dim, 2.0, 0.3, '3d' if dim == 3 else 'stress')
        nd = dim
    elif kind == 'mass':
        el = me_mass(g.h, dim, 1.5, ndof)
        nd = ndof
    else:
        el = pe_poisson(g.h, dim, 0.7)
        nd = 1
    n = nd * g.nnodes
    bc = make_bc(bckind, n, rng)
    const = make_const(constkind, n, rng)
    c0 = None if const is None else dense(const).copy()
    kw = {}
    if bc is not None:
        kw['bc'] = bc
    if const is not None:
        kw['add_constant'] = const
    s = pym.Signal('x', np.ones(g.nel))
    if kind == 'general':
        m = pym.AssembleGeneral(s, domain=d, element_matrix=el.copy(), bcdiagval=1.0, **kw)
    elif kind == 'stiffness':
        m = pym.AssembleStiffness(s, domain=d, e_modulus=2.0, poisson_ratio=0.3, plane='stress', bcdiagval=1.0, **kw)
    elif kind == 'mass':
        m = pym.AssembleMass(s, domain=d, material_property=1.5, ndof=ndof, bcdiagval=1.0, **kw)
    else:
        m = pym.AssemblePoisson(s, domain=d, material_property=0.7, bcdiagval=1.0, **kw)
    # a second module on the same domain with another dof count must not disturb the first
    other = pym.AssembleMass(pym.Signal('x2', np.ones(g.nel)), domain=d, ndof=nd + 1)
    other.response()
    bcl = None if bc is None else list(np.asarray(bc).tolist())
    xs = [make_x('pos', g.nel, rng), make_x('zeros', g.nel, rng), make_x('neg', g.nel, rng)]
    buf = xs[0].copy()
    bad = []
    prev = None
    steps = ['set0', 'same', 'set1', 'reset', 'inplace2', 'inplace0', 'set0', 'zero', 'set1']
    for k, st in enumerate(steps):
        if st == 'set0':
            s.state = xs[0].copy(); cur = xs[0]
        elif st == 'set1':
            s.state = xs[1].copy(); cur = xs[1]
        elif st == 'same':
            pass
        elif st == 'reset':
            m.reset()
        elif st == 'inplace2':      # the caller re-uses one buffer and changes it in place
            buf[:] = xs[2]; s.state = buf; cur = xs[2]
        elif st == 'inplace0':      # same array object as in the previous call, new content
            buf[:] = xs[0]; cur = xs[0]
        elif st == 'zero':
            s.state = np.zeros(g.nel); cur = np.zeros(g.nel)
        m.response()
        A = m.sig_out[0].state
        ref = assemble(g, el, cur, nd, bcl, 1.0, c0)
        sc = max(float(np.abs(ref).max()), float(np.abs(el).max()) * 1e-3)
        if not close(dense(A), ref, scale=sc):
            bad.append((f'call #{k} ({st}) of a response() sequence on one module gives the matrix of the current x', float(np.abs(dense(A) - ref).max()), 0.0))
            break
        if prev is not None and prev is A:
            bad.append((f'call #{k}: a new matrix object is produced per call', None, None))
        if c0 is not None and not np.array_equal(dense(const), c0):
            bad.append((f'call #{k}: add_constant not modified', None, None))
            break
        prev = A
        # caller scribbles on the result it got
        if sp.issparse(A):
            A.data[:] = -3.0
    return bad


def case_kinematics(dim, h, voigt, seed):
    """get_B applied to the nodal values of an affine field gives the strain vector in the documented order, at any point of the element"""
    from pymoto.modules.assembly import get_B
    rng = np.random.default_rng(seed)
    hh = np.array(h[:dim], dtype=float)
    en = 2 ** dim
    sg = np.array([[1 if (c >> a) & 1 else -1 for a in range(dim)] for c in range(en)], dtype=float)   # corner signs
    bad = []
    for _ in range(4):
        t = rng.uniform(-0.5, 0.5, dim)                      # point in the element, in units of the element size
        dN = np.array([[sg[c, i] / hh[i] * np.prod([(0.5 + sg[c, a] * t[a]) for a in range(dim) if a != i]) for c in range(en)] for i in range(dim)])
        B = get_B(dN, voigt=voigt) if dim == 3 else get_B(dN)
        Gm = rng.standard_normal((dim, dim))
        a0 = rng.standard_normal(dim)
        corners = (sg * 0.5) * hh                            # corner coordinates relative to the centre
        ue = (a0[None, :] + corners @ Gm.T).reshape(-1)
        e = 0.5 * (Gm + Gm.T)
        if dim == 2:
            want = np.array([e[0, 0], e[1, 1], 2 * e[0, 1]])
        elif voigt:
            want = np.array([e[0, 0], e[1, 1], e[2, 2], 2 * e[1, 2], 2 * e[2, 0], 2 * e[0, 1]])
        else:
            want = np.array([e[0, 0], e[1, 1], e[2, 2], 2 * e[0, 1], 2 * e[1, 2], 2 * e[2, 0]])
        nst = dim * (dim + 1) // 2
        if B.shape != (nst, en * dim):
            bad.append(('get_B shape', B.shape, (nst, en * dim)))
            break
        got = B @ ue
        if not close(got, want, rt=1e-12, scale=max(1.0, float(np.abs(Gm).max()) + float(np.abs(a0).max()) / float(hh.min()))):
            bad.append(('get_B @ u_affine = [normal strains; engineering shears] in the documented order (voigt yz,zx,xy / standard xy,yz,zx)', got, want))
            break
    return bad


def case_constitutive(E, nu, mode):
    from pymoto.modules.assembly import get_D
    D = get_D(E, nu, mode)
    ml = mode.lower()
    key = '3d' if '3d' in ml else ('stress' if 'stress' in ml else 'strain')
    want = d_matrix(E, nu, key)
    bad = []
    if not close(D, want, rt=1e-11):
        bad.append(('get_D = inverse compliance (plane stress), its 3-D inverse restricted to the plane (plane strain), 3-D', D, want))
    elif nu > -1 and nu < 0.5 and E > 0:
        w = np.linalg.eigvalsh(0.5 * (D + D.T))
        if not w.min() > 0:
            bad.append(('D positive definite for E > 0, -1 < nu < 1/2', float(w.min()), '> 0'))
    return bad


def case_sensitivity(nx, ny, nz, h, ndof, bckind, carrier, cplx, seed):
    """adjoint of the stated linear map: dx_e = sum_ij A_e[i,j] dA[dof_i, dof_j] with constrained rows/columns removed"""
    rng = np.random.default_rng(seed)
    d = pym.DomainDefinition(nx, ny, nz, *h)
    g = Grid(nx, ny, nz, h)
    el = rng.standard_normal((g.en * ndof, g.en * ndof))
    n = ndof * g.nnodes
    bc = make_bc(bckind, n, rng)
    x = make_x('pos', g.nel, rng)
    s = pym.Signal('x', x)
    kw = {} if bc is None else dict(bc=bc)
    m = pym.AssembleGeneral(s, domain=d, element_matrix=el, **kw)
    m.response()
    if carrier:
        us = [rng.standard_normal(n) + (1j * rng.standard_normal(n) if cplx else 0) for _ in range(2)]
        vs = [rng.standard_normal(n) + (1j * rng.standard_normal(n) if cplx else 0) for _ in range(2)]
        dA = pym.DyadCarrier(us, vs)
        dAd = sum(np.outer(u_, v_) for u_, v_ in zip(us, vs))
    else:
        dAd = rng.standard_normal((n, n)) + (1j * rng.standard_normal((n, n)) if cplx else 0)
        dA = dAd.copy()
    m.sig_out[0].sensitivity = dA
    m.sensitivity()
    got = s.sensitivity
    if bc is not None:
        b = np.asarray(bc, dtype=int)
        dAd = dAd.copy(); dAd[b, :] = 0; dAd[:, b] = 0
    dc = g.dofconn(ndof)
    want = np.array([np.sum(el * dAd[np.ix_(dc[e], dc[e])]) for e in range(g.nel)])
    want = np.real(want)
    bad = []
    if got is None or not close(np.asarray(got), want, rt=1e-11, scale=max(float(np.abs(want).max()), 1.0)):
        bad.append(('sensitivity dx_e = <A_e, dA restricted to the element dofs> (real part for real x), constrained rows/columns dropped', got, want))
    return bad
