"""Independent references for C08 / C12 (nothing here calls pymoto).

Grid: node (i,j,k) -> (k*(ny+1)+j)*(nx+1)+i, element (i,j,k) -> (k*ny+j)*nx+i, local corner c has offset bit a of c along axis a.
Element matrices: exact integrals of the multilinear shape functions on a box, as tensor products of the 1-D matrices
  M = h/6 [[2,1],[1,2]] (int N_a N_b), S = 1/h [[1,-1],[-1,1]] (int N_a' N_b'), C = [[-1/2,-1/2],[1/2,1/2]] (int N_a' N_b),
and the isotropic elasticity tensor C_ikjl = lam d_ik d_jl + mu (d_ij d_kl + d_il d_kj) (no B matrix, no Voigt ordering, no quadrature)."""
import numpy as np


class Grid:
    def __init__(self, nx, ny, nz, h):
        self.nx, self.ny, self.nz = nx, ny, nz
        self.dim = dim = 2 if nz == 0 else 3
        self.h = np.array(h, dtype=float)
        nzz = max(nz, 1)
        self.nel = nx * ny * nzz
        self.nnodes = (nx + 1) * (ny + 1) * (nz + 1)
        self.en = 2 ** dim
        self.conn = np.zeros((self.nel, self.en), dtype=int)
        self.centroid = np.zeros((self.nel, dim))
        for k in range(nzz):
            for j in range(ny):
                for i in range(nx):
                    e = (k * ny + j) * nx + i
                    for c in range(self.en):
                        o = [(c >> a) & 1 for a in range(3)]
                        if dim == 2:
                            o[2] = 0
                        self.conn[e, c] = ((k + o[2]) * (ny + 1) + (j + o[1])) * (nx + 1) + (i + o[0])
                    self.centroid[e] = (np.array([i, j, k][:dim]) + 0.5) * self.h[:dim]
        self.pos = np.zeros((self.nnodes, dim))
        for k in range(nz + 1):
            for j in range(ny + 1):
                for i in range(nx + 1):
                    self.pos[(k * (ny + 1) + j) * (nx + 1) + i] = (np.array([i, j, k][:dim])) * self.h[:dim]
        # volume of one element; in 2D the third size is the thickness
        self.vol = float(np.prod(self.h[:dim])) * (float(self.h[2]) if dim == 2 else 1.0)

    def dofconn(self, ndof):
        return (self.conn[:, :, None] * ndof + np.arange(ndof)[None, None, :]).reshape(self.nel, -1)

    def affine(self, a, G):
        """nodal vector (node-major, dim dofs per node) of u(p) = a + G p"""
        return (np.asarray(a)[None, :] + self.pos @ np.asarray(G).T).reshape(-1)


def _kron(mats):
    # mats[a] acts on axis a; local corner index has axis 0 as lowest bit -> kron(z, y, x)
    out = np.ones((1, 1))
    for m in mats[::-1]:
        out = np.kron(out, m)
    return out


def _m(h):
    return h / 6.0 * np.array([[2.0, 1.0], [1.0, 2.0]])


def _s(h):
    return 1.0 / h * np.array([[1.0, -1.0], [-1.0, 1.0]])


_C = np.array([[-0.5, -0.5], [0.5, 0.5]])


def grad_gram(h, dim, k, l):
    """G^{kl}_{ab} = int d_k N_a d_l N_b over the box"""
    mats = []
    for a in range(dim):
        if k == l:
            mats.append(_s(h[a]) if a == k else _m(h[a]))
        else:
            mats.append(_C if a == k else (_C.T if a == l else _m(h[a])))
    return _kron(mats)


def lame(E, nu, mode):
    mu = E / (2 * (1 + nu))
    lam = E * nu / ((1 + nu) * (1 - 2 * nu))
    if mode == 'stress':
        lam = 2 * lam * mu / (lam + 2 * mu)
    return lam, mu


def ke_stiffness(h, dim, E, nu, mode):
    """mode in {'strain','stress','3d'}; 2D includes the thickness h[2]"""
    lam, mu = lame(E, nu, mode)
    en = 2 ** dim
    G = [[grad_gram(h, dim, k, l) for l in range(dim)] for k in range(dim)]
    lap = sum(G[k][k] for k in range(dim))
    K = np.zeros((en * dim, en * dim))
    for i in range(dim):
        for j in range(dim):
            K[i::dim, j::dim] = lam * G[i][j] + mu * G[j][i] + (mu * lap if i == j else 0.0)
    return K * (h[2] if dim == 2 else 1.0)


def me_mass(h, dim, rho, ndof):
    M = _kron([_m(h[a]) for a in range(dim)]) * rho * (h[2] if dim == 2 else 1.0)
    return np.kron(M, np.eye(ndof))


def pe_poisson(h, dim, kappa):
    return sum(grad_gram(h, dim, k, k) for k in range(dim)) * kappa * (h[2] if dim == 2 else 1.0)


def d_matrix(E, nu, mode):
    """constitutive matrix from the inverse of the compliance (engineering shear); order xx,yy,(zz),(yz,zx,)xy"""
    G = E / (2 * (1 + nu))
    S = np.zeros((6, 6))
    S[:3, :3] = (np.eye(3) * (1 + nu) - nu) / E
    S[3:, 3:] = np.eye(3) / G
    if mode == '3d':
        return np.linalg.inv(S)
    idx = [0, 1, 5]
    if mode == 'stress':
        return np.linalg.inv(S[np.ix_(idx, idx)])
    return np.linalg.inv(S)[np.ix_(idx, idx)]


def voigt_strain(G, dim, engineering=True):
    """strain of the displacement gradient G (du_i/dx_j) in the order xx,yy,xy (2D) / xx,yy,zz,yz,zx,xy (3D)"""
    e = 0.5 * (np.asarray(G) + np.asarray(G).T)
    f = 2.0 if engineering else 1.0
    if dim == 2:
        return np.array([e[0, 0], e[1, 1], f * e[0, 1]])
    return np.array([e[0, 0], e[1, 1], e[2, 2], f * e[1, 2], f * e[2, 0], f * e[0, 1]])


def assemble(grid, elmat, x, ndof, bc=None, bcdiagval=None, const=None):
    n = ndof * grid.nnodes
    A = np.zeros((n, n), dtype=np.result_type(elmat, x, float))
    dc = grid.dofconn(ndof)
    for e in range(grid.nel):
        A[np.ix_(dc[e], dc[e])] += x[e] * elmat
    if bc is not None:
        bc = np.asarray(bc, dtype=int)
        A[bc, :] = 0
        A[:, bc] = 0
        A[bc, bc] = bcdiagval
    if const is not None:
        A = A + const
    return A


def rigid_modes(grid):
    """translations and infinitesimal rotations as nodal vectors"""
    dim = grid.dim
    out = []
    for i in range(dim):
        a = np.zeros(dim); a[i] = 1.0
        out.append(grid.affine(a, np.zeros((dim, dim))))
    for i in range(dim):
        for j in range(i + 1, dim):
            W = np.zeros((dim, dim)); W[i, j] = 1.0; W[j, i] = -1.0
            out.append(grid.affine(np.zeros(dim), W))
    return out
