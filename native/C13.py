"""C13 bounded stand-ins: the concrete interpretation of the C13 contracts on all small grids (exhaustive up to the bound)."""
import itertools
import numpy as np
from pymoto import DomainDefinition
from native.util import bound, REPLAY_HEAD


def grids(tier):
    m2, m3 = (5, 3) if tier == 'quick' else (8, 5)
    for nx, ny in itertools.product(range(1, m2 + 1), repeat=2):
        yield (nx, ny, 0)
    for nx, ny, nz in itertools.product(range(1, m3 + 1), repeat=3):
        yield (nx, ny, nz)


def _replay(g, body):
    return REPLAY_HEAD + f"d = pym.DomainDefinition({g[0]}, {g[1]}, {g[2]}, 0.5, 1.5, 2.0)\n" + body


@bound('all grids up to 5x5 (2D) / 3x3x3 (3D) [quick], 8x8 / 5x5x5 [thorough]; unit sizes 0.5,1.5,2.0')
def numbering(r, tier, seed):
    for g in grids(tier):
        nx, ny, nz = g
        d = DomainDefinition(nx, ny, nz, 0.5, 1.5, 2.0)
        dim = 2 if nz == 0 else 3
        nzz = max(nz, 1)
        r.case(g)
        r.check(d.nel == nx * ny * nzz and d.nnodes == (nx + 1) * (ny + 1) * (nz + 1) and d.dim == dim and d.elemnodes == 2 ** dim, 'counts', g)
        I, J, K = np.meshgrid(np.arange(nx), np.arange(ny), np.arange(nzz), indexing='ij')
        e = d.get_elemnumber(I, J, K)
        r.check(sorted(e.ravel().tolist()) == list(range(d.nel)), 'elemnumber bijection', g, replay_code=_replay(g, "I,J,K=np.meshgrid(np.arange(d.nelx),np.arange(d.nely),np.arange(max(d.nelz,1)),indexing='ij')\nassert sorted(d.get_elemnumber(I,J,K).ravel().tolist())==list(range(d.nel))\n"))
        r.check(np.array_equal(d.elements, e), 'elements table', g)
        NI, NJ, NK = np.meshgrid(np.arange(nx + 1), np.arange(ny + 1), np.arange(nz + 1), indexing='ij')
        n = d.get_nodenumber(NI, NJ, NK)
        r.check(sorted(n.ravel().tolist()) == list(range(d.nnodes)), 'nodenumber bijection', g, replay_code=_replay(g, "I,J,K=np.meshgrid(np.arange(d.nelx+1),np.arange(d.nely+1),np.arange(d.nelz+1),indexing='ij')\nassert sorted(d.get_nodenumber(I,J,K).ravel().tolist())==list(range(d.nnodes))\n"))
        r.check(np.array_equal(d.nodes, n), 'nodes table', g)
        idx = d.get_node_indices(n.ravel())
        want = np.stack([NI.ravel(), NJ.ravel(), NK.ravel()][:dim], axis=0)
        r.check(idx.shape == want.shape and np.array_equal(idx, want), 'get_node_indices inverse', g, idx, want,
                replay_code=_replay(g, "I,J,K=np.meshgrid(np.arange(d.nelx+1),np.arange(d.nely+1),np.arange(d.nelz+1),indexing='ij')\nn=d.get_nodenumber(I,J,K).ravel()\nw=np.stack([I.ravel(),J.ravel(),K.ravel()][:d.dim],axis=0)\nassert np.array_equal(d.get_node_indices(n), w)\n"))
        r.check(np.array_equal(d.get_node_indices(), d.get_node_indices(np.arange(d.nnodes))), 'get_node_indices default', g)
        pos = d.get_node_position(n.ravel())
        r.check(np.allclose(pos, (np.array([0.5, 1.5, 2.0])[:dim] * want.T).T, rtol=0, atol=1e-14), 'node position', g)


@bound('same grids; scalar, 1-D and meshgrid-shaped index arguments; ndof in 1..4; aliasing of the returned dof table')
def connectivity(r, tier, seed):
    for g in grids(tier):
        nx, ny, nz = g
        d = DomainDefinition(nx, ny, nz)
        dim = 2 if nz == 0 else 3
        nzz = max(nz, 1)
        r.case(g)
        offs = [[(c >> a) & 1 if a < dim else 0 for a in range(3)] for c in range(2 ** dim)]
        I, J, K = np.meshgrid(np.arange(nx), np.arange(ny), np.arange(nzz), indexing='ij')
        want = np.stack([d.get_nodenumber(I + o[0], J + o[1], K + o[2]) for o in offs], axis=-1)   # (nx,ny,nzz,2^dim)
        got = d.get_elemconnectivity(I, J, K)
        code = _replay(g, "I,J,K=np.meshgrid(np.arange(d.nelx),np.arange(d.nely),np.arange(max(d.nelz,1)),indexing='ij')\ndim=d.dim\noffs=[[(c>>a)&1 if a<dim else 0 for a in range(3)] for c in range(2**dim)]\nwant=np.stack([d.get_nodenumber(I+o[0],J+o[1],K+o[2]) for o in offs],axis=-1)\ngot=d.get_elemconnectivity(I,J,K)\nassert got.shape==want.shape and np.array_equal(got,want)\ne=d.get_elemnumber(I,J,K)\nassert np.array_equal(d.conn[e.ravel()], want.reshape(-1,2**dim))\n")
        r.check(got.shape == want.shape and np.array_equal(got, want), 'get_elemconnectivity (meshgrid arguments)', g, replay_code=code)
        g1 = d.get_elemconnectivity(I.ravel(), J.ravel(), K.ravel())
        r.check(g1.shape == (d.nel, 2 ** dim) and np.array_equal(g1, want.reshape(-1, 2 ** dim)), 'get_elemconnectivity (1-D arguments)', g, replay_code=code)
        s = d.get_elemconnectivity(nx - 1, ny - 1, nzz - 1)
        r.check(np.array_equal(np.asarray(s), want[nx - 1, ny - 1, nzz - 1]), 'get_elemconnectivity (scalar arguments)', g)
        e = d.get_elemnumber(I, J, K)
        r.check(np.array_equal(d.conn[e.ravel()], want.reshape(-1, 2 ** dim)), 'conn rows = corners of the numbered element', g, replay_code=code)
        r.check(all(len(set(row)) == 2 ** dim for row in d.conn.tolist()), 'corners distinct', g)
        conn0 = d.conn.copy()
        for ndof in (1, 2, 3, 4):
            dc = d.get_dofconnectivity(ndof)
            w = (conn0[:, :, None] * ndof + np.arange(ndof)[None, None, :]).reshape(d.nel, -1)
            ok = dc.shape == w.shape and np.array_equal(dc, w)
            dc += 7   # a caller may modify the returned table: the domain must not change
            ok2 = np.array_equal(d.conn, conn0) and np.array_equal(d.get_dofconnectivity(ndof), w)
            r.check(ok and ok2, 'dof connectivity expansion / result not aliased to conn', (g, ndof),
                    replay_code=_replay(g, f"c0=d.conn.copy()\ndc=d.get_dofconnectivity({ndof})\nw=(c0[:,:,None]*{ndof}+np.arange({ndof})[None,None,:]).reshape(d.nel,-1)\nassert np.array_equal(dc,w)\ndc+=7\nassert np.array_equal(d.conn,c0) and np.array_equal(d.get_dofconnectivity({ndof}),w)\n"))


@bound('dims 1-3, element sizes from {0.5,1,2.5}, evaluation points on a 5^dim lattice including faces, edges, corners; exact rational reference')
def shape_functions(r, tier, seed):
    from fractions import Fraction as F
    for dim in (1, 2, 3):
        sizes_set = [(0.5, 1.0, 2.5), (1.0, 1.0, 1.0), (2.5, 0.5, 1.0)]
        for sizes in sizes_set:
            d = DomainDefinition(2, 2 if dim >= 2 else 0, 2 if dim >= 3 else 0, *sizes)
            lat = [-0.5, -0.25, 0.0, 0.3125, 0.5]
            for t in itertools.product(lat, repeat=dim):
                pos = np.array([t[a] * sizes[a] for a in range(dim)])
                r.case((dim, sizes, t))
                N = d.eval_shape_fun(pos)
                dN = d.eval_shape_fun_der(pos)
                Nw = np.array([np.prod([(0.5 + (1 if (c >> a) & 1 else -1) * t[a]) for a in range(dim)]) for c in range(2 ** dim)])
                dNw = np.array([[(1 if (c >> i) & 1 else -1) / sizes[i] * np.prod([(0.5 + (1 if (c >> a) & 1 else -1) * t[a]) for a in range(dim) if a != i])
                                 for c in range(2 ** dim)] for i in range(dim)])
                code = REPLAY_HEAD + f"d=pym.DomainDefinition(2,{2 if dim>=2 else 0},{2 if dim>=3 else 0},*{sizes})\npos=np.array({pos.tolist()})\nt={list(t)}; dim={dim}; sizes={sizes}\nNw=np.array([np.prod([(0.5+(1 if (c>>a)&1 else -1)*t[a]) for a in range(dim)]) for c in range(2**dim)])\ndNw=np.array([[(1 if (c>>i)&1 else -1)/sizes[i]*np.prod([(0.5+(1 if (c>>a)&1 else -1)*t[a]) for a in range(dim) if a!=i]) for c in range(2**dim)] for i in range(dim)])\nassert np.allclose(d.eval_shape_fun(pos),Nw,atol=1e-13)\nassert np.allclose(d.eval_shape_fun_der(pos),dNw,atol=1e-13)\n"
                r.check(N.shape == Nw.shape and np.allclose(N, Nw, rtol=0, atol=1e-13), 'shape function values', (dim, sizes, t), N, Nw, replay_code=code)
                r.check(dN.shape == dNw.shape and np.all(np.isfinite(dN)) and np.allclose(dN, dNw, rtol=0, atol=1e-13), 'shape function derivatives', (dim, sizes, t), dN, dNw, replay_code=code)


CHECKS = [('numbering', numbering), ('connectivity', connectivity), ('shape_functions', shape_functions)]
