"""C02 reference: an own evaluator of module graphs (plain numpy, no pymoto objects) whose total derivatives are obtained by whole-program
complex-step differentiation (h = 1e-30: exact to rounding, independent of any adjoint code), plus the builder that wires the same graph from
pymoto Signals / SignalSlices / Modules / nested Networks. Embedded verbatim into replay programs (needs numpy and pymoto only).

spec = {'signals': [value, ...]         value: float -> python-float source; list -> array source / pre-allocated array; None -> produced by a module
        'nodes':   [(kind, param, [in handles], [out handles]), ...]   handle = (signal index, chain); chain = tuple of index-key strings (nested slicing)
        'nest':    nested list of node indices in order, e.g. [0, [1, [2]], 3, []]; every sub-list is a nested Network
        'build':   {'print_timing': False|True|number, 'container': 'args'|'list'|'tuple'|'append'|'call'|'copy', 'ret': 'tuple'|'list'|'single',
                    'io': 'list'|'tuple'|'single', 'dict': bool, 'share': bool (one SignalSlice object per distinct slice), 'explicit': bool (explicit signatures)}}
rounds = [{'values': {signal index: value}, 'seeds': [(handle, value, 'set'|'add'), ...], 'twice': bool}, ...]
Preconditions of the property, asserted by check_spec: every entry has at most one producer; no node reads an entry produced by a later node.
"""
import contextlib
import io
import numpy as np
import pymoto as pym

H = 1e-30


def key(s):
    return eval(s, {'np': np})


def imap(shape, chain):
    idx = np.arange(int(np.prod(shape, dtype=int))).reshape(shape)
    for s in chain:
        idx = idx[key(s)]
    return np.asarray(idx)


def arr(x):
    return np.asarray(x)


# ---- node kinds: forward functions (analytic, valid for complex arguments) and hand-written adjoints used by the pymoto modules only ------------
def z(dy, like):
    return np.zeros(np.shape(like)) if dy is None else dy


F = {
    'sin': lambda p, x: (np.sin(x),),
    'tanh': lambda p, x: (np.tanh(x),),
    'scale': lambda p, x: (p * x,),
    'mul': lambda p, a, b: (a * b,),
    'lin': lambda p, a, b: (a + 2.0 * b,),
    'add': lambda p, a, b: (a + b,),
    'dot': lambda p, a, b: (np.sum(a * b),),
    'sum': lambda p, x: (np.sum(x),),
    'matvec': lambda p, x: (arr(p) @ x,),
    'matT': lambda p, m, x: (m.T @ x,),
    'outer': lambda p, a, b: (np.outer(a, b),),
    'bcast': lambda p, s: (s * arr(p),),
    'smul': lambda p, s, x: (s * x,),
    'split': lambda p, x: (x[:p], x[p:]),
    'twoout': lambda p, a, b: (a * b, a + b),
    'first': lambda p, a, b: (2.0 * a,),
    'sink': lambda p, x: (),
    'const': lambda p: (arr(p) * 1.0,),
    'einsum': lambda p, *xs: (np.einsum(p, *xs),),
    'concat': lambda p, *xs: (np.concatenate([np.ravel(x) for x in xs]),),
}
VJP = {
    'sin': lambda p, x, d: [np.cos(x[0]) * d[0]],
    'tanh': lambda p, x, d: [(1.0 - np.tanh(x[0]) ** 2) * d[0]],
    'scale': lambda p, x, d: [p * d[0]],
    'mul': lambda p, x, d: [x[1] * d[0], x[0] * d[0]],
    'lin': lambda p, x, d: [d[0], 2.0 * d[0]],
    'add': lambda p, x, d: [d[0], d[0]],                      # the very same object for both inputs (and it is the output's sensitivity object)
    'dot': lambda p, x, d: [x[1] * d[0], x[0] * d[0]],
    'sum': lambda p, x, d: [d[0] * np.ones(np.shape(x[0]))],
    'matvec': lambda p, x, d: [arr(p).T @ d[0]],
    'matT': lambda p, x, d: [np.outer(x[1], d[0]), x[0] @ d[0]],
    'outer': lambda p, x, d: [d[0] @ x[1], x[0] @ d[0]],
    'bcast': lambda p, x, d: [np.sum(d[0] * arr(p))],
    'smul': lambda p, x, d: [np.sum(d[0] * x[1]), x[0] * d[0]],
    'split': lambda p, x, d: [np.concatenate([z(d[0], x[0][:p]), z(d[1], x[0][p:])])],
    'twoout': lambda p, x, d: [x[1] * z(d[0], x[0]) + z(d[1], x[0]), x[0] * z(d[0], x[1]) + z(d[1], x[1])],
    'first': lambda p, x, d: [2.0 * d[0], None],               # no dependence on the second input: None is an admissible answer
    'sink': lambda p, x, d: [arr(p) * 1.0 if np.ndim(p) else float(p)],   # a module without outputs seeds its input itself
    'const': lambda p, x, d: [],
}
LIB = {'einsum': 'EinSum', 'concat': 'ConcatSignal'}


class UMod(pym.Module):
    """user-defined module of a given kind; counts its calls"""
    def _prepare(self, kind, p, ret):
        self.kind, self.p, self.ret, self.nresp, self.nsens = kind, p, ret, 0, 0

    def _pack(self, vals):
        vals = list(vals)
        if self.ret == 'single' and len(vals) == 1:
            return vals[0]
        return vals if self.ret == 'list' else tuple(vals)

    def _response(self, *xs):
        self.nresp += 1
        return self._pack(F[self.kind](self.p, *xs))

    def _sensitivity(self, *dys):
        self.nsens += 1
        return self._pack(VJP[self.kind](self.p, [s.state for s in self.sig_in], dys))


class UMod1(UMod):
    """one input, one output, written with explicit signatures as users do"""
    def _response(self, x):
        return UMod._response(self, x)

    def _sensitivity(self, dy):
        return UMod._sensitivity(self, dy)


class UMod2(UMod):
    """two inputs, one output, explicit signatures"""
    def _response(self, a, b):
        return UMod._response(self, a, b)

    def _sensitivity(self, dy):
        return UMod._sensitivity(self, dy)


# ---- the independent evaluator ---------------------------------------------------------------------------------------------------------------
def flat_nodes(nest):
    out = []
    for e in nest:
        out.extend(flat_nodes(e) if isinstance(e, list) else [e])
    return out


def initial(spec, values):
    st = []
    for i, v in enumerate(spec['signals']):
        v = values.get(i, v)
        st.append(None if v is None else np.array(v, dtype=complex))
    return st


def evaluate(spec, values, perturb=None, produced=None):
    """states of all signals (complex arrays); perturb = (signal, flat entry): add i*H to that entry at the moment it comes into existence"""
    st = initial(spec, values)
    if perturb is not None and perturb[1] not in produced[perturb[0]]:
        st[perturb[0]].reshape(-1)[perturb[1]] += 1j * H
    for n in flat_nodes(spec['nest']):
        kind, p, ins, outs = spec['nodes'][n]
        xs = []
        for (s, chain) in ins:
            x = st[s]
            for k in chain:
                x = x[key(k)]
            xs.append(x)
        ys = F[kind](p, *xs)
        assert len(ys) == len(outs)
        for (s, chain), y in zip(outs, ys):
            if not chain:
                st[s] = np.array(y, dtype=complex)
            else:
                idx = imap(st[s].shape, chain)
                st[s].reshape(-1)[idx.reshape(-1)] = np.broadcast_to(y, idx.shape).reshape(-1)
            if perturb is not None and perturb[0] == s and perturb[1] in produced[s] and (not chain or perturb[1] in imap(st[s].shape, chain).reshape(-1).tolist()):
                st[s].reshape(-1)[perturb[1]] += 1j * H
    return st


def check_spec(spec, values):
    """single producer per entry, list order topological; returns the produced-entry sets (needs one evaluation for the shapes)"""
    st = evaluate(spec, values, None, None)
    shapes = [s.shape for s in st]
    produced = [set() for _ in st]
    order = flat_nodes(spec['nest'])
    assert sorted(order) == list(range(len(spec['nodes'])))
    when = {}
    for pos, n in enumerate(order):
        for (s, chain) in spec['nodes'][n][3]:
            e = imap(shapes[s], chain).reshape(-1).tolist()
            assert len(set(e)) == len(e) and not (set(e) & produced[s]), 'two producers for one entry'
            produced[s] |= set(e)
            for q in e:
                when[(s, q)] = pos
    for pos, n in enumerate(order):
        for (s, chain) in spec['nodes'][n][2]:
            for q in imap(shapes[s], chain).reshape(-1).tolist():
                assert when.get((s, q), -1) < pos, 'node reads an entry produced later (list order must be topological)'
    return shapes, produced


def seed_arrays(spec, shapes, seeds):
    """seed placement with plain-array set/add semantics"""
    S = [None] * len(shapes)
    for (s, chain), v, mode in seeds:
        if not chain:
            S[s] = np.array(v, dtype=float) if (mode == 'set' or S[s] is None) else S[s] + np.array(v, dtype=float)
            assert S[s].shape == shapes[s]
        else:
            if S[s] is None:
                S[s] = np.zeros(shapes[s])
            idx = imap(shapes[s], chain)
            fl = S[s].reshape(-1)
            b = np.broadcast_to(v, idx.shape).reshape(-1)
            fl[idx.reshape(-1)] = b if mode == 'set' else fl[idx.reshape(-1)] + b
    return S


def objective(spec, st, S):
    g = 0.0
    for s, w in enumerate(S):
        if w is not None:
            g = g + np.sum(w * st[s])
    for kind, p, ins, outs in spec['nodes']:
        if kind == 'sink':
            x = st[ins[0][0]]
            for k in ins[0][1]:
                x = x[key(k)]
            g = g + np.sum(arr(p) * x)
    return g


def total_derivatives(spec, values, seeds):
    shapes, produced = check_spec(spec, values)
    S = seed_arrays(spec, shapes, seeds)
    D = []
    for s, sh in enumerate(shapes):
        d = np.zeros(int(np.prod(sh, dtype=int)))
        for e in range(d.size):
            d[e] = np.imag(objective(spec, evaluate(spec, values, (s, e), produced), S)) / H
        D.append(d.reshape(sh))
    return shapes, produced, S, D


def liveness(spec, S):
    """which base signals end up with a sensitivity, which modules must run their _sensitivity (boolean reverse sweep)"""
    has = [w is not None for w in S]
    live = {}
    for n in reversed(flat_nodes(spec['nest'])):
        kind, p, ins, outs = spec['nodes'][n]
        live[n] = len(outs) == 0 or any(has[s] for (s, _) in outs)
        if live[n]:
            for k, (s, _) in enumerate(ins):
                if not (kind == 'first' and k == 1):
                    has[s] = True
    return has, live


# ---- the same graph in pymoto ---------------------------------------------------------------------------------------------------------------------
def handle(sigs, h):
    o = sigs[h[0]]
    for k in h[1]:
        o = o[key(k)]
    return o


def sig_value(v):
    return None if v is None else (float(v) if np.ndim(v) == 0 else np.array(v, dtype=float))


def build(spec):
    b = spec['build']
    sigs = [pym.Signal(f'g{i}', sig_value(v)) for i, v in enumerate(spec['signals'])]
    mods = {}

    shared = {}

    def get(hd):
        if not (b.get('share') and hd[1]):
            return handle(sigs, hd)
        if hd not in shared:   # one SignalSlice object serves every module that uses this slice
            shared[hd] = handle(sigs, hd)
        return shared[hd]

    def pack(hs):
        hs = [get((x[0], tuple(x[1]))) for x in hs]
        if b['io'] == 'single' and len(hs) == 1:
            return hs[0]
        return tuple(hs) if b['io'] == 'tuple' else hs

    def leaf(n):
        kind, p, ins, outs = spec['nodes'][n]
        if kind in LIB:
            kw = dict(sig_in=pack(ins), sig_out=pack(outs))
            if kind == 'einsum':
                kw['expression'] = p
            if b['dict']:
                return dict(kw, type=LIB[kind])
            return getattr(pym, LIB[kind])(**kw)
        cls = UMod
        if b.get('explicit') and len(outs) == 1 and len(ins) in (1, 2):
            cls = (UMod1, UMod2)[len(ins) - 1]
        return cls(pack(ins), pack(outs), kind, p, b['ret'])

    def network(items, top):
        subs = [network(e, False) if isinstance(e, list) else leaf(e) for e in items]
        pt = b['print_timing']
        c = b['container'] if top else ('list', 'args', 'append')[len(items) % 3]
        if c == 'args':
            net = pym.Network(*subs, print_timing=pt)
        elif c == 'list':
            net = pym.Network(subs, print_timing=pt)
        elif c == 'tuple':
            net = pym.Network(tuple(subs), print_timing=pt)
        elif c == 'append':
            net = pym.Network(print_timing=pt)
            for m in subs:
                net.append(m)
        elif c == 'call':
            net = pym.Network(subs[:1], print_timing=pt)
            if len(subs) > 1:
                net(*subs[1:])
        else:  # 'copy'
            net = pym.Network(subs, print_timing=pt).copy()
            net.print_timing = pt
        ordered = list(net)
        if not (len(net) == len(subs) and all(isinstance(s, dict) or net[i] is s for i, s in enumerate(subs))):
            raise RuntimeError('Network does not keep the modules in the order given')
        for e, m in zip(items, ordered):
            if not isinstance(e, list):
                mods[e] = m
        return net

    return sigs, mods, network(spec['nest'], True)


def close(a, b, tol):
    a, b = np.asarray(a), np.asarray(b)
    return a.shape == b.shape and bool(np.all(np.abs(a - b) <= tol * max(1.0, float(np.max(np.abs(b))) if b.size else 1.0)))


def run_case(spec, rounds):
    """returns None, or a dict describing the first violated clause"""
    sigs, mods, net = build(spec)
    values = {}
    quiet = io.StringIO()
    for rn, rd in enumerate(rounds):
        values.update(rd.get('values', {}))
        for s, v in rd.get('values', {}).items():
            sigs[s].state = sig_value(v)
        shapes, produced, S, D = total_derivatives(spec, values, rd['seeds'])
        ref = evaluate(spec, values, None, None)
        counts = {n: (m.nresp, m.nsens) for n, m in mods.items() if isinstance(m, UMod)}
        with contextlib.redirect_stdout(quiet):
            net.response()
            if rd.get('twice'):
                net.response()
        nr = 2 if rd.get('twice') else 1
        for s, sig in enumerate(sigs):
            if sig.state is None or not close(sig.state, ref[s].real, 1e-13):
                return dict(round=rn, what='response(): signal state differs from the composed function', signal=s, observed=tolist(sig.state), expected=tolist(ref[s].real))
        for n, m in mods.items():
            if isinstance(m, UMod) and m.nresp - counts[n][0] != nr:
                return dict(round=rn, what='response() must run every module exactly once, in order', node=n, observed=m.nresp - counts[n][0], expected=nr)
        given = []
        for h, v, mode in rd['seeds']:
            t = handle(sigs, h)
            v = float(v) if np.ndim(v) == 0 else np.array(v, dtype=float)
            if mode == 'set':
                t.sensitivity = v
            else:
                t.add_sensitivity(v)
                given.append((h, v, np.array(v, dtype=float)))
        with contextlib.redirect_stdout(quiet):
            net.sensitivity()
        for h, v, v0 in given:
            if not np.array_equal(v, v0) or (isinstance(v, np.ndarray) and isinstance(sigs[h[0]].sensitivity, np.ndarray) and np.shares_memory(v, sigs[h[0]].sensitivity)):
                return dict(round=rn, what='a seed handed over with add_sensitivity was modified or aliased by the backward sweep', signal=h[0], observed=tolist(v), expected=tolist(v0))
        for s, sig in enumerate(sigs):
            if not close(sig.state, ref[s].real, 1e-13):
                return dict(round=rn, what='sensitivity() changed a signal state', signal=s, observed=tolist(sig.state), expected=tolist(ref[s].real))
        has, live = liveness(spec, S)
        src = [s for s in range(len(sigs)) if not produced[s]]
        for s in src + [s for s in range(len(sigs)) if produced[s]]:
            where = 'source signal' if s in src else 'intermediate/output signal (adjoint w.r.t. the entries it holds)'
            got = sigs[s].sensitivity
            if got is None:
                if np.any(D[s] != 0) or has[s]:
                    return dict(round=rn, what=f'{where}: no sensitivity although a seeded output depends on it', signal=s, observed=None, expected=tolist(D[s]))
                continue
            if not has[s]:
                return dict(round=rn, what=f'{where}: received a sensitivity although no seeded branch reaches it', signal=s, observed=tolist(got), expected=None)
            if not close(got, D[s], 1e-11):
                return dict(round=rn, what=f'{where}: sensitivity is not the total derivative of the seeded combination', signal=s, observed=tolist(got), expected=tolist(D[s]))
        for n, m in mods.items():
            if isinstance(m, UMod) and m.nsens - counts[n][1] != (1 if live[n] else 0):
                return dict(round=rn, what='sensitivity() must call _sensitivity exactly once for a module with a seeded output (or without outputs) and not at all otherwise',
                            node=n, kind=spec['nodes'][n][0], observed=m.nsens - counts[n][1], expected=1 if live[n] else 0)
        # reset: every signal attached to a module is cleared (None), a base reached only through slices is zeroed on the entries of those slices
        net.reset()
        direct, covered = set(), [set() for _ in sigs]
        for kind, p, ins, outs in spec['nodes']:
            for (s, chain) in list(ins) + list(outs):
                if not chain:
                    direct.add(s)
                else:
                    covered[s] |= set(imap(shapes[s], chain).reshape(-1).tolist())
        for s, sig in enumerate(sigs):
            if s in direct and sig.sensitivity is not None:
                return dict(round=rn, what='Network.reset() must clear the sensitivity of every signal attached to a module', signal=s, observed=tolist(sig.sensitivity))
            if s not in direct and sig.sensitivity is not None and covered[s]:
                left = np.asarray(sig.sensitivity).reshape(-1)[sorted(covered[s])]
                if np.any(left != 0):
                    return dict(round=rn, what='Network.reset() must zero the entries reached through slices', signal=s, observed=tolist(sig.sensitivity))
        for sig in sigs:
            sig.reset(False)   # the caller clears the seeds it placed itself on signals that no module is attached to directly
    return None


def tolist(v):
    return None if v is None else np.asarray(v).tolist()
