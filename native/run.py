"""Bounded run-time contract harness (runs under /venv/bin/python with PYTHONPATH=/repo:/verif).
Every check evaluates the *concrete interpretation* of a contract on the real functions over a stated finite input set.
Results are labelled bounded and are never counted as proved."""
import argparse, importlib, json, sys, time, traceback, warnings
warnings.filterwarnings('ignore')


def main():
    ap = argparse.ArgumentParser()
    ap.add_argument('prop'); ap.add_argument('--tier', default='quick'); ap.add_argument('--seed', type=int, default=0); ap.add_argument('--out')
    a = ap.parse_args()
    mod = importlib.import_module(f'native.{a.prop}')
    out = {'property': a.prop, 'tier': a.tier, 'checks': []}
    for name, fn in mod.CHECKS:
        t0 = time.time()
        rec = {'name': name, 'cases': 0, 'distinct': 0, 'failures': [], 'bound': getattr(fn, 'bound', '')}
        if getattr(fn, 'finding', None):
            rec['finding'] = fn.finding
        try:
            from native.util import Recorder
            r = Recorder(rec)
            fn(r, a.tier, a.seed)
        except Exception as e:
            rec['error'] = ''.join(traceback.format_exception(type(e), e, e.__traceback__))[-2000:]
        rec['time'] = round(time.time() - t0, 2)
        rec['failures'] = rec['failures'][:5]
        out['checks'].append(rec)
    json.dump(out, open(a.out, 'w'), indent=1, default=str)


if __name__ == '__main__':
    main()
