import itertools, json
import numpy as np


class Recorder:
    def __init__(self, rec):
        self.rec = rec
        self._seen = set()

    def case(self, key=None):
        self.rec['cases'] += 1
        if key is not None:
            k = repr(key)
            if k not in self._seen:
                self._seen.add(k); self.rec['distinct'] += 1
        else:
            self.rec['distinct'] += 1

    def fail(self, what, inputs, observed=None, expected=None, replay_code=None, finding=None):
        f = {'what': what, 'input': _j(inputs), 'observed': _j(observed), 'expected': _j(expected)}
        if replay_code:
            f['replay_code'] = replay_code
        if finding:
            f['finding'] = finding
        self.rec['failures'].append(f)

    def check(self, cond, what, inputs, observed=None, expected=None, replay_code=None, finding=None):
        if not cond:
            self.fail(what, inputs, observed, expected, replay_code, finding)
        return cond


def _j(v):
    if isinstance(v, np.ndarray):
        return v.tolist() if v.size <= 64 else {'shape': v.shape, 'head': v.ravel()[:16].tolist()}
    if isinstance(v, (np.integer,)):
        return int(v)
    if isinstance(v, (np.floating,)):
        return float(v)
    if isinstance(v, complex):
        return [v.real, v.imag]
    if isinstance(v, dict):
        return {str(k): _j(x) for k, x in v.items()}
    if isinstance(v, (list, tuple)):
        return [_j(x) for x in v]
    return v


def bound(text, finding=None):
    def deco(f):
        f.bound = text
        f.finding = finding
        return f
    return deco


REPLAY_HEAD = "import os, sys\nsys.path.insert(0, os.environ.get('REPO_ROOT', '/repo'))\nimport numpy as np\nimport pymoto as pym\n"
