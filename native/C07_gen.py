"""Shared generators / literals for the C07 and C11 bounded stand-ins (well-conditioned matrices of every class, replay literals)."""
import numpy as np
import scipy.sparse as sps

REPLAY_IMPORTS = "import scipy.sparse as sps\nimport scipy.linalg as spla\nfrom pymoto.solvers import *\nimport warnings\nwarnings.filterwarnings('ignore')\n"

REAL_CLASSES = ('gen', 'spd', 'snd', 'sym_indef', 'band', 'triu', 'tril', 'diag', 'perm', 'sym_zdiag')
CPLX_CLASSES = ('cgen', 'csym', 'herm_pd', 'herm_indef', 'cdiag', 'cperm', 'herm_zdiag', 'csym_zdiag')
SYMMETRIC = {'spd', 'snd', 'sym_indef', 'band', 'diag', 'csym', 'cdiag', 'sym_zdiag', 'csym_zdiag'}     # A == A.T
HERMITIAN = {'spd', 'snd', 'sym_indef', 'band', 'diag', 'herm_pd', 'herm_indef', 'sym_zdiag', 'herm_zdiag'}  # A == A.conj().T
POSDEF = {'spd', 'band', 'herm_pd'}


def signs(n):
    s = np.ones(n)
    s[1::2] = -1.0
    return s


def gen_matrix(kind, n, rng):
    """Strictly diagonally dominant matrices (non-singular, condition number O(n)) of the requested class."""
    R = rng.uniform(-1, 1, (n, n))
    I = np.eye(n)
    d = n + 1.0
    if kind == 'gen':
        return R + d * np.diag(signs(n))
    if kind == 'spd':
        return (R + R.T) / 2 + d * I
    if kind == 'snd':
        return -((R + R.T) / 2 + d * I)
    if kind == 'sym_indef':
        return (R + R.T) / 2 + d * np.diag(signs(n))
    if kind == 'band':
        A = np.diag(2.0 + rng.uniform(0, 1, n))
        for i in range(n - 1):
            A[i, i + 1] = A[i + 1, i] = -rng.uniform(0.2, 0.9)
        return A
    if kind == 'triu':
        return np.triu(R, 1) + d * np.diag(signs(n))
    if kind == 'tril':
        return np.tril(R, -1) + d * np.diag(signs(n))
    if kind == 'diag':
        return np.diag(signs(n) * rng.uniform(0.5, 3.0, n))
    if kind == 'perm':      # rows of a dominant matrix shifted cyclically: zero-free but tiny diagonal, every LU needs row exchanges
        return np.roll(R + d * np.diag(signs(n)), 1, axis=0)
    if kind in ('sym_zdiag', 'herm_zdiag', 'csym_zdiag'):
        # [[0, M], [M^H or M^T, 0]] with a dominant M: symmetric / Hermitian, indefinite, ZERO diagonal (2x2 pivots in LDL); odd n gets one 1x1 block
        h = n // 2
        cplx = kind != 'sym_zdiag'
        M = rng.uniform(-1, 1, (h, h)) + (1j * rng.uniform(-1, 1, (h, h)) if cplx else 0) + 1.5 * (h + 1.0) * np.eye(h)
        A = np.zeros((n, n), dtype=complex if cplx else float)
        A[:h, h:2 * h] = M
        A[h:2 * h, :h] = M.conj().T if kind == 'herm_zdiag' else M.T
        if n % 2:
            A[n - 1, n - 1] = -2.5
            if n > 1:
                A[n - 1, 0] = A[0, n - 1] = 0.5
        return A
    C = R + 1j * rng.uniform(-1, 1, (n, n))
    dc = 1.5 * d
    ph = np.exp(1j * rng.uniform(0, 2 * np.pi, n))
    if kind == 'cgen':
        return C + dc * np.diag(ph)
    if kind == 'cperm':
        return np.roll(C + dc * np.diag(ph), 1, axis=0)
    if kind == 'csym':
        return (C + C.T) / 2 + dc * np.diag(ph)
    if kind == 'herm_pd':
        return (C + C.conj().T) / 2 + dc * I
    if kind == 'herm_indef':
        return (C + C.conj().T) / 2 + dc * np.diag(signs(n))
    if kind == 'cdiag':
        return np.diag(ph * rng.uniform(0.5, 3.0, n))
    raise KeyError(kind)


CONTAINERS = {
    'dense': np.array,
    'denseF': np.asfortranarray,
    'csc': sps.csc_matrix,
    'csr': sps.csr_matrix,
    'coo': sps.coo_matrix,
    'csr_array': sps.csr_array,
    'dia': sps.dia_matrix,
}
SPARSE = {'csc', 'csr', 'coo', 'csr_array', 'dia'}


def dense_of(M):
    return M.toarray() if sps.issparse(M) else np.asarray(M)


def lit(a):
    a = np.asarray(a)
    return f"np.array({a.tolist()!r}, dtype='{a.dtype}').reshape({a.shape!r})"


def mat_lit(M, cont=None):
    """Python source for M: stored pattern included for csr/csc (explicit zeros survive), dense round trip otherwise."""
    if sps.issparse(M):
        name = type(M).__name__
        if name in ('csc_matrix', 'csr_matrix', 'csr_array', 'csc_array'):
            return (f"sps.{name}(({lit(M.data)}, np.array({M.indices.tolist()!r}), np.array({M.indptr.tolist()!r})), "
                    f"shape={M.shape!r})")
        return f"sps.{name}({lit(M.toarray())})"
    if isinstance(M, np.ndarray) and M.flags.f_contiguous and not M.flags.c_contiguous:
        return f"np.asfortranarray({lit(M)})"
    return lit(M)


def same_values(M, D0):
    """The operand still holds the values it had (D0 = dense copy taken before the call)."""
    D = dense_of(M)
    return D.shape == D0.shape and D.dtype == D0.dtype and np.array_equal(D, D0)


def orth(n, rng, cplx=False):
    X = rng.standard_normal((n, n)) + (1j * rng.standard_normal((n, n)) if cplx else 0)
    Q, R = np.linalg.qr(X)
    return Q


def partitions_all(n):
    """Every split of range(n) in a free and a prescribed set (both may be empty)."""
    for mask in range(2 ** n):
        f = np.array([i for i in range(n) if (mask >> i) & 1], dtype=int)
        p = np.array([i for i in range(n) if not (mask >> i) & 1], dtype=int)
        yield f, p
