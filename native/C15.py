"""C15 bounded stand-ins: every public DyadCarrier operation, and bounded sequences of them, against dense numpy mirrors.

Every case is a small Python *program text*: set-up lines build carriers `d*` together with dense mirrors `m*` (sum of outer products
computed by `osum`, never through the carrier), operation lines apply the same operation to the carrier and to the mirror, and `verify`
compares value / shape / real-complex kind of every result, checks that no operand (carrier, dense, sparse, index array, or the
caller's source vectors) changed, and finally zeroes a row and a column of every carrier result to show that it shares no storage with an
operand. The program text is executed here and is at the same time the replay file. Data are small integers (exact in floating point).

Findings of the unchanged tree that are kept visible (tagged, never skipped):
  C15-getitem-empty        d[i, :], d[:, j], d[ar, ar] on a carrier with zero dyads return the int 0 instead of zeros of the indexed shape
  C15-kind-lost-on-zero    a complex carrier whose dyads all vanish (c*0, c@0, sliced/zeroed and copied ...) reports real, dense stays complex
  C15-iadd-self            d += d / d -= d never terminate (add_dyad appends to the list it iterates over)
  C15-getitem-list-pair    d[[0,1],[1,0]] (python lists) is taken as an outer selection (carrier), dense numpy gives the pairwise entries
  C15-getitem-real-then-complex  d[i, :], d[i, j], d[ar, ar] raise a casting error when an earlier dyad is real and a later one complex (res += in place)
  C15-setitem-all-noop     d[:, :] = 0 changes nothing (neither the row nor the column branch is taken), dense zeroes everything
  C15-contract-multi-dtype contract_multi([real, complex]) allocates the result from mats[0] only and discards imaginary parts
"""
import itertools
import signal
import numpy as np
from native.util import bound, REPLAY_HEAD

HELPER = r'''
import warnings
warnings.filterwarnings('ignore')
import scipy.sparse as sp
D = pym.DyadCarrier


def osum(us, vs, shape):
    """independent dense reference: sum_k u_k (x) v_k; block inputs are first summed over all but their last dimension"""
    M = np.zeros(shape, dtype=np.result_type(np.float64, *[np.asarray(x).dtype for x in list(us) + list(vs)]))
    for u, v in zip(us, vs):
        u = np.atleast_1d(np.asarray(u)); v = np.atleast_1d(np.asarray(v))
        u = u.reshape(-1, u.shape[-1]).sum(0); v = v.reshape(-1, v.shape[-1]).sum(0)
        M = M + u[:, None] * v[None, :]
    return M


def cref(M, B=None, rows=None, cols=None):
    """dense reference of contract: y_p = sum_ij M[rows_p[i], cols_p[j]] B_p[i, j]   (B = None: sum_i M[rows_p[i], cols_p[i]])"""
    if B is not None and sp.issparse(B):
        B = B.toarray()
    bs = None
    if B is not None and B.ndim > 2: bs = B.shape[:-2]
    if rows is not None and rows.ndim > 1: bs = rows.shape[:-1]
    if cols is not None and cols.ndim > 1: bs = cols.shape[:-1]
    def one(p):
        R = np.arange(M.shape[0]) if rows is None else (rows[p] if rows.ndim > 1 else rows)
        C = np.arange(M.shape[1]) if cols is None else (cols[p] if cols.ndim > 1 else cols)
        if B is None:
            return sum(M[i, j] for i, j in zip(R, C)) + 0 * M.dtype.type(0)
        Bp = B[p] if B.ndim > 2 else B
        return sum(M[R[i], C[j]] * Bp[i, j] for i in range(len(R)) for j in range(len(C))) + 0 * M.dtype.type(0) * Bp.dtype.type(0)
    if bs is None:
        return one(())
    dt = np.result_type(M.dtype, np.float64 if B is None else B.dtype)
    out = np.zeros(bs, dtype=dt)
    for p in np.ndindex(*bs):
        out[p] = one(p)
    return out


def snap(x):
    if isinstance(x, D):
        return ('D', tuple(x.shape), str(x.dtype), [a.copy() for a in x.u] + [a.copy() for a in x.v], len(x.u))
    if sp.issparse(x):
        return ('S', x.shape, str(x.dtype), [x.toarray()], x.format)
    if isinstance(x, (list, tuple)):
        return ('L', len(x), '', [np.array(a, copy=True) for a in x], [str(np.asarray(a).dtype) for a in x])
    return ('A', np.shape(x), str(np.asarray(x).dtype), [np.array(x, copy=True)], 0)


def unchanged(x, s):
    t = snap(x)
    return t[:3] == s[:3] and t[4] == s[4] and len(t[3]) == len(s[3]) and all(a.dtype == b.dtype and a.shape == b.shape and np.array_equal(a, b) for a, b in zip(t[3], s[3]))


def cmp(got, want):
    """clauses of 'equals the dense result, with its shape and real/complex kind' violated by got (carrier, array or scalar)"""
    isd = isinstance(got, D)
    try:
        X = got.todense() if isd else np.asarray(got)
    except Exception as e:
        return ['todense() raises %s: %s' % (type(e).__name__, str(e)[:100])]
    W = np.asarray(want)
    if X.shape != W.shape:
        return ['shape: got %s, dense gives %s' % (X.shape, W.shape)]
    bad = []
    if isd and (tuple(got.shape) != W.shape or got.size != W.size or not np.array_equal(got.toarray(), X)):
        bad.append('shape: attribute %s / size / toarray disagree with todense' % (got.shape,))
    tol = 1e-12 * max(1.0, float(np.abs(W).max()) if W.size else 1.0)
    if not (np.all(np.isfinite(X)) and np.allclose(X, W, rtol=0, atol=tol)):
        bad.append('values')
    gc, wc = bool(np.iscomplexobj(X)), bool(np.iscomplexobj(W))
    if isd and bool(got.iscomplex()) != gc:
        bad.append('kind: iscomplex() disagrees with todense().dtype')
    if gc != wc:
        bad.append('kind: got %s, dense gives %s' % ('complex' if gc else 'real', 'complex' if wc else 'real'))
    return bad


def probe_result(x):
    if isinstance(x, D) and x.shape[0] > 0 and x.shape[1] > 0:
        x[:1, :] = 0.0
        x[:, :1] = 0.0


def verify(ns, results, operands, snaps, probe=True, compare=True):
    """results: [(name of result, name of dense reference)]; operands: [(carrier name, mirror name or None)] or plain names of dense objects"""
    fails = []
    for g, w in (results if compare else []):
        for b in cmp(ns[g], ns[w]):
            fails.append((g, b))
    def ops(tag):
        for o in operands:
            nm, mir = o if isinstance(o, tuple) else (o, None)
            if not unchanged(ns[nm], snaps[nm]):
                fails.append((nm, 'operand changed' + tag))
            elif mir is not None:
                for b in cmp(ns[nm], ns[mir]):
                    fails.append((nm, 'operand no longer equals its dense mirror' + tag + ' / ' + b))
    ops('')
    if probe:
        skip = {o[0] if isinstance(o, tuple) else o for o in operands}
        for g, w in results:
            if g not in skip:
                probe_result(ns[g])
        ops(' after zeroing a row and a column of the result (shared storage)')
    return fails


def take_snaps(ns, operands):
    return {(o[0] if isinstance(o, tuple) else o): snap(ns[o[0] if isinstance(o, tuple) else o]) for o in operands}
'''

PRE = REPLAY_HEAD + HELPER
_BASE = {}
exec(compile(PRE, '<C15 helper>', 'exec'), _BASE)

F_EMPTY = 'C15-getitem-empty'
F_KIND = 'C15-kind-lost-on-zero'
F_SELF = 'C15-iadd-self'
F_LIST = 'C15-getitem-list-pair'
F_MULTI = 'C15-contract-multi-dtype'
F_GETMIX = 'C15-getitem-real-then-complex'
F_SETALL = 'C15-setitem-all-noop'
KIND_LOST = 'kind: got real, dense gives complex'


class Deferred:
    """finding-tagged failures are emitted after the ordinary ones (at most 2 per id), so that they can never crowd out a new failure"""
    def __init__(self, r):
        self.r, self.late = r, {}
        watchdog.hits = 0

    def case(self, key):
        self.r.case(key)

    def fail(self, what, inputs, observed, replay, finding=None):
        if finding:
            self.late.setdefault(finding, [])
            if len(self.late[finding]) < 2:
                self.late[finding].append((what, inputs, observed, replay))
        else:
            self.r.check(False, what, inputs, observed, None, replay_code=replay)

    def flush(self):
        for fid, lst in self.late.items():
            for what, inputs, observed, replay in lst[:1]:
                self.r.check(False, what, inputs, observed, None, replay_code=replay, finding=fid)


class Timeout(Exception):
    pass


def _alarm(*_):
    raise Timeout()


class watchdog:
    """every executed operation runs under a timer: a carrier operation that appends to the list it iterates over never returns"""
    hits = 0

    def __init__(self, seconds):
        self.seconds = seconds

    def __enter__(self):
        self.old = signal.signal(signal.SIGVTALRM, _alarm)
        signal.setitimer(signal.ITIMER_VIRTUAL, self.seconds)

    def __exit__(self, typ, val, tb):
        signal.setitimer(signal.ITIMER_VIRTUAL, 0)
        signal.signal(signal.SIGVTALRM, self.old)
        if typ is Timeout and self.seconds > 1:
            watchdog.hits += 1
        return False


def run(q, key, setup, op, results, operands, what, hint=None, probe=True, guard=False):
    """execute one program; hint: {clause prefix: finding id} for a known defect region of this very case"""
    q.case(key)
    opnames = repr(operands)
    body = setup + "\n_ops = " + opnames + "\n_snaps = take_snaps(globals(), _ops)\n" + op + "\n"
    tail = f"_fails = verify(globals(), {results!r}, _ops, _snaps, probe={probe})\nprint(_fails)\nassert not _fails, _fails\n"
    replay = PRE + body + tail
    if guard:
        replay = PRE + "import signal\ndef _h(*a): raise AssertionError('operation did not terminate within 2 s of CPU time')\nsignal.signal(signal.SIGVTALRM, _h); signal.setitimer(signal.ITIMER_VIRTUAL, 2.0)\n" + body + "signal.setitimer(signal.ITIMER_VIRTUAL, 0)\n" + tail
    ns = dict(_BASE)
    hint = hint or {}
    try:
        exec(setup, ns)
        ns['_snaps'] = ns['take_snaps'](ns, operands)
    except Exception as e:
        q.fail(f'{what}: set-up raises {type(e).__name__}: {str(e)[:120]}', key, None, replay)
        return None
    if watchdog.hits >= 6 and not guard:
        q.fail(f'{what}: not executed, 6 earlier operations did not terminate', key, None, replay)
        return None
    try:
        with watchdog(0.1 if guard else 2.0):
            exec(op, ns)
    except Timeout:
        q.fail(f'{what}: does not terminate', key, 'no result after %s s of CPU time (list grows without bound)' % (0.1 if guard else 2.0), replay, finding=hint.get('hang'))
        return None
    except Exception as e:
        q.fail(f'{what}: raises {type(e).__name__}: {str(e)[:160]}', key, None, replay, finding=hint.get('raise'))
        return None
    try:
        fails = ns['verify'](ns, results, operands, ns['_snaps'], probe)
    except Exception as e:
        fails = [('?', f'comparison raises {type(e).__name__}: {str(e)[:160]}')]
    for nm, b in fails:
        fid = None
        for pre, f in hint.items():
            if b.startswith(pre):
                fid = f
        # the known region: every complex dyad vanished, the carrier reports real while the dense result is a complex array with zero imaginary part
        if fid is None and b.endswith(KIND_LOST) and all(c.endswith(KIND_LOST) for n2, c in fails if n2 == nm):
            fid = F_KIND
        q.fail(f'{what}: {b}', dict(case=key, var=nm), None, replay, finding=fid)
    return ns


def run_many(q, setup, operands, items, probe=True):
    """items: (key, op, results, what, hint) programs sharing one set-up and none of which modifies an operand. They are executed in one namespace; whenever anything is
    wrong the items are re-run one by one through run(), which attributes the failure and produces the stand-alone replay."""
    ns = dict(_BASE)
    bad = set()
    try:
        exec(setup, ns)
        snaps = ns['take_snaps'](ns, operands)
        for k, (key, op, results, what, hint) in enumerate(items):
            try:
                with watchdog(2.0):
                    exec(op, ns)
                if any(ns['cmp'](ns[g], ns[w]) for g, w in results):
                    bad.add(k)
                elif probe:
                    for g, w in results:
                        ns['probe_result'](ns[g])
            except Timeout:
                bad = set(range(len(items)))
                break
            except Exception:
                bad.add(k)
        if ns['verify'](ns, [], operands, snaps, probe=False):
            bad = set(range(len(items)))
    except Exception:
        bad = set(range(len(items)))
    for k, (key, op, results, what, hint) in enumerate(items):
        if k in bad:
            run(q, key, setup, op, results, operands, what, hint=hint, probe=probe)
        else:
            q.case(key)


# ------------------------------------------------------------------------------------------------------------------ data
def lit(a):
    a = np.asarray(a)
    return f"np.array({a.tolist()!r}, dtype='{a.dtype}')" if a.size else f"np.zeros({a.shape!r}, dtype='{a.dtype}')"


def vec(rng, n, k):
    a = rng.integers(-3, 4, n)
    if k == 'i':
        return a.astype(np.int64)
    if k == 'f':
        return a.astype(np.float64)
    if k == 'g':
        return a.astype(np.float32)
    return a + 1j * rng.integers(-3, 4, n)


def mat(rng, shape, k):
    return vec(rng, int(np.prod(shape)), k).reshape(shape)


PATTERNS = {'ff': ['ff'], 'cc': ['cc'], 'fc': ['fc'], 'cf': ['cf'], 'ii': ['ii'], 'ic': ['ic'], 'mix': ['ff', 'cf', 'fc'], 'gf': ['gf']}


def carrier(rng, i, shape, nd, pat, give_shape=None, zero_at=None):
    """source text defining _u{i}, _v{i} (caller's arrays), d{i} (carrier) and m{i} (dense mirror)"""
    m, n = shape
    us, vs = [], []
    for k in range(nd):
        ku, kv = PATTERNS[pat][k % len(PATTERNS[pat])]
        u, v = vec(rng, m, ku), vec(rng, n, kv)
        if not np.any(u):
            u[0] = 1
        if not np.any(v):
            v[-1] = 2
        if zero_at == k:
            v = v * 0
        us.append(u); vs.append(v)
    if give_shape is None:
        give_shape = nd == 0 or bool(rng.integers(0, 2))
    sh = f", shape=({m}, {n})" if give_shape else ""
    return (f"_u{i} = [{', '.join(lit(u) for u in us)}]\n_v{i} = [{', '.join(lit(v) for v in vs)}]\n"
            f"d{i} = D(_u{i}, _v{i}{sh})\nm{i} = osum(_u{i}, _v{i}, ({m}, {n}))\n")


def shapes(tier):
    return [(1, 1), (1, 4), (3, 1), (3, 3), (2, 4)] if tier == 'quick' else [(1, 1), (1, 4), (3, 1), (3, 3), (2, 4), (5, 2), (4, 4), (2, 2)]


def pats(tier):
    return ['ff', 'cc', 'fc', 'cf', 'ii', 'mix'] if tier == 'quick' else ['ff', 'cc', 'fc', 'cf', 'ii', 'ic', 'mix', 'gf']


def configs(tier, nds=(0, 1, 2, 3)):
    for sh in shapes(tier):
        for nd in nds:
            for pat in (pats(tier) if nd else ['ff']):
                yield sh, nd, pat


OPS0 = [('d0', 'm0'), '_u0', '_v0']


# ---------------------------------------------------------------------------------------------------------------- checks
@bound('shapes {1x1,1x4,3x1,3x3,2x4} (+{5x2,4x4,2x2} thorough); construction from lists, tuples, a bare vector, u only, python lists, 0-d scalars, '
       '2-D/3-D blocks (also mixed with vectors), explicit shape with zero dyads, zero vectors among the dyads, float32/int/complex mixtures, '
       'repeated add_dyad calls with and without fac on one carrier, caller overwriting its arrays afterwards')
def construction(r, tier, seed):
    q = Deferred(r)
    rng = np.random.default_rng(seed + 150)
    for sh, nd, pat in configs(tier):
        for give in (False, True):
            if nd == 0 and not give:
                continue
            s = carrier(rng, 0, sh, nd, pat, give_shape=give)
            # the carrier equals its mirror, and stays so when the caller re-uses the vectors it passed in
            op = "c1 = d0.copy()\nfor a in _u0 + _v0:\n    a *= 3\nc2 = d0.copy()\n"
            run(q, ('lists', sh, nd, pat, give), s, op, [('d0', 'm0'), ('c1', 'm0'), ('c2', 'm0')], [], 'DyadCarrier(u, v) with the caller re-using its vectors afterwards')
            if nd >= 1:
                s2 = s + "t0 = D(tuple(_u0), tuple(_v0))\n"
                run(q, ('tuple', sh, nd, pat), s2, "", [('t0', 'm0')], [('t0', 'm0'), '_u0', '_v0'], 'construction from tuples')
                s3 = s + "p0 = D([a.tolist() for a in _u0], [a.tolist() for a in _v0])\n"
                run(q, ('pylists', sh, nd, pat), s3, "", [('p0', 'm0')], ['_u0', '_v0'], 'construction from python lists')
            if nd >= 2:
                for z in range(nd):
                    sz = carrier(rng, 0, sh, nd, pat, give_shape=give, zero_at=z)
                    run(q, ('zero vector', sh, nd, pat, give, z), sz, "c1 = +d0\n", [('d0', 'm0'), ('c1', 'm0')], OPS0, 'a zero vector among the dyads')
    for sh in shapes(tier):
        m, n = sh
        for ku, kv in list(itertools.product('fci', repeat=2)) + [('g', 'f'), ('c', 'g')]:
            u, v = vec(rng, m, ku), vec(rng, n, kv)
            u[0] = 2; v[-1] = 1
            s = f"u = {lit(u)}\nv = {lit(v)}\nd0 = D(u, v)\nm0 = osum([u], [v], ({m}, {n}))\n"
            run(q, ('bare vector', sh, ku, kv), s, "u += 1; v -= 1\n", [('d0', 'm0')], [('d0', 'm0')], 'DyadCarrier(u, v) with bare vectors')
            # blocks: summed over all but the last dimension, cross terms included
            for bu, bv in (((2, m), (2, n)), ((2, m), (3, n)), ((2, 2, m), (n,)), ((m,), (3, 1, n)), ((1, m), (1, n))):
                U, V = mat(rng, bu, ku), mat(rng, bv, kv)
                s = f"U = {lit(U)}\nV = {lit(V)}\nd0 = D(U, V)\nm0 = osum([U], [V], ({m}, {n}))\n"
                run(q, ('block', sh, ku, kv, bu, bv), s, "", [('d0', 'm0')], ['U', 'V', ('d0', 'm0')], 'construction from blocks')
                s = f"U = {lit(U)}\nV = {lit(V)}\nu = {lit(u)}\nv = {lit(v)}\nd0 = D([U, u], [V, v])\nm0 = osum([U, u], [V, v], ({m}, {n}))\n"
                run(q, ('block+vector', sh, ku, kv, bu, bv), s, "", [('d0', 'm0')], ['U', 'V', 'u', 'v', ('d0', 'm0')], 'construction from a list of a block and a vector')
        # symmetric construction (v omitted) and add_dyad histories
        for ku in 'fci':
            u1, u2 = vec(rng, m, ku), vec(rng, m, 'f')
            u1[0] = 1; u2[-1] = -2
            s = f"_u0 = [{lit(u1)}, {lit(u2)}]\n_v0 = []\nd0 = D(_u0)\nm0 = osum(_u0, _u0, ({m}, {m}))\n"
            run(q, ('u only', m, ku), s, "", [('d0', 'm0')], OPS0, 'DyadCarrier(u) means v = u')
        for pat in pats(tier):
            a, b, c = [carrier(rng, i, sh, 1 + i % 2, pat, give_shape=False) for i in range(3)]
            s = a + b + c + "e = D(shape=(%d, %d))\nw = 0 * m0\n" % sh
            op = ("r1 = e.add_dyad(_u0, _v0)\nw = w + m0\nk1 = e.copy()\nw1 = w.copy()\n"
                  "e.add_dyad(_u1, _v1, fac=-2.0)\nw = w - 2.0 * m1\nk2 = e.copy()\nw2 = w.copy()\n"
                  "e.add_dyad(_u2[0], _v2[0], 0.5)\nw = w + 0.5 * osum(_u2[:1], _v2[:1], w.shape)\n"
                  "e.add_dyad(_u0, _v0)\nw = w + m0\n"
                  "e.add_dyad(None)\ne.add_dyad([], [])\nsame = r1 is e\nyes = True\n")
            run(q, ('add_dyad history', sh, pat), s, op, [('e', 'w'), ('k1', 'w1'), ('k2', 'w2'), ('same', 'yes')],
                [('d0', 'm0'), ('d1', 'm1'), ('d2', 'm2'), '_u0', '_v0', '_u1', '_v1', '_u2', '_v2'], 'add_dyad called repeatedly (with fac) on one carrier')
    for a, b in ((2.0, 3.0), (2, 1j), (0.0, 3.0), (-1.5, np.float64(2))):
        s = f"d0 = D({a!r}, {b!r})\nm0 = np.array([[{a!r} * {b!r}]]) + 0.0\n"
        run(q, ('scalars', repr(a), repr(b)), s, "", [('d0', 'm0')], [], 'construction from scalars (1x1)')
    for n in (1, 3):
        v = vec(rng, n, 'f'); v[0] = 1
        s = f"v = {lit(v)}\nd0 = D(2.0, v)\nm0 = 2.0 * v[None, :]\nd1 = D(v, np.array(-1.0))\nm1 = -v[:, None]\n"
        run(q, ('scalar x vector', n), s, "", [('d0', 'm0'), ('d1', 'm1')], ['v'], 'construction from a scalar and a vector')
    q.flush()


SCALARS = ['2', '-0.5', '3.0', '1j', '(2-1j)', '0', '0.0', '0j', 'np.float64(3)', 'np.array(2.0)', 'np.int64(-2)', 'np.complex128(1+1j)', 'np.array(-1j)', 'np.float32(0.5)']

UNARY = [('copy', 'r = d0.copy()', 'w = m0.copy()'), ('pos', 'r = +d0', 'w = +m0'), ('neg', 'r = -d0', 'w = -m0'),
         ('T', 'r = d0.T', 'w = m0.T'), ('transpose', 'r = d0.transpose()', 'w = m0.transpose()'), ('conj', 'r = d0.conj()', 'w = m0.conj()'),
         ('real', 'r = d0.real', 'w = m0.real'), ('imag', 'r = d0.imag', 'w = m0.imag'),
         ('todense', 'r = d0.todense()', 'w = m0'), ('toarray', 'r = d0.toarray()', 'w = m0'),
         ('iscomplex', 'r = bool(d0.iscomplex())', 'w = bool(np.iscomplexobj(m0))'),
         ('shape', 'r = np.array(d0.shape)', 'w = np.array(m0.shape)'), ('size', 'r = d0.size', 'w = m0.size'), ('ndim', 'r = d0.ndim', 'w = m0.ndim'),
         ('add 0', 'r = d0 + 0', 'w = m0 + 0'), ('radd 0', 'r = 0 + d0', 'w = 0 + m0'), ('sub 0', 'r = d0 - 0.0', 'w = m0 - 0.0'), ('rsub 0', 'r = 0 - d0', 'w = 0 - m0'),
         ('sum', 'r = sum([d0, d0, d0])', 'w = 3 * m0'), ('add self', 'r = d0 + d0', 'w = m0 + m0'), ('sub self', 'r = d0 - d0', 'w = m0 - m0'),
         ('T.T', 'r = d0.T.T', 'w = m0'), ('conj.T', 'r = d0.conj().T', 'w = m0.conj().T'), ('real.T', 'r = d0.real.T', 'w = m0.real.T'), ('T.imag', 'r = d0.T.imag', 'w = m0.T.imag'),
         ('neg.conj', 'r = (-d0).conj()', 'w = (-m0).conj()'), ('real+1j*imag', 'r = d0.real + 1j * d0.imag', 'w = m0.real + 1j * m0.imag'),
         ('imag.imag', 'r = d0.imag.imag', 'w = m0.imag.imag'), ('conj.imag', 'r = d0.conj().imag', 'w = -m0.imag'), ('copy.copy', 'r = d0.copy().copy()', 'w = m0')]


@bound('every carrier configuration (shapes x 0..3 dyads x dtype patterns ff, cc, fc, cf, ii, mix [+ic, gf thorough]) x copy, +d, -d, T, transpose, conj, real, imag, '
       'todense, toarray, iscomplex, shape/size, +-0, sum(), d+d, d-d, 9 two-step compositions, diagonal(k) for every k in -(m+1)..n+1, '
       '14 scalars (python/numpy, real/complex, exact zero) from either side')
def unary_scalar(r, tier, seed):
    q = Deferred(r)
    rng = np.random.default_rng(seed + 151)
    for sh, nd, pat in configs(tier):
        s = carrier(rng, 0, sh, nd, pat) + "".join(f"s{i} = {sc}\n" for i, sc in enumerate(SCALARS))
        ops = OPS0 + [f's{i}' for i in range(len(SCALARS))]
        items = [((name, sh, nd, pat), a + "\n" + b + "\n", [('r', 'w')], name, None) for name, a, b in UNARY]
        m, n = sh
        op = "".join(f"r{k + m + 1} = d0.diagonal({k})\nw{k + m + 1} = np.diagonal(m0, {k}) + 0\n" for k in range(-(m + 1), n + 2)) + "r = d0.diagonal()\nw = np.diagonal(m0) + 0\n"
        items.append((('diagonal', sh, nd, pat), op, [(f'r{k}', f'w{k}') for k in range(0, m + n + 3)] + [('r', 'w')], 'diagonal(k)', None))
        for i, sc in enumerate(SCALARS):
            op = f"r1 = s{i} * d0\nw1 = s{i} * m0\nr2 = d0 * s{i}\nw2 = m0 * s{i}\nr3 = (d0 * s{i}) * s{i}\nw3 = m0 * s{i} * s{i}\n"
            items.append((('scalar', sc, sh, nd, pat), op, [('r1', 'w1'), ('r2', 'w2'), ('r3', 'w3')], f'scalar product with {sc}', None))
        run_many(q, s, ops, items)
    q.flush()


@bound('pairs of carriers of one shape: shapes x (n1, n2) in {0,1,2}^2 (+3 thorough) x dtype patterns {ff,cc,fc,ii}^2 [quick] / {ff,cc,fc,cf,ii,mix}^2 [thorough]; d1+d2, d1-d2, +=, -= (result identity, '
       'earlier copies untouched), chains a+b-a, carrier +- dense (full, row-vector, 1 x n and m x 1 shapes broadcast to the carrier; real/complex/int) from either side, d += d under a watchdog')
def binary(r, tier, seed):
    q = Deferred(r)
    rng = np.random.default_rng(seed + 152)
    P = ['ff', 'cc', 'fc', 'ii'] if tier == 'quick' else ['ff', 'cc', 'fc', 'cf', 'ii', 'mix']
    nds = (0, 1, 2) if tier == 'quick' else (0, 1, 2, 3)
    ops2 = [('d0', 'm0'), ('d1', 'm1'), '_u0', '_v0', '_u1', '_v1']
    for sh in shapes(tier):
        for n1, n2 in itertools.product(nds, repeat=2):
            for p1, p2 in itertools.product(P if n1 else ['ff'], P if n2 else ['ff']):
                s = carrier(rng, 0, sh, n1, p1) + carrier(rng, 1, sh, n2, p2)
                key = (sh, n1, n2, p1, p2)
                run(q, ('add/sub',) + key, s, "r1 = d0 + d1\nw1 = m0 + m1\nr2 = d0 - d1\nw2 = m0 - m1\nr3 = d1 - d0\nw3 = m1 - m0\nr4 = d0 + d1 - d0\nw4 = m0 + m1 - m0\nr5 = -(d0 - d1) - d1\nw5 = -(m0 - m1) - m1\n",
                    [('r1', 'w1'), ('r2', 'w2'), ('r3', 'w3'), ('r4', 'w4'), ('r5', 'w5')], ops2, 'd0 + d1, d0 - d1, chains')
                op = ("a = d0.copy()\nwa = m0.copy()\nk0 = a\nc0 = a.copy()\na += d1\nwa = wa + m1\nsame1 = a is k0\nc1 = a.copy()\nw1 = wa.copy()\n"
                      "a -= d0\nwa = wa - m0\nsame2 = a is k0\nc2 = a.copy()\nw2 = wa.copy()\na += d1\nwa = wa + m1\na -= d1\nwa = wa - m1\na -= d1\nwa = wa - m1\nyes = True\n")
                run(q, ('iadd/isub',) + key, s, op, [('a', 'wa'), ('c0', 'm0'), ('c1', 'w1'), ('c2', 'w2'), ('same1', 'yes'), ('same2', 'yes')], ops2, 'in-place += / -= history')
        # carrier with dense operands
        m, n = sh
        for nd, pat in ((0, 'ff'), (1, 'ff'), (2, 'cc'), (2, 'fc'), (1, 'ii'), (3, 'mix')):
            s = carrier(rng, 0, sh, nd, pat)
            items, names = [], []
            for k in 'fci':
                for bs in ((m, n), (n,), (1, n), (m, 1)):   # adding a non-zero scalar is documented as unsupported (exact zero scalars are in unary_scalar)
                    B = f'B{len(names)}'
                    names.append(B)
                    s += f"{B} = {lit(mat(rng, bs, k))}\n"
                    op = f"r1 = d0 + {B}\nw1 = m0 + {B}\nr2 = {B} + d0\nw2 = {B} + m0\nr3 = d0 - {B}\nw3 = m0 - {B}\nr4 = {B} - d0\nw4 = {B} - m0\n"
                    items.append((('dense', sh, nd, pat, k, bs), op, [('r1', 'w1'), ('r2', 'w2'), ('r3', 'w3'), ('r4', 'w4')], 'carrier +- dense array (broadcast to the carrier shape)', None))
            run_many(q, s, OPS0 + names, items)
        for nd, pat in ((1, 'ff'), (2, 'cf')):
            s = carrier(rng, 0, sh, nd, pat)
            run(q, ('iadd self', sh, nd, pat), s, "d0 += d0\nw = 2 * m0\n", [('d0', 'w')], ['_u0', '_v0'], 'd += d', hint={'hang': F_SELF}, guard=True)
            run(q, ('isub self', sh, nd, pat), s, "d0 -= d0\nw = 0 * m0\n", [('d0', 'w')], ['_u0', '_v0'], 'd -= d', hint={'hang': F_SELF}, guard=True)
    q.flush()


@bound('carriers (m x n, 0..3 dyads, patterns ff/cc/fc/cf/ii/mix) times dense A (n x p, p in {1,3}; q x m) and vectors from either side, operands real/complex/int/all-zero, '
       'csr/coo sparse on either side, dot(), __rdot__(), carrier @ carrier (n x p with 0..2 dyads), products of three')
def products(r, tier, seed):
    q = Deferred(r)
    rng = np.random.default_rng(seed + 153)
    for sh, nd, pat in configs(tier):
        m, n = sh
        s0 = carrier(rng, 0, sh, nd, pat)
        s, items, names = s0, [], []
        for k in ('f', 'c', 'i', 'z'):
            for p in (1, 3):
                A = mat(rng, (n, p), k if k != 'z' else 'f') * (0 if k == 'z' else 1)
                L = mat(rng, (p, m), k if k != 'z' else 'c') * (0 if k == 'z' else 1)
                x = vec(rng, n, k if k != 'z' else 'f') * (0 if k == 'z' else 1)
                y = vec(rng, m, k if k != 'z' else 'f') * (0 if k == 'z' else 1)
                t = f'{k}{p}'
                s += f"A{t} = {lit(A)}\nL{t} = {lit(L)}\nx{t} = {lit(x)}\ny{t} = {lit(y)}\n"
                names += [f'A{t}', f'L{t}', f'x{t}', f'y{t}']
                op = ("r1 = d0 @ A\nw1 = m0 @ A\nr2 = L @ d0\nw2 = L @ m0\nr3 = d0 @ x\nw3 = m0 @ x\nr4 = y @ d0\nw4 = y @ m0\n"
                      "r5 = d0.dot(x)\nr6 = d0.dot(A)\nr7 = d0.__rdot__(y)\nr8 = d0.__rdot__(L)\nr9 = L @ d0 @ A\nw9 = L @ m0 @ A\nr10 = (L @ d0) @ x\nw10 = L @ m0 @ x\n")
                for nm in 'ALxy':
                    op = op.replace(f' {nm}\n', f' {nm}{t}\n').replace(f'({nm})', f'({nm}{t})').replace(f' {nm} @', f' {nm}{t} @').replace(f'({nm} @', f'({nm}{t} @')
                items.append((('dense', sh, nd, pat, k, p), op, [('r1', 'w1'), ('r2', 'w2'), ('r3', 'w3'), ('r4', 'w4'), ('r5', 'w3'), ('r6', 'w1'), ('r7', 'w4'), ('r8', 'w2'), ('r9', 'w9'), ('r10', 'w10')],
                              'matrix / vector products from either side', None))
        for k in 'fc':
            A, L = mat(rng, (n, 2), k), mat(rng, (2, m), k)
            for fmt in ('csr', 'coo'):
                t = f'{k}{fmt}'
                s += f"A{t} = sp.{fmt}_matrix({lit(A)})\nL{t} = sp.{fmt}_matrix({lit(L)})\n"
                names += [f'A{t}', f'L{t}']
                items.append((('sparse', sh, nd, pat, k, fmt), f"r1 = d0 @ A{t}\nw1 = m0 @ A{t}.toarray()\nr2 = L{t} @ d0\nw2 = L{t}.toarray() @ m0\n", [('r1', 'w1'), ('r2', 'w2')], 'products with sparse matrices', None))
        run_many(q, s, OPS0 + names, items)
        for n2, p2 in ((0, 'ff'), (1, 'ff'), (2, 'cf'), (2, 'ii')):
            for p in (1, 3):
                s = s0 + carrier(rng, 1, (n, p), n2, p2)
                run(q, ('dyad@dyad', sh, nd, pat, n2, p2, p), s, "r1 = d0 @ d1\nw1 = m0 @ m1\nr2 = d1.T @ d0.T\nw2 = m1.T @ m0.T\nr3 = d0.T @ d0\nw3 = m0.T @ m0\nr4 = d0 @ d0.conj().T\nw4 = m0 @ m0.conj().T\n",
                    [('r1', 'w1'), ('r2', 'w2'), ('r3', 'w3'), ('r4', 'w4')], [('d0', 'm0'), ('d1', 'm1'), '_u0', '_v0', '_u1', '_v1'], 'carrier @ carrier')
    q.flush()


def index_sets(n):
    """(source text, kind) of admissible single-axis subscripts for an axis of length n"""
    out = [('0', 's'), ('-1', 's'), (f'{n - 1}', 's'), ('np.int64(0)', 's'), (':', 'l'), ('1:', 'l'), (':-1', 'l'), ('::2', 'l'), ('::-1', 'l'), ('0:0', 'l'), (f'{n - 1}:{n + 3}', 'l'),
           ('np.array([0])', 'a'), (f'np.array([{n - 1}, 0, 0])', 'a'), ('np.array([-1, 0])', 'a'), ('np.zeros(0, dtype=int)', 'a'),
           (f'np.array({[bool(i % 2 == 0) for i in range(n)]})', 'b'), (f'[{n - 1}, 0]', 't')]
    return out


@bound('carriers (shapes x 0..3 dyads x patterns) indexed by every pair of: ints (0, -1, last, numpy int), slices (:, 1:, :-1, ::2, ::-1, empty, overlong), index arrays (single, '
       'unsorted with repeats, negative, empty), boolean masks, python lists; equal-shape 1-D and 2-D array pairs; zeroing rows or columns by each of them (values 0, 0.0, -0.0, '
       'False, numpy zeros) in sequences with copies taken in between; inadmissible assignments must raise and leave the carrier unchanged')
def indexing(r, tier, seed):
    q = Deferred(r)
    rng = np.random.default_rng(seed + 154)
    for sh, nd, pat in configs(tier):
        m, n = sh
        if tier == 'quick' and pat in ('cf', 'ii') and nd == 3:
            continue
        s = carrier(rng, 0, sh, nd, pat)
        items = []
        for (I, ki), (J, kj) in itertools.product(index_sets(m), index_sets(n)):
            if ki in 'abt' and kj in 'abt':
                continue   # pairs of arrays are taken below with equal shapes
            hint = None
            if nd == 0 and ('s' in (ki, kj)):
                hint = {'shape': F_EMPTY}
            if nd >= 2 and pat == 'mix' and ('s' in (ki, kj)):
                hint = {'raise': F_GETMIX}
            items.append((('get', sh, nd, pat, I, J), f"r = d0[{I}, {J}]\nw = m0[{I}, {J}]\n", [('r', 'w')], f'd[{I}, {J}]', hint))
        run_many(q, s, OPS0, items)
        pairs = [('np.array([0])', 'np.array([0])'), (f'np.array([{m - 1}, 0, 0])', f'np.array([0, {n - 1}, 0])'), (f'np.array([-1, 0])', 'np.array([0, -1])'),
                 (f'np.array([[0, {m - 1}], [0, 0]])', f'np.array([[{n - 1}, 0], [0, {n - 1}]])'), ('np.zeros(0, dtype=int)', 'np.zeros(0, dtype=int)')]
        sp_ = s + "".join(f"I{t} = {I}\nJ{t} = {J}\n" for t, (I, J) in enumerate(pairs))
        run_many(q, sp_, OPS0 + [f'{c}{t}' for t in range(len(pairs)) for c in 'IJ'],
                 [(('get pair', sh, nd, pat, I, J), f"r = d0[I{t}, J{t}]\nw = m0[I{t}, J{t}]\n", [('r', 'w')], f'd[{I}, {J}]', {'shape': F_EMPTY} if nd == 0 else ({'raise': F_GETMIX} if nd >= 2 and pat == 'mix' else None)) for t, (I, J) in enumerate(pairs)])
        run(q, ('get list pair', sh, nd, pat), s, f"r = d0[[{m - 1}, 0], [0, {n - 1}]]\nw = m0[[{m - 1}, 0], [0, {n - 1}]]\n", [('r', 'w')], OPS0, 'd[list, list]',
            hint={'shape': F_EMPTY if nd == 0 else F_LIST, 'values': F_LIST})
        # zeroing of rows / columns, as a history on one carrier with copies in between
        zs = ['0', '0.0', '-0.0', 'np.float64(0)', 'np.int64(0)', 'False']
        for t, ((I, ki), (J, kj)) in enumerate(itertools.product(index_sets(m), index_sets(n))):
            if (t + m + nd) % 7 and tier == 'quick':
                continue
            z = zs[t % len(zs)]
            op = (f"c0 = d0.copy()\nd0[{I}, :] = {z}\nw1 = m0.copy()\nw1[{I}, :] = 0\nc1 = d0.copy()\nk1 = d0[:, :]\nd0[:, {J}] = {z}\nw2 = w1.copy()\nw2[:, {J}] = 0\n"
                  f"c2 = d0.copy()\nd0[{I}, :] = {z}\nt2 = d0.T\nw2t = w2.T\n")
            run(q, ('set', sh, nd, pat, I, J, z), s, op, [('d0', 'w2'), ('c0', 'm0'), ('c1', 'w1'), ('k1', 'w1'), ('c2', 'w2'), ('t2', 'w2t')], ['_u0', '_v0'], f'd[{I}, :] = 0; d[:, {J}] = 0',
                hint={'values': F_SETALL, 'operand': F_SETALL} if ':' in (I, J) else None)
        # assignments the class documents as impossible must raise and change nothing
        for stmt in ("d0[0, 0] = 0.0", "d0[0:1, 0:1] = 0.0", "d0[0, :] = 1.0", "d0[:, 0] = 2.0"):
            op = f"try:\n    {stmt}\n    raised = False\nexcept (ValueError, IndexError):\n    raised = True\nyes = True\n"
            run(q, ('set refused', sh, nd, pat, stmt), s, op, [('raised', 'yes')], OPS0, f'{stmt} must raise', probe=False)
    q.flush()


@bound('carriers (shapes x 0..3 dyads x patterns) contracted with: nothing (trace; equal-length rows/cols), dense B (int/real/complex), csr/coo/csc B, 1-D rows and/or cols '
       '(unsorted, repeated, length 1), batches of B (P x m x n, P x Q x m x n, P = 1), batched rows / cols with plain or batched B (the FE sensitivity form), keyword and positional '
       'arguments; contract_multi with coo/csr/dense/None entries and explicit dtype; inconsistent batch sizes must raise')
def contraction(r, tier, seed):
    q = Deferred(r)
    rng = np.random.default_rng(seed + 155)
    for sh, nd, pat in configs(tier):
        m, n = sh
        s0 = carrier(rng, 0, sh, nd, pat)
        res, lines = [], []

        def add(call, ref):
            k = len(res)
            lines.append(f"r{k} = d0.{call}\nw{k} = {ref}\n")
            res.append((f'r{k}', f'w{k}'))
        R1 = rng.integers(0, m, 3); C1 = rng.integers(0, n, 3)
        R0 = rng.integers(0, m, 1); C2 = rng.permutation(n)[:2] if n >= 2 else np.array([0, 0])
        RB = rng.integers(0, m, (4, 2)); CB = rng.integers(0, n, (4, 3)); RBB = rng.integers(0, m, (2, 3, 2)); CBn = rng.integers(0, n, (4, 2))
        defs = f"R1 = {lit(R1)}\nC1 = {lit(C1)}\nR0 = {lit(R0)}\nC2 = {lit(C2)}\nRB = {lit(RB)}\nCB = {lit(CB)}\nRBB = {lit(RBB)}\nCBn = {lit(CBn)}\nRn = np.tile(np.arange({m})[::-1], (4, 1))\n"
        names = ['R1', 'C1', 'R0', 'C2', 'RB', 'CB', 'RBB', 'CBn', 'Rn']
        if m == n:
            add("contract()", "cref(m0)")
            add("contract(None, None, None)", "cref(m0)")
            add("contract(rows=Rn)", "cref(m0, None, Rn)")
        add("contract(None, R1, C1)", "cref(m0, None, R1, C1)")
        add("contract(rows=R1, cols=C1)", "cref(m0, None, R1, C1)")
        add("contract(rows=RB, cols=CBn)", "cref(m0, None, RB, CBn)")
        for k in 'fci':
            tag = 'B' + k
            defs += (f"{tag} = {lit(mat(rng, (m, n), k))}\n{tag}r = {lit(mat(rng, (3, n), k))}\n{tag}c = {lit(mat(rng, (m, 2), k))}\n{tag}rc = {lit(mat(rng, (3, 2), k))}\n{tag}1 = {lit(mat(rng, (1, n), k))}\n"
                     f"{tag}b = {lit(mat(rng, (4, m, n), k))}\n{tag}bb = {lit(mat(rng, (2, 3, m, n), k))}\n{tag}b1 = {lit(mat(rng, (1, m, n), k))}\n{tag}2n = {lit(mat(rng, (2, n), k))}\n"
                     f"{tag}b2n = {lit(mat(rng, (4, 2, n), k))}\n{tag}m3 = {lit(mat(rng, (m, 3), k))}\n{tag}b23 = {lit(mat(rng, (4, 2, 3), k))}\n{tag}bbb = {lit(mat(rng, (2, 3, 2, n), k))}\n{tag}23 = {lit(mat(rng, (2, 3), k))}\n")
            names += [tag + x for x in ('', 'r', 'c', 'rc', '1', 'b', 'bb', 'b1', '2n', 'b2n', 'm3', 'b23', 'bbb', '23')]
            add(f"contract({tag})", f"cref(m0, {tag})")
            add(f"contract(mat={tag})", f"cref(m0, {tag})")
            add(f"contract({tag}r, R1)", f"cref(m0, {tag}r, R1)")
            add(f"contract({tag}c, cols=C2)", f"cref(m0, {tag}c, None, C2)")
            add(f"contract({tag}rc, R1, C2)", f"cref(m0, {tag}rc, R1, C2)")
            add(f"contract({tag}1, rows=R0)", f"cref(m0, {tag}1, R0)")
            add(f"contract({tag}b)", f"cref(m0, {tag}b)")
            add(f"contract({tag}bb)", f"cref(m0, {tag}bb)")
            add(f"contract({tag}b1)", f"cref(m0, {tag}b1)")
            add(f"contract({tag}2n, RB)", f"cref(m0, {tag}2n, RB)")
            add(f"contract({tag}b2n, RB)", f"cref(m0, {tag}b2n, RB)")
            add(f"contract({tag}m3, cols=CB)", f"cref(m0, {tag}m3, None, CB)")
            add(f"contract({tag}b23, RB, CB)", f"cref(m0, {tag}b23, RB, CB)")
            add(f"contract({tag}23, RB, CB)", f"cref(m0, {tag}23, RB, CB)")
            add(f"contract({tag}b23, RB, C1)", f"cref(m0, {tag}b23, RB, C1)")
            add(f"contract({tag}bbb, RBB)", f"cref(m0, {tag}bbb, RBB)")
            if k != 'i':
                for fmt in ('csr', 'coo', 'csc'):
                    add(f"contract(sp.{fmt}_matrix({tag}))", f"cref(m0, {tag})")
                add(f"contract(sp.csr_matrix({tag}rc), R1, C2)", f"cref(m0, {tag}rc, R1, C2)")
                add(f"contract(sp.coo_matrix({tag}r), rows=R1)", f"cref(m0, {tag}r, R1)")
        s = s0 + defs
        run_many(q, s, OPS0 + names, [(('contract', sh, nd, pat, line.split('\n')[0]), line, [rs], line.split('\n')[0], None) for line, rs in zip(lines, res)], probe=False)
        # contract_multi
        for k in 'fc':
            tag = 'B' + k
            op = (f"S = [sp.coo_matrix({tag}), None, sp.csr_matrix({tag}.conj() * 2), {tag}, sp.coo_matrix(({m}, {n}))]\nr = d0.contract_multi(S)\n"
                  f"w = np.array([cref(m0, {tag}), 0, cref(m0, {tag}.conj() * 2), cref(m0, {tag}), 0]) + 0 * m0.dtype.type(0)\n"
                  f"r2 = d0.contract_multi(S[:1], dtype=complex)\nw2 = np.array([cref(m0, {tag})]) + 0j\n")
            run(q, ('contract_multi', sh, nd, pat, k), s, op, [('r', 'w'), ('r2', 'w2')], OPS0 + names, 'contract_multi', probe=False)
        op = "S = [sp.coo_matrix(Bf), sp.coo_matrix(Bc)]\nr = d0.contract_multi(S)\nw = np.array([cref(m0, Bf), cref(m0, Bc)])\n"
        run(q, ('contract_multi real then complex', sh, nd, pat), s, op, [('r', 'w')], OPS0 + names, 'contract_multi([real, complex])', probe=False,
            hint=None if any('c' in PATTERNS[pat][k % len(PATTERNS[pat])] for k in range(nd)) else {'values': F_MULTI, 'kind': F_MULTI})
        for bad in ("contract(Bfb, rows=np.zeros((3, 2), dtype=int))", "contract(Bfb, cols=np.zeros((5, 2), dtype=int))"):
            op = f"try:\n    d0.{bad}\n    raised = False\nexcept ValueError:\n    raised = True\nyes = True\n"
            run(q, ('contract refused', sh, nd, pat, bad), s, op, [('raised', 'yes')], OPS0 + names, f'{bad} must raise', probe=False)
    q.flush()


@bound('carriers without a shape (DyadCarrier() and copies, transposes, negations, multiples of it): neutral in + - += -= with shaped carriers of 1-2 dyads on either side, '
       'todense() is 0x0, contract() is 0, diagonal() is empty, n_dyads is 0')
def unshaped(r, tier, seed):
    q = Deferred(r)
    rng = np.random.default_rng(seed + 156)
    forms = ['D()', 'D().copy()', 'D().T', '-D()', '2 * D()', 'D() * 1j', 'D().conj()', 'D().real', 'D().imag', 'D() + D()', 'D() - D()', 'D()[:, :]', 'D(None, None)', 'D([], [])']
    for sh, nd, pat in configs(tier, nds=(1, 2)):
        s0 = carrier(rng, 0, sh, nd, pat)
        for f in forms:
            s = s0 + f"e = {f}\nz = np.zeros((0, 0))\n"
            op = ("r1 = d0 + e\nr2 = e + d0\nr3 = d0 - e\nr4 = e - d0\nw4 = -m0\na = d0.copy()\na += e\na -= e\nb = e.copy()\nb += d0\nc = e.copy()\nc -= d0\n"
                  "t = e.todense()\nk = e.contract()\nzero = 0.0\ng = e.diagonal()\nz1 = np.zeros(0)\nn0 = e.n_dyads\ni0 = 0\n")
            run(q, ('neutral', sh, nd, pat, f), s, op, [('r1', 'm0'), ('r2', 'm0'), ('r3', 'm0'), ('r4', 'w4'), ('a', 'm0'), ('b', 'm0'), ('c', 'w4'), ('t', 'z'), ('k', 'zero'), ('g', 'z1'), ('n0', 'i0')],
                OPS0, f'{f} is neutral')
    q.flush()


@bound('random programs over a pool of carriers and dense mirrors: 150 programs x 8 steps [quick] / 1500 x 12 [thorough]; steps drawn from + - neg copy T conj real imag, scalar '
       'products, += -=, zeroing rows/columns, slicing, products with dense matrices and other carriers (at most 3 products per program), the caller overwriting a source vector; '
       'after every step every pool member is compared with its mirror and finally contracted/diagonalised')
def programs(r, tier, seed):
    q = Deferred(r)
    nprog, depth = (150, 8) if tier == 'quick' else (1500, 12)
    for pi in range(nprog):
        if watchdog.hits >= 6:
            break
        rng = np.random.default_rng([seed, 157, pi])
        m, n = [(3, 3), (2, 4), (4, 2), (1, 3), (3, 1)][pi % 5]
        P = ['ff', 'cc', 'fc', 'cf', 'ii', 'mix']
        src = ""
        pool = []   # (carrier name, mirror name, shape)
        for i in range(3):
            sh = (m, n) if i < 2 else (n, m)
            src += carrier(rng, i, sh, int(rng.integers(0, 4)), P[int(rng.integers(0, len(P)))])
            pool.append((f'd{i}', f'm{i}', sh))
        srcs = ['_u0', '_v0', '_u1', '_v1', '_u2', '_v2']
        ns = dict(_BASE)
        exec(src, ns)
        nmat = 0
        ok = True
        for step in range(depth):
            k = len(pool)
            a, ma, sa = pool[int(rng.integers(0, k))]
            same = [p for p in pool if p[2] == sa and p[0] != a]
            right = [p for p in pool if p[2][0] == sa[1]]
            new, mnew = f'd{k + 3 * step + 10}', f'm{k + 3 * step + 10}'
            c = int(rng.integers(0, 16))
            sc = ['2', '-1', '0.5', '1j', '(1-1j)', '0', '-2.0'][int(rng.integers(0, 7))]
            line, add = None, None
            if c == 0 and same:
                b, mb, _ = same[int(rng.integers(0, len(same)))]
                line, add = f"{new} = {a} + {b}\n{mnew} = {ma} + {mb}\n", sa
            elif c == 1 and same:
                b, mb, _ = same[int(rng.integers(0, len(same)))]
                line, add = f"{new} = {a} - {b}\n{mnew} = {ma} - {mb}\n", sa
            elif c == 2:
                u = [('-{}', '-{}'), ('{}.copy()', '{}.copy()'), ('+{}', '+{}'), ('{}.conj()', '{}.conj()'), ('{}.real', '{}.real + 0'), ('{}.imag', '{}.imag + 0')][int(rng.integers(0, 6))]
                line, add = f"{new} = {u[0].format(a)}\n{mnew} = {u[1].format(ma)}\n", sa
            elif c == 3:
                line, add = f"{new} = {a}.T\n{mnew} = {ma}.T.copy()\n", (sa[1], sa[0])
            elif c == 4:
                line, add = f"{new} = {sc} * {a}\n{mnew} = {sc} * {ma}\n", sa
            elif c == 5:
                line, add = f"{new} = {a} * {sc}\n{mnew} = {ma} * {sc}\n", sa
            elif c == 6 and same:
                b, mb, _ = same[int(rng.integers(0, len(same)))]
                line = f"{a} += {b}\n{ma} = {ma} + {mb}\n"
            elif c == 7 and same:
                b, mb, _ = same[int(rng.integers(0, len(same)))]
                line = f"{a} -= {b}\n{ma} = {ma} - {mb}\n"
            elif c == 8:
                I = ['0', '-1', '1:', '::2', 'np.array([0, 0])', f'np.array([{sa[0] - 1}])'][int(rng.integers(0, 6))]
                line = f"{a}[{I}, :] = 0\n{ma} = {ma}.copy()\n{ma}[{I}, :] = 0\n"
            elif c == 9:
                J = ['0', '-1', ':1', '::-2', 'np.array([0, -1])', f'np.array([{sa[1] - 1}])'][int(rng.integers(0, 6))]
                line = f"{a}[:, {J}] = 0.0\n{ma} = {ma}.copy()\n{ma}[:, {J}] = 0\n"
            elif c == 10:
                I = [':', '::-1', '1:', f'np.array([{sa[0] - 1}, 0, 0])', ':-1'][int(rng.integers(0, 5))]
                J = [':', '::2', f'np.array([0, {sa[1] - 1}])', '-1:', '::-1'][int(rng.integers(0, 5))]
                if not (I.startswith('np') and J.startswith('np')):
                    sub = np.zeros(sa)[eval(f'np.s_[{I}, {J}]', {'np': np})].shape
                    line, add = f"{new} = {a}[{I}, {J}]\n{mnew} = {ma}[{I}, {J}].copy()\n", sub
            elif c == 11 and nmat < 3:
                p = int(rng.integers(1, 4))
                A = mat(rng, (sa[1], p), 'fci'[int(rng.integers(0, 3))])
                line, add = f"A{step} = {lit(A)}\n{new} = {a} @ A{step}\n{mnew} = {ma} @ A{step}\n", (sa[0], p)
                nmat += 1
            elif c == 12 and nmat < 3:
                p = int(rng.integers(1, 4))
                A = mat(rng, (p, sa[0]), 'fc'[int(rng.integers(0, 2))])
                line, add = f"A{step} = {lit(A)}\n{new} = A{step} @ {a}\n{mnew} = A{step} @ {ma}\n", (p, sa[1])
                nmat += 1
            elif c == 13 and nmat < 3 and right:
                b, mb, sb = right[int(rng.integers(0, len(right)))]
                line, add = f"{new} = {a} @ {b}\n{mnew} = {ma} @ {mb}\n", (sa[0], sb[1])
                nmat += 1
            elif c == 14:
                sv = srcs[int(rng.integers(0, len(srcs)))]
                line = f"for _a in {sv}:\n    _a *= -2\n"
            elif c == 15 and same:
                b, mb, _ = same[int(rng.integers(0, len(same)))]
                line, add = f"{new} = {a} + {ma} - {b}\n{mnew} = {ma} + {ma} - {mb}\n", None
            if line is None:
                continue
            src += line
            if add is not None and len(pool) < 9 and min(add) >= 1:
                pool.append((new, mnew, add))
            q.case((pi, step, c))
            names = [(p[0], p[1]) for p in pool] + ([(new, mnew)] if add is None and line.startswith(new) else [])
            tail = f"_fails = [(g, b) for g, w in {names!r} for b in cmp(globals()[g], globals()[w])]\nprint(_fails)\nassert not _fails, _fails\n"
            try:
                with watchdog(2.0):
                    exec(line, ns)
                fails = [(g, b) for g, w in names for b in ns['cmp'](ns[g], ns[w])]
            except Timeout:
                fails = [(a, 'does not terminate (no result after 2 s)')]
            except Exception as e:
                fails = [(a, f'raises {type(e).__name__}: {str(e)[:120]}')]
            for g, b in fails:
                q.fail(f'program step `{line.splitlines()[-2] if len(line.splitlines()) > 1 else line.strip()}`: {g}: {b}', dict(program=pi, step=step), None, PRE + src + tail,
                       finding=F_KIND if b == KIND_LOST else None)
            if fails:
                ok = False
                break
        if ok:
            fin = ""
            res = []
            for j, (dn, mn, sh) in enumerate(pool):
                fin += f"B{j} = {lit(mat(rng, sh, 'fc'[j % 2]))}\nf{j} = {dn}.contract(B{j})\ng{j} = cref({mn}, B{j})\nh{j} = {dn}.diagonal(-1 if {sh[0]} > 1 else 0)\ni{j} = np.diagonal({mn}, -1 if {sh[0]} > 1 else 0) + 0\n"
                res += [(f'f{j}', f'g{j}'), (f'h{j}', f'i{j}'), (dn, mn)]
            tail = f"_fails = [(g, b) for g, w in {res!r} for b in cmp(globals()[g], globals()[w])]\nprint(_fails)\nassert not _fails, _fails\n"
            q.case((pi, 'final'))
            try:
                exec(fin, ns)
                fails = [(g, b) for g, w in res for b in ns['cmp'](ns[g], ns[w])]
            except Exception as e:
                fails = [('final', f'raises {type(e).__name__}: {str(e)[:120]}')]
            for g, b in fails:
                q.fail(f'after program: {g}: {b}', dict(program=pi), None, PRE + src + fin + tail, finding=F_KIND if b == KIND_LOST else None)
    q.flush()


CHECKS = [('construction', construction), ('unary_scalar', unary_scalar), ('binary', binary), ('products', products), ('indexing', indexing),
          ('contraction', contraction), ('unshaped', unshaped), ('programs', programs)]
