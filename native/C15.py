"""C15 bounded stand-ins: every public DyadCarrier operation, and bounded sequences of them, against dense numpy mirrors.

Every case is a small Python *program text*: set-up lines build carriers `d*` together with dense mirrors `m*` (sum of outer products
computed by `osum`, never through the carrier), operation lines apply the same operation to the carrier and to the mirror, and `verify`
compares value / shape / real-complex kind of every result, checks that no operand (carrier, dense, sparse, index array, or the
caller's source vectors) changed, and finally zeroes a row and a column of every carrier result to show that it shares no storage with an
operand. The program text is executed here and is at the same time the replay file. Data are small integers (exact in floating point).
`scaling` multiplies them by powers of two (2**-80 .. 2**80; all dyads of one carrier have the same product scale, so the dense reference stays exact and a
dropped non-zero dyad is visible in the dense result); `histories` interleaves every read operation with in-place modifications of one carrier.

Findings of the unchanged tree that are kept visible (tagged, never skipped):
  C15-getitem-empty        d[i, :], d[:, j], d[ar, ar] on a carrier with zero dyads return the int 0 instead of zeros of the indexed shape
  C15-kind-lost-on-zero    a complex carrier whose dyads all vanish (c*0, c@0, sliced/zeroed and copied ...) reports real, dense stays complex
  C15-iadd-self            d += d / d -= d never terminate (add_dyad appends to the list it iterates over)
  C15-getitem-list-pair    d[[0,1],[1,0]] (python lists) is taken as an outer selection (carrier), dense numpy gives the pairwise entries
  C15-getitem-real-then-complex  d[i, :], d[i, j], d[ar, ar] raise a casting error when an earlier dyad is real and a later one complex (res += in place);
                           `histories` shows the same in-place accumulation failing for an integer dyad followed by a float one (e.g. after d_int += d_float)
  C15-setitem-all-noop     d[:, :] = 0 changes nothing (neither the row nor the column branch is taken), dense zeroes everything
  C15-contract-multi-dtype contract_multi([real, complex]) allocates the result from mats[0] only and discards imaginary parts
"""
import itertools
import signal
import numpy as np
from native.util import bound, REPLAY_HEAD

HELPER = r'''
import warnings
warnings.filterwarnings('ignore')
import scipy.sparse as sp
D = pym.DyadCarrier


def osum(us, vs, shape):
    """independent dense reference: sum_k u_k (x) v_k; block inputs are first summed over all but their last dimension"""
    M = np.zeros(shape, dtype=np.result_type(np.float64, *[np.asarray(x).dtype for x in list(us) + list(vs)]))
    for u, v in zip(us, vs):
        u = np.atleast_1d(np.asarray(u)); v = np.atleast_1d(np.asarray(v))
        u = u.reshape(-1, u.shape[-1]).sum(0); v = v.reshape(-1, v.shape[-1]).sum(0)
        M = M + u[:, None] * v[None, :]
    return M


def cref(M, B=None, rows=None, cols=None):
    """dense reference of contract: y_p = sum_ij M[rows_p[i], cols_p[j]] B_p[i, j]   (B = None: sum_i M[rows_p[i], cols_p[i]])"""
    if B is not None and sp.issparse(B):
        B = B.toarray()
    bs = None
    if B is not None and B.ndim > 2: bs = B.shape[:-2]
    if rows is not None and rows.ndim > 1: bs = rows.shape[:-1]
    if cols is not None and cols.ndim > 1: bs = cols.shape[:-1]
    def one(p):
        R = np.arange(M.shape[0]) if rows is None else (rows[p] if rows.ndim > 1 else rows)
        C = np.arange(M.shape[1]) if cols is None else (cols[p] if cols.ndim > 1 else cols)
        if B is None:
            return sum(M[i, j] for i, j in zip(R, C)) + 0 * M.dtype.type(0)
        Bp = B[p] if B.ndim > 2 else B
        return sum(M[R[i], C[j]] * Bp[i, j] for i in range(len(R)) for j in range(len(C))) + 0 * M.dtype.type(0) * Bp.dtype.type(0)
    if bs is None:
        return one(())
    dt = np.result_type(M.dtype, np.float64 if B is None else B.dtype)
    out = np.zeros(bs, dtype=dt)
    for p in np.ndindex(*bs):
        out[p] = one(p)
    return out


def snap(x):
    if isinstance(x, D):
        return ('D', tuple(x.shape), str(x.dtype), [a.copy() for a in x.u] + [a.copy() for a in x.v], len(x.u))
    if sp.issparse(x):
        return ('S', x.shape, str(x.dtype), [x.toarray()], x.format)
    if isinstance(x, (list, tuple)):
        return ('L', len(x), '', [np.array(a, copy=True) for a in x], [str(np.asarray(a).dtype) for a in x])
    return ('A', np.shape(x), str(np.asarray(x).dtype), [np.array(x, copy=True)], 0)


def unchanged(x, s):
    t = snap(x)
    return t[:3] == s[:3] and t[4] == s[4] and len(t[3]) == len(s[3]) and all(a.dtype == b.dtype and a.shape == b.shape and np.array_equal(a, b) for a, b in zip(t[3], s[3]))


def cmp(got, want):
    """clauses of 'equals the dense result, with its shape and real/complex kind' violated by got (carrier, array or scalar)"""
    isd = isinstance(got, D)
    try:
        X = got.todense() if isd else np.asarray(got)
    except Exception as e:
        return ['todense() raises %s: %s' % (type(e).__name__, str(e)[:100])]
    W = np.asarray(want)
    if X.shape != W.shape:
        return ['shape: got %s, dense gives %s' % (X.shape, W.shape)]
    bad = []
    if isd and (tuple(got.shape) != W.shape or got.size != W.size or not np.array_equal(got.toarray(), X)):
        bad.append('shape: attribute %s / size / toarray disagree with todense' % (got.shape,))
    wmax = float(np.abs(W).max()) if W.size else 0.0
    # all data are integers times powers of two, every reference entry is exact: 1e-12 of the largest reference entry (badly scaled results are measured on their own scale)
    tol = 1e-12 * (wmax if 0.0 < wmax < 1.0 else max(1.0, wmax))
    if not (np.all(np.isfinite(X)) and np.allclose(X, W, rtol=0, atol=tol)):
        bad.append('values')
    gc, wc = bool(np.iscomplexobj(X)), bool(np.iscomplexobj(W))
    if isd and bool(got.iscomplex()) != gc:
        bad.append('kind: iscomplex() disagrees with todense().dtype')
    if gc != wc:
        bad.append('kind: got %s, dense gives %s' % ('complex' if gc else 'real', 'complex' if wc else 'real'))
    return bad


def probe_result(x):
    if isinstance(x, D) and x.shape[0] > 0 and x.shape[1] > 0:
        x[:1, :] = 0.0
        x[:, :1] = 0.0


def verify(ns, results, operands, snaps, probe=True, compare=True):
    """results: [(name of result, name of dense reference)]; operands: [(carrier name, mirror name or None)] or plain names of dense objects"""
    fails = []
    for g, w in (results if compare else []):
        for b in cmp(ns[g], ns[w]):
            fails.append((g, b))
    def ops(tag):
        for o in operands:
            nm, mir = o if isinstance(o, tuple) else (o, None)
            if not unchanged(ns[nm], snaps[nm]):
                fails.append((nm, 'operand changed' + tag))
            elif mir is not None:
                for b in cmp(ns[nm], ns[mir]):
                    fails.append((nm, 'operand no longer equals its dense mirror' + tag + ' / ' + b))
    ops('')
    if probe:
        skip = {o[0] if isinstance(o, tuple) else o for o in operands}
        for g, w in results:
            if g not in skip:
                probe_result(ns[g])
        ops(' after zeroing a row and a column of the result (shared storage)')
    return fails


def take_snaps(ns, operands):
    return {(o[0] if isinstance(o, tuple) else o): snap(ns[o[0] if isinstance(o, tuple) else o]) for o in operands}
'''

PRE = REPLAY_HEAD + HELPER
_BASE = {}
exec(compile(PRE, '<C15 helper>', 'exec'), _BASE)

F_EMPTY = 'C15-getitem-empty'
F_KIND = 'C15-kind-lost-on-zero'
F_SELF = 'C15-iadd-self'
F_LIST = 'C15-getitem-list-pair'
F_MULTI = 'C15-contract-multi-dtype'
F_GETMIX = 'C15-getitem-real-then-complex'
F_SETALL = 'C15-setitem-all-noop'
KIND_LOST = 'kind: got real, dense gives complex'


class Deferred:
    """finding-tagged failures are emitted after the ordinary ones (at most 2 per id), so that they can never crowd out a new failure"""
    def __init__(self, r):
        self.r, self.late = r, {}
        watchdog.hits = 0

    def case(self, key):
        self.r.case(key)

    def fail(self, what, inputs, observed, replay, finding=None):
        if finding:
            self.late.setdefault(finding, [])
            if len(self.late[finding]) < 2:
                self.late[finding].append((what, inputs, observed, replay))
        else:
            self.r.check(False, what, inputs, observed, None, replay_code=replay)

    def flush(self):
        for fid, lst in self.late.items():
            for what, inputs, observed, replay in lst[:1]:
                self.r.check(False, what, inputs, observed, None, replay_code=replay, finding=fid)


class Timeout(Exception):
    pass


def _alarm(*_):
    raise Timeout()


class watchdog:
    """every executed operation runs under a timer: a carrier operation that appends to the list it iterates over never returns"""
    hits = 0

    def __init__(self, seconds):
        self.seconds = seconds

    def __enter__(self):
        self.old = signal.signal(signal.SIGVTALRM, _alarm)
        signal.setitimer(signal.ITIMER_VIRTUAL, self.seconds)

    def __exit__(self, typ, val, tb):
        signal.setitimer(signal.ITIMER_VIRTUAL, 0)
        signal.signal(signal.SIGVTALRM, self.old)
        if typ is Timeout and self.seconds > 1:
            watchdog.hits += 1
        return False


def run(q, key, setup, op, results, operands, what, hint=None, probe=True, guard=False):
    """execute one program; hint: {clause prefix: finding id} for a known defect region of this very case"""
    q.case(key)
    opnames = repr(operands)
    body = setup + "\n_ops = " + opnames + "\n_snaps = take_snaps(globals(), _ops)\n" + op + "\n"
    tail = f"_fails = verify(globals(), {results!r}, _ops, _snaps, probe={probe})\nprint(_fails)\nassert not _fails, _fails\n"
    replay = PRE + body + tail
    if guard:
        replay = PRE + "import signal\ndef _h(*a): raise AssertionError('operation did not terminate within 2 s of CPU time')\nsignal.signal(signal.SIGVTALRM, _h); signal.setitimer(signal.ITIMER_VIRTUAL, 2.0)\n" + body + "signal.setitimer(signal.ITIMER_VIRTUAL, 0)\n" + tail
    ns = dict(_BASE)
    hint = hint or {}
    try:
        exec(setup, ns)
        ns['_snaps'] = ns['take_snaps'](ns, operands)
    except Exception as e:
        q.fail(f'{what}: set-up raises {type(e).__name__}: {str(e)[:120]}', key, None, replay)
        return None
    if watchdog.hits >= 6 and not guard:
        q.fail(f'{what}: not executed, 6 earlier operations did not terminate', key, None, replay)
        return None
    try:
        with watchdog(0.1 if guard else 2.0):
            exec(op, ns)
    except Timeout:
        q.fail(f'{what}: does not terminate', key, 'no result after %s s of CPU time (list grows without bound)' % (0.1 if guard else 2.0), replay, finding=hint.get('hang'))
        return None
    except Exception as e:
        q.fail(f'{what}: raises {type(e).__name__}: {str(e)[:160]}', key, None, replay, finding=hint.get('raise'))
        return None
    try:
        fails = ns['verify'](ns, results, operands, ns['_snaps'], probe)
    except Exception as e:
        fails = [('?', f'comparison raises {type(e).__name__}: {str(e)[:160]}')]
    for nm, b in fails:
        fid = None
        for pre, f in hint.items():
            if b.startswith(pre):
                fid = f
        # the known region: every complex dyad vanished, the carrier reports real while the dense result is a complex array with zero imaginary part
        if fid is None and b.endswith(KIND_LOST) and all(c.endswith(KIND_LOST) for n2, c in fails if n2 == nm):
            fid = F_KIND
        q.fail(f'{what}: {b}', dict(case=key, var=nm), None, replay, finding=fid)
    return ns


def run_many(q, setup, operands, items, probe=True):
    """items: (key, op, results, what, hint) programs sharing one set-up and none of which modifies an operand. They are executed in one namespace; whenever anything is
    wrong the items are re-run one by one through run(), which attributes the failure and produces the stand-alone replay."""
    ns = dict(_BASE)
    bad = set()
    try:
        exec(setup, ns)
        snaps = ns['take_snaps'](ns, operands)
        for k, (key, op, results, what, hint) in enumerate(items):
            try:
                with watchdog(2.0):
                    exec(op, ns)
                if any(ns['cmp'](ns[g], ns[w]) for g, w in results):
                    bad.add(k)
                elif probe:
                    for g, w in results:
                        ns['probe_result'](ns[g])
            except Timeout:
                bad = set(range(len(items)))
                break
            except Exception:
                bad.add(k)
        if ns['verify'](ns, [], operands, snaps, probe=False):
            bad = set(range(len(items)))
    except Exception:
        bad = set(range(len(items)))
    for k, (key, op, results, what, hint) in enumerate(items):
        if k in bad:
            run(q, key, setup, op, results, operands, what, hint=hint, probe=probe)
        else:
            q.case(key)


# ------------------------------------------------------------------------------------------------------------------ data
def lit(a):
    a = np.asarray(a)
    return f"np.array({a.tolist()!r}, dtype='{a.dtype}')" if a.size else f"np.zeros({a.shape!r}, dtype='{a.dtype}')"


def vec(rng, n, k):
    a = rng.integers(-3, 4, n)
    if k == 'i':
        return a.astype(np.int64)
    if k == 'f':
        return a.astype(np.float64)
    if k == 'g':
        return a.astype(np.float32)
    return a + 1j * rng.integers(-3, 4, n)


def mat(rng, shape, k):
    return vec(rng, int(np.prod(shape)), k).reshape(shape)


PATTERNS = {'ff': ['ff'], 'cc': ['cc'], 'fc': ['fc'], 'cf': ['cf'], 'ii': ['ii'], 'ic': ['ic'], 'mix': ['ff', 'cf', 'fc'], 'gf': ['gf']}


def carrier(rng, i, shape, nd, pat, give_shape=None, zero_at=None):
    """source text defining _u{i}, _v{i} (caller's arrays), d{i} (carrier) and m{i} (dense mirror)"""
    m, n = shape
    us, vs = [], []
    for k in range(nd):
        ku, kv = PATTERNS[pat][k % len(PATTERNS[pat])]
        u, v = vec(rng, m, ku), vec(rng, n, kv)
        if not np.any(u):
            u[0] = 1
        if not np.any(v):
            v[-1] = 2
        if zero_at == k:
            v = v * 0
        us.append(u); vs.append(v)
    if give_shape is None:
        give_shape = nd == 0 or bool(rng.integers(0, 2))
    sh = f", shape=({m}, {n})" if give_shape else ""
    return (f"_u{i} = [{', '.join(lit(u) for u in us)}]\n_v{i} = [{', '.join(lit(v) for v in vs)}]\n"
            f"d{i} = D(_u{i}, _v{i}{sh})\nm{i} = osum(_u{i}, _v{i}, ({m}, {n}))\n")


def shapes(tier):
    return [(1, 1), (1, 4), (3, 1), (3, 3), (2, 4)] if tier == 'quick' else [(1, 1), (1, 4), (3, 1), (3, 3), (2, 4), (5, 2), (4, 4), (2, 2)]


def pats(tier):
    return ['ff', 'cc', 'fc', 'cf', 'ii', 'mix'] if tier == 'quick' else ['ff', 'cc', 'fc', 'cf', 'ii', 'ic', 'mix', 'gf']


def configs(tier, nds=(0, 1, 2, 3)):
    for sh in shapes(tier):
        for nd in nds:
            for pat in (pats(tier) if nd else ['ff']):
                yield sh, nd, pat


OPS0 = [('d0', 'm0'), '_u0', '_v0']


# ---------------------------------------------------------------------------------------------------------------- checks
@bound('shapes {1x1,1x4,3x1,3x3,2x4} (+{5x2,4x4,2x2} thorough); construction from lists, tuples, a bare vector, u only, python lists, 0-d scalars, '
       '2-D/3-D blocks (also mixed with vectors), explicit shape with zero dyads, zero vectors among the dyads, float32/int/complex mixtures, '
       'repeated add_dyad calls with and without fac on one carrier, caller overwriting its arrays afterwards')
def construction(r, tier, seed):
    q = Deferred(r)
    rng = np.random.default_rng(seed + 150)
    for sh, nd, pat in configs(tier):
        for give in (False, True):
            if nd == 0 and not give:
                continue
            s = carrier(rng, 0, sh, nd, pat, give_shape=give)
            # the carrier equals its mirror, and stays so when the caller re-uses the vectors it passed in
            op = "c1 = d0.copy()\nfor a in _u0 + _v0:\n    a *= 3\nc2 = d0.copy()\n"
            run(q, ('lists', sh, nd, pat, give), s, op, [('d0', 'm0'), ('c1', 'm0'), ('c2', 'm0')], [], 'DyadCarrier(u, v) with the caller re-using its vectors afterwards')
            if nd >= 1:
                s2 = s + "t0 = D(tuple(_u0), tuple(_v0))\n"
                run(q, ('tuple', sh, nd, pat), s2, "", [('t0', 'm0')], [('t0', 'm0'), '_u0', '_v0'], 'construction from tuples')
                s3 = s + "p0 = D([a.tolist() for a in _u0], [a.tolist() for a in _v0])\n"
                run(q, ('pylists', sh, nd, pat), s3, "", [('p0', 'm0')], ['_u0', '_v0'], 'construction from python lists')
            if nd >= 2:
                for z in range(nd):
                    sz = carrier(rng, 0, sh, nd, pat, give_shape=give, zero_at=z)
                    run(q, ('zero vector', sh, nd, pat, give, z), sz, "c1 = +d0\n", [('d0', 'm0'), ('c1', 'm0')], OPS0, 'a zero vector among the dyads')
    for sh in shapes(tier):
        m, n = sh
        for ku, kv in list(itertools.product('fci', repeat=2)) + [('g', 'f'), ('c', 'g')]:
            u, v = vec(rng, m, ku), vec(rng, n, kv)
            u[0] = 2; v[-1] = 1
            s = f"u = {lit(u)}\nv = {lit(v)}\nd0 = D(u, v)\nm0 = osum([u], [v], ({m}, {n}))\n"
            run(q, ('bare vector', sh, ku, kv), s, "u += 1; v -= 1\n", [('d0', 'm0')], [('d0', 'm0')], 'DyadCarrier(u, v) with bare vectors')
            # blocks: summed over all but the last dimension, cross terms included
            for bu, bv in (((2, m), (2, n)), ((2, m), (3, n)), ((2, 2, m), (n,)), ((m,), (3, 1, n)), ((1, m), (1, n))):
                U, V = mat(rng, bu, ku), mat(rng, bv, kv)
                s = f"U = {lit(U)}\nV = {lit(V)}\nd0 = D(U, V)\nm0 = osum([U], [V], ({m}, {n}))\n"
                run(q, ('block', sh, ku, kv, bu, bv), s, "", [('d0', 'm0')], ['U', 'V', ('d0', 'm0')], 'construction from blocks')
                s = f"U = {lit(U)}\nV = {lit(V)}\nu = {lit(u)}\nv = {lit(v)}\nd0 = D([U, u], [V, v])\nm0 = osum([U, u], [V, v], ({m}, {n}))\n"
                run(q, ('block+vector', sh, ku, kv, bu, bv), s, "", [('d0', 'm0')], ['U', 'V', 'u', 'v', ('d0', 'm0')], 'construction from a list of a block and a vector')
        # symmetric construction (v omitted) and add_dyad histories
        for ku in 'fci':
            u1, u2 = vec(rng, m, ku), vec(rng, m, 'f')
            u1[0] = 1; u2[-1] = -2
            s = f"_u0 = [{lit(u1)}, {lit(u2)}]\n_v0 = []\nd0 = D(_u0)\nm0 = osum(_u0, _u0, ({m}, {m}))\n"
            run(q, ('u only', m, ku), s, "", [('d0', 'm0')], OPS0, 'DyadCarrier(u) means v = u')
        for pat in pats(tier):
            a, b, c = [carrier(rng, i, sh, 1 + i % 2, pat, give_shape=False) for i in range(3)]
            s = a + b + c + "e = D(shape=(%d, %d))\nw = 0 * m0\n" % sh
            op = ("r1 = e.add_dyad(_u0, _v0)\nw = w + m0\nk1 = e.copy()\nw1 = w.copy()\n"
                  "e.add_dyad(_u1, _v1, fac=-2.0)\nw = w - 2.0 * m1\nk2 = e.copy()\nw2 = w.copy()\n"
                  "e.add_dyad(_u2[0], _v2[0], 0.5)\nw = w + 0.5 * osum(_u2[:1], _v2[:1], w.shape)\n"
                  "e.add_dyad(_u0, _v0)\nw = w + m0\n"
                  "e.add_dyad(None)\ne.add_dyad([], [])\nsame = r1 is e\nyes = True\n")
            run(q, ('add_dyad history', sh, pat), s, op, [('e', 'w'), ('k1', 'w1'), ('k2', 'w2'), ('same', 'yes')],
                [('d0', 'm0'), ('d1', 'm1'), ('d2', 'm2'), '_u0', '_v0', '_u1', '_v1', '_u2', '_v2'], 'add_dyad called repeatedly (with fac) on one carrier')
    for a, b in ((2.0, 3.0), (2, 1j), (0.0, 3.0), (-1.5, np.float64(2))):
        s = f"d0 = D({a!r}, {b!r})\nm0 = np.array([[{a!r} * {b!r}]]) + 0.0\n"
        run(q, ('scalars', repr(a), repr(b)), s, "", [('d0', 'm0')], [], 'construction from scalars (1x1)')
    for n in (1, 3):
        v = vec(rng, n, 'f'); v[0] = 1
        s = f"v = {lit(v)}\nd0 = D(2.0, v)\nm0 = 2.0 * v[None, :]\nd1 = D(v, np.array(-1.0))\nm1 = -v[:, None]\n"
        run(q, ('scalar x vector', n), s, "", [('d0', 'm0'), ('d1', 'm1')], ['v'], 'construction from a scalar and a vector')
    q.flush()


SCALARS = ['2', '-0.5', '3.0', '1j', '(2-1j)', '0', '0.0', '0j', 'np.float64(3)', 'np.array(2.0)', 'np.int64(-2)', 'np.complex128(1+1j)', 'np.array(-1j)', 'np.float32(0.5)']

UNARY = [('copy', 'r = d0.copy()', 'w = m0.copy()'), ('pos', 'r = +d0', 'w = +m0'), ('neg', 'r = -d0', 'w = -m0'),
         ('T', 'r = d0.T', 'w = m0.T'), ('transpose', 'r = d0.transpose()', 'w = m0.transpose()'), ('conj', 'r = d0.conj()', 'w = m0.conj()'),
         ('real', 'r = d0.real', 'w = m0.real'), ('imag', 'r = d0.imag', 'w = m0.imag'),
         ('todense', 'r = d0.todense()', 'w = m0'), ('toarray', 'r = d0.toarray()', 'w = m0'),
         ('iscomplex', 'r = bool(d0.iscomplex())', 'w = bool(np.iscomplexobj(m0))'),
         ('shape', 'r = np.array(d0.shape)', 'w = np.array(m0.shape)'), ('size', 'r = d0.size', 'w = m0.size'), ('ndim', 'r = d0.ndim', 'w = m0.ndim'),
         ('add 0', 'r = d0 + 0', 'w = m0 + 0'), ('radd 0', 'r = 0 + d0', 'w = 0 + m0'), ('sub 0', 'r = d0 - 0.0', 'w = m0 - 0.0'), ('rsub 0', 'r = 0 - d0', 'w = 0 - m0'),
         ('sum', 'r = sum([d0, d0, d0])', 'w = 3 * m0'), ('add self', 'r = d0 + d0', 'w = m0 + m0'), ('sub self', 'r = d0 - d0', 'w = m0 - m0'),
         ('T.T', 'r = d0.T.T', 'w = m0'), ('conj.T', 'r = d0.conj().T', 'w = m0.conj().T'), ('real.T', 'r = d0.real.T', 'w = m0.real.T'), ('T.imag', 'r = d0.T.imag', 'w = m0.T.imag'),
         ('neg.conj', 'r = (-d0).conj()', 'w = (-m0).conj()'), ('real+1j*imag', 'r = d0.real + 1j * d0.imag', 'w = m0.real + 1j * m0.imag'),
         ('imag.imag', 'r = d0.imag.imag', 'w = m0.imag.imag'), ('conj.imag', 'r = d0.conj().imag', 'w = -m0.imag'), ('copy.copy', 'r = d0.copy().copy()', 'w = m0')]


@bound('every carrier configuration (shapes x 0..3 dyads x dtype patterns ff, cc, fc, cf, ii, mix [+ic, gf thorough]) x copy, +d, -d, T, transpose, conj, real, imag, '
       'todense, toarray, iscomplex, shape/size, +-0, sum(), d+d, d-d, 9 two-step compositions, diagonal(k) for every k in -(m+1)..n+1, '
       '14 scalars (python/numpy, real/complex, exact zero) from either side')
def unary_scalar(r, tier, seed):
    q = Deferred(r)
    rng = np.random.default_rng(seed + 151)
    for sh, nd, pat in configs(tier):
        s = carrier(rng, 0, sh, nd, pat) + "".join(f"s{i} = {sc}\n" for i, sc in enumerate(SCALARS))
        ops = OPS0 + [f's{i}' for i in range(len(SCALARS))]
        items = [((name, sh, nd, pat), a + "\n" + b + "\n", [('r', 'w')], name, None) for name, a, b in UNARY]
        m, n = sh
        op = "".join(f"r{k + m + 1} = d0.diagonal({k})\nw{k + m + 1} = np.diagonal(m0, {k}) + 0\n" for k in range(-(m + 1), n + 2)) + "r = d0.diagonal()\nw = np.diagonal(m0) + 0\n"
        items.append((('diagonal', sh, nd, pat), op, [(f'r{k}', f'w{k}') for k in range(0, m + n + 3)] + [('r', 'w')], 'diagonal(k)', None))
        for i, sc in enumerate(SCALARS):
            op = f"r1 = s{i} * d0\nw1 = s{i} * m0\nr2 = d0 * s{i}\nw2 = m0 * s{i}\nr3 = (d0 * s{i}) * s{i}\nw3 = m0 * s{i} * s{i}\n"
            items.append((('scalar', sc, sh, nd, pat), op, [('r1', 'w1'), ('r2', 'w2'), ('r3', 'w3')], f'scalar product with {sc}', None))
        run_many(q, s, ops, items)
    q.flush()


@bound('pairs of carriers of one shape: shapes x (n1, n2) in {0,1,2}^2 (+3 thorough) x dtype patterns {ff,cc,fc,ii}^2 [quick] / {ff,cc,fc,cf,ii,mix}^2 [thorough]; d1+d2, d1-d2, +=, -= (result identity, '
       'earlier copies untouched), chains a+b-a, carrier +- dense (full, row-vector, 1 x n and m x 1 shapes broadcast to the carrier; real/complex/int) from either side, d += d under a watchdog')
def binary(r, tier, seed):
    q = Deferred(r)
    rng = np.random.default_rng(seed + 152)
    P = ['ff', 'cc', 'fc', 'ii'] if tier == 'quick' else ['ff', 'cc', 'fc', 'cf', 'ii', 'mix']
    nds = (0, 1, 2) if tier == 'quick' else (0, 1, 2, 3)
    ops2 = [('d0', 'm0'), ('d1', 'm1'), '_u0', '_v0', '_u1', '_v1']
    for sh in shapes(tier):
        for n1, n2 in itertools.product(nds, repeat=2):
            for p1, p2 in itertools.product(P if n1 else ['ff'], P if n2 else ['ff']):
                s = carrier(rng, 0, sh, n1, p1) + carrier(rng, 1, sh, n2, p2)
                key = (sh, n1, n2, p1, p2)
                run(q, ('add/sub',) + key, s, "r1 = d0 + d1\nw1 = m0 + m1\nr2 = d0 - d1\nw2 = m0 - m1\nr3 = d1 - d0\nw3 = m1 - m0\nr4 = d0 + d1 - d0\nw4 = m0 + m1 - m0\nr5 = -(d0 - d1) - d1\nw5 = -(m0 - m1) - m1\n",
                    [('r1', 'w1'), ('r2', 'w2'), ('r3', 'w3'), ('r4', 'w4'), ('r5', 'w5')], ops2, 'd0 + d1, d0 - d1, chains')
                op = ("a = d0.copy()\nwa = m0.copy()\nk0 = a\nc0 = a.copy()\na += d1\nwa = wa + m1\nsame1 = a is k0\nc1 = a.copy()\nw1 = wa.copy()\n"
                      "a -= d0\nwa = wa - m0\nsame2 = a is k0\nc2 = a.copy()\nw2 = wa.copy()\na += d1\nwa = wa + m1\na -= d1\nwa = wa - m1\na -= d1\nwa = wa - m1\nyes = True\n")
                run(q, ('iadd/isub',) + key, s, op, [('a', 'wa'), ('c0', 'm0'), ('c1', 'w1'), ('c2', 'w2'), ('same1', 'yes'), ('same2', 'yes')], ops2, 'in-place += / -= history')
        # carrier with dense operands
        m, n = sh
        for nd, pat in ((0, 'ff'), (1, 'ff'), (2, 'cc'), (2, 'fc'), (1, 'ii'), (3, 'mix')):
            s = carrier(rng, 0, sh, nd, pat)
            items, names = [], []
            for k in 'fci':
                for bs in ((m, n), (n,), (1, n), (m, 1)):   # adding a non-zero scalar is documented as unsupported (exact zero scalars are in unary_scalar)
                    B = f'B{len(names)}'
                    names.append(B)
                    s += f"{B} = {lit(mat(rng, bs, k))}\n"
                    op = f"r1 = d0 + {B}\nw1 = m0 + {B}\nr2 = {B} + d0\nw2 = {B} + m0\nr3 = d0 - {B}\nw3 = m0 - {B}\nr4 = {B} - d0\nw4 = {B} - m0\n"
                    items.append((('dense', sh, nd, pat, k, bs), op, [('r1', 'w1'), ('r2', 'w2'), ('r3', 'w3'), ('r4', 'w4')], 'carrier +- dense array (broadcast to the carrier shape)', None))
            run_many(q, s, OPS0 + names, items)
        for nd, pat in ((1, 'ff'), (2, 'cf')):
            s = carrier(rng, 0, sh, nd, pat)
            run(q, ('iadd self', sh, nd, pat), s, "d0 += d0\nw = 2 * m0\n", [('d0', 'w')], ['_u0', '_v0'], 'd += d', hint={'hang': F_SELF}, guard=True)
            run(q, ('isub self', sh, nd, pat), s, "d0 -= d0\nw = 0 * m0\n", [('d0', 'w')], ['_u0', '_v0'], 'd -= d', hint={'hang': F_SELF}, guard=True)
    q.flush()


@bound('carriers (m x n, 0..3 dyads, patterns ff/cc/fc/cf/ii/mix) times dense A (n x p, p in {1,3}; q x m) and vectors from either side, operands real/complex/int/all-zero, '
       'csr/coo sparse on either side, dot(), __rdot__(), carrier @ carrier (n x p with 0..2 dyads), products of three')
def products(r, tier, seed):
    q = Deferred(r)
    rng = np.random.default_rng(seed + 153)
    for sh, nd, pat in configs(tier):
        m, n = sh
        s0 = carrier(rng, 0, sh, nd, pat)
        s, items, names = s0, [], []
        for k in ('f', 'c', 'i', 'z'):
            for p in (1, 3):
                A = mat(rng, (n, p), k if k != 'z' else 'f') * (0 if k == 'z' else 1)
                L = mat(rng, (p, m), k if k != 'z' else 'c') * (0 if k == 'z' else 1)
                x = vec(rng, n, k if k != 'z' else 'f') * (0 if k == 'z' else 1)
                y = vec(rng, m, k if k != 'z' else 'f') * (0 if k == 'z' else 1)
                t = f'{k}{p}'
                s += f"A{t} = {lit(A)}\nL{t} = {lit(L)}\nx{t} = {lit(x)}\ny{t} = {lit(y)}\n"
                names += [f'A{t}', f'L{t}', f'x{t}', f'y{t}']
                op = ("r1 = d0 @ A\nw1 = m0 @ A\nr2 = L @ d0\nw2 = L @ m0\nr3 = d0 @ x\nw3 = m0 @ x\nr4 = y @ d0\nw4 = y @ m0\n"
                      "r5 = d0.dot(x)\nr6 = d0.dot(A)\nr7 = d0.__rdot__(y)\nr8 = d0.__rdot__(L)\nr9 = L @ d0 @ A\nw9 = L @ m0 @ A\nr10 = (L @ d0) @ x\nw10 = L @ m0 @ x\n")
                for nm in 'ALxy':
                    op = op.replace(f' {nm}\n', f' {nm}{t}\n').replace(f'({nm})', f'({nm}{t})').replace(f' {nm} @', f' {nm}{t} @').replace(f'({nm} @', f'({nm}{t} @')
                items.append((('dense', sh, nd, pat, k, p), op, [('r1', 'w1'), ('r2', 'w2'), ('r3', 'w3'), ('r4', 'w4'), ('r5', 'w3'), ('r6', 'w1'), ('r7', 'w4'), ('r8', 'w2'), ('r9', 'w9'), ('r10', 'w10')],
                              'matrix / vector products from either side', None))
        for k in 'fc':
            A, L = mat(rng, (n, 2), k), mat(rng, (2, m), k)
            for fmt in ('csr', 'coo'):
                t = f'{k}{fmt}'
                s += f"A{t} = sp.{fmt}_matrix({lit(A)})\nL{t} = sp.{fmt}_matrix({lit(L)})\n"
                names += [f'A{t}', f'L{t}']
                items.append((('sparse', sh, nd, pat, k, fmt), f"r1 = d0 @ A{t}\nw1 = m0 @ A{t}.toarray()\nr2 = L{t} @ d0\nw2 = L{t}.toarray() @ m0\n", [('r1', 'w1'), ('r2', 'w2')], 'products with sparse matrices', None))
        run_many(q, s, OPS0 + names, items)
        for n2, p2 in ((0, 'ff'), (1, 'ff'), (2, 'cf'), (2, 'ii')):
            for p in (1, 3):
                s = s0 + carrier(rng, 1, (n, p), n2, p2)
                run(q, ('dyad@dyad', sh, nd, pat, n2, p2, p), s, "r1 = d0 @ d1\nw1 = m0 @ m1\nr2 = d1.T @ d0.T\nw2 = m1.T @ m0.T\nr3 = d0.T @ d0\nw3 = m0.T @ m0\nr4 = d0 @ d0.conj().T\nw4 = m0 @ m0.conj().T\n",
                    [('r1', 'w1'), ('r2', 'w2'), ('r3', 'w3'), ('r4', 'w4')], [('d0', 'm0'), ('d1', 'm1'), '_u0', '_v0', '_u1', '_v1'], 'carrier @ carrier')
    q.flush()


def index_sets(n):
    """(source text, kind) of admissible single-axis subscripts for an axis of length n"""
    out = [('0', 's'), ('-1', 's'), (f'{n - 1}', 's'), ('np.int64(0)', 's'), (':', 'l'), ('1:', 'l'), (':-1', 'l'), ('::2', 'l'), ('::-1', 'l'), ('0:0', 'l'), (f'{n - 1}:{n + 3}', 'l'),
           ('np.array([0])', 'a'), (f'np.array([{n - 1}, 0, 0])', 'a'), ('np.array([-1, 0])', 'a'), ('np.zeros(0, dtype=int)', 'a'),
           (f'np.array({[bool(i % 2 == 0) for i in range(n)]})', 'b'), (f'[{n - 1}, 0]', 't')]
    return out


@bound('carriers (shapes x 0..3 dyads x patterns) indexed by every pair of: ints (0, -1, last, numpy int), slices (:, 1:, :-1, ::2, ::-1, empty, overlong), index arrays (single, '
       'unsorted with repeats, negative, empty), boolean masks, python lists; equal-shape 1-D and 2-D array pairs; zeroing rows or columns by each of them (values 0, 0.0, -0.0, '
       'False, numpy zeros) in sequences with copies taken in between; inadmissible assignments must raise and leave the carrier unchanged')
def indexing(r, tier, seed):
    q = Deferred(r)
    rng = np.random.default_rng(seed + 154)
    for sh, nd, pat in configs(tier):
        m, n = sh
        if tier == 'quick' and pat in ('cf', 'ii') and nd == 3:
            continue
        s = carrier(rng, 0, sh, nd, pat)
        items = []
        for (I, ki), (J, kj) in itertools.product(index_sets(m), index_sets(n)):
            if ki in 'abt' and kj in 'abt':
                continue   # pairs of arrays are taken below with equal shapes
            hint = None
            if nd == 0 and ('s' in (ki, kj)):
                hint = {'shape': F_EMPTY}
            if nd >= 2 and pat == 'mix' and ('s' in (ki, kj)):
                hint = {'raise': F_GETMIX}
            items.append((('get', sh, nd, pat, I, J), f"r = d0[{I}, {J}]\nw = m0[{I}, {J}]\n", [('r', 'w')], f'd[{I}, {J}]', hint))
        run_many(q, s, OPS0, items)
        pairs = [('np.array([0])', 'np.array([0])'), (f'np.array([{m - 1}, 0, 0])', f'np.array([0, {n - 1}, 0])'), (f'np.array([-1, 0])', 'np.array([0, -1])'),
                 (f'np.array([[0, {m - 1}], [0, 0]])', f'np.array([[{n - 1}, 0], [0, {n - 1}]])'), ('np.zeros(0, dtype=int)', 'np.zeros(0, dtype=int)')]
        sp_ = s + "".join(f"I{t} = {I}\nJ{t} = {J}\n" for t, (I, J) in enumerate(pairs))
        run_many(q, sp_, OPS0 + [f'{c}{t}' for t in range(len(pairs)) for c in 'IJ'],
                 [(('get pair', sh, nd, pat, I, J), f"r = d0[I{t}, J{t}]\nw = m0[I{t}, J{t}]\n", [('r', 'w')], f'd[{I}, {J}]', {'shape': F_EMPTY} if nd == 0 else ({'raise': F_GETMIX} if nd >= 2 and pat == 'mix' else None)) for t, (I, J) in enumerate(pairs)])
        run(q, ('get list pair', sh, nd, pat), s, f"r = d0[[{m - 1}, 0], [0, {n - 1}]]\nw = m0[[{m - 1}, 0], [0, {n - 1}]]\n", [('r', 'w')], OPS0, 'd[list, list]',
            hint={'shape': F_EMPTY if nd == 0 else F_LIST, 'values': F_LIST})
        # zeroing of rows / columns, as a history on one carrier with copies in between
        zs = ['0', '0.0', '-0.0', 'np.float64(0)', 'np.int64(0)', 'False']
        for t, ((I, ki), (J, kj)) in enumerate(itertools.product(index_sets(m), index_sets(n))):
            if (t + m + nd) % 7 and tier == 'quick':
                continue
            z = zs[t % len(zs)]
            op = (f"c0 = d0.copy()\nd0[{I}, :] = {z}\nw1 = m0.copy()\nw1[{I}, :] = 0\nc1 = d0.copy()\nk1 = d0[:, :]\nd0[:, {J}] = {z}\nw2 = w1.copy()\nw2[:, {J}] = 0\n"
                  f"c2 = d0.copy()\nd0[{I}, :] = {z}\nt2 = d0.T\nw2t = w2.T\n")
            run(q, ('set', sh, nd, pat, I, J, z), s, op, [('d0', 'w2'), ('c0', 'm0'), ('c1', 'w1'), ('k1', 'w1'), ('c2', 'w2'), ('t2', 'w2t')], ['_u0', '_v0'], f'd[{I}, :] = 0; d[:, {J}] = 0',
                hint={'values': F_SETALL, 'operand': F_SETALL} if ':' in (I, J) else None)
        # assignments the class documents as impossible must raise and change nothing
        for stmt in ("d0[0, 0] = 0.0", "d0[0:1, 0:1] = 0.0", "d0[0, :] = 1.0", "d0[:, 0] = 2.0"):
            op = f"try:\n    {stmt}\n    raised = False\nexcept (ValueError, IndexError):\n    raised = True\nyes = True\n"
            run(q, ('set refused', sh, nd, pat, stmt), s, op, [('raised', 'yes')], OPS0, f'{stmt} must raise', probe=False)
    q.flush()


@bound('carriers (shapes x 0..3 dyads x patterns) contracted with: nothing (trace; equal-length rows/cols), dense B (int/real/complex), csr/coo/csc B, 1-D rows and/or cols '
       '(unsorted, repeated, length 1), batches of B (P x m x n, P x Q x m x n, P = 1), batched rows / cols with plain or batched B (the FE sensitivity form), keyword and positional '
       'arguments; contract_multi with coo/csr/dense/None entries and explicit dtype; inconsistent batch sizes must raise')
def contraction(r, tier, seed):
    q = Deferred(r)
    rng = np.random.default_rng(seed + 155)
    for sh, nd, pat in configs(tier):
        m, n = sh
        s0 = carrier(rng, 0, sh, nd, pat)
        res, lines = [], []

        def add(call, ref):
            k = len(res)
            lines.append(f"r{k} = d0.{call}\nw{k} = {ref}\n")
            res.append((f'r{k}', f'w{k}'))
        R1 = rng.integers(0, m, 3); C1 = rng.integers(0, n, 3)
        R0 = rng.integers(0, m, 1); C2 = rng.permutation(n)[:2] if n >= 2 else np.array([0, 0])
        RB = rng.integers(0, m, (4, 2)); CB = rng.integers(0, n, (4, 3)); RBB = rng.integers(0, m, (2, 3, 2)); CBn = rng.integers(0, n, (4, 2))
        defs = f"R1 = {lit(R1)}\nC1 = {lit(C1)}\nR0 = {lit(R0)}\nC2 = {lit(C2)}\nRB = {lit(RB)}\nCB = {lit(CB)}\nRBB = {lit(RBB)}\nCBn = {lit(CBn)}\nRn = np.tile(np.arange({m})[::-1], (4, 1))\n"
        names = ['R1', 'C1', 'R0', 'C2', 'RB', 'CB', 'RBB', 'CBn', 'Rn']
        if m == n:
            add("contract()", "cref(m0)")
            add("contract(None, None, None)", "cref(m0)")
            add("contract(rows=Rn)", "cref(m0, None, Rn)")
        add("contract(None, R1, C1)", "cref(m0, None, R1, C1)")
        add("contract(rows=R1, cols=C1)", "cref(m0, None, R1, C1)")
        add("contract(rows=RB, cols=CBn)", "cref(m0, None, RB, CBn)")
        for k in 'fci':
            tag = 'B' + k
            defs += (f"{tag} = {lit(mat(rng, (m, n), k))}\n{tag}r = {lit(mat(rng, (3, n), k))}\n{tag}c = {lit(mat(rng, (m, 2), k))}\n{tag}rc = {lit(mat(rng, (3, 2), k))}\n{tag}1 = {lit(mat(rng, (1, n), k))}\n"
                     f"{tag}b = {lit(mat(rng, (4, m, n), k))}\n{tag}bb = {lit(mat(rng, (2, 3, m, n), k))}\n{tag}b1 = {lit(mat(rng, (1, m, n), k))}\n{tag}2n = {lit(mat(rng, (2, n), k))}\n"
                     f"{tag}b2n = {lit(mat(rng, (4, 2, n), k))}\n{tag}m3 = {lit(mat(rng, (m, 3), k))}\n{tag}b23 = {lit(mat(rng, (4, 2, 3), k))}\n{tag}bbb = {lit(mat(rng, (2, 3, 2, n), k))}\n{tag}23 = {lit(mat(rng, (2, 3), k))}\n")
            names += [tag + x for x in ('', 'r', 'c', 'rc', '1', 'b', 'bb', 'b1', '2n', 'b2n', 'm3', 'b23', 'bbb', '23')]
            add(f"contract({tag})", f"cref(m0, {tag})")
            add(f"contract(mat={tag})", f"cref(m0, {tag})")
            add(f"contract({tag}r, R1)", f"cref(m0, {tag}r, R1)")
            add(f"contract({tag}c, cols=C2)", f"cref(m0, {tag}c, None, C2)")
            add(f"contract({tag}rc, R1, C2)", f"cref(m0, {tag}rc, R1, C2)")
            add(f"contract({tag}1, rows=R0)", f"cref(m0, {tag}1, R0)")
            add(f"contract({tag}b)", f"cref(m0, {tag}b)")
            add(f"contract({tag}bb)", f"cref(m0, {tag}bb)")
            add(f"contract({tag}b1)", f"cref(m0, {tag}b1)")
            add(f"contract({tag}2n, RB)", f"cref(m0, {tag}2n, RB)")
            add(f"contract({tag}b2n, RB)", f"cref(m0, {tag}b2n, RB)")
            add(f"contract({tag}m3, cols=CB)", f"cref(m0, {tag}m3, None, CB)")
            add(f"contract({tag}b23, RB, CB)", f"cref(m0, {tag}b23, RB, CB)")
            add(f"contract({tag}23, RB, CB)", f"cref(m0, {tag}23, RB, CB)")
            add(f"contract({tag}b23, RB, C1)", f"cref(m0, {tag}b23, RB, C1)")
            add(f"contract({tag}bbb, RBB)", f"cref(m0, {tag}bbb, RBB)")
            if k != 'i':
                for fmt in ('csr', 'coo', 'csc'):
                    add(f"contract(sp.{fmt}_matrix({tag}))", f"cref(m0, {tag})")
                add(f"contract(sp.csr_matrix({tag}rc), R1, C2)", f"cref(m0, {tag}rc, R1, C2)")
                add(f"contract(sp.coo_matrix({tag}r), rows=R1)", f"cref(m0, {tag}r, R1)")
        s = s0 + defs
        run_many(q, s, OPS0 + names, [(('contract', sh, nd, pat, line.split('\n')[0]), line, [rs], line.split('\n')[0], None) for line, rs in zip(lines, res)], probe=False)
        # contract_multi
        for k in 'fc':
            tag = 'B' + k
            op = (f"S = [sp.coo_matrix({tag}), None, sp.csr_matrix({tag}.conj() * 2), {tag}, sp.coo_matrix(({m}, {n}))]\nr = d0.contract_multi(S)\n"
                  f"w = np.array([cref(m0, {tag}), 0, cref(m0, {tag}.conj() * 2), cref(m0, {tag}), 0]) + 0 * m0.dtype.type(0)\n"
                  f"r2 = d0.contract_multi(S[:1], dtype=complex)\nw2 = np.array([cref(m0, {tag})]) + 0j\n")
            run(q, ('contract_multi', sh, nd, pat, k), s, op, [('r', 'w'), ('r2', 'w2')], OPS0 + names, 'contract_multi', probe=False)
        op = "S = [sp.coo_matrix(Bf), sp.coo_matrix(Bc)]\nr = d0.contract_multi(S)\nw = np.array([cref(m0, Bf), cref(m0, Bc)])\n"
        run(q, ('contract_multi real then complex', sh, nd, pat), s, op, [('r', 'w')], OPS0 + names, 'contract_multi([real, complex])', probe=False,
            hint=None if any('c' in PATTERNS[pat][k % len(PATTERNS[pat])] for k in range(nd)) else {'values': F_MULTI, 'kind': F_MULTI})
        for bad in ("contract(Bfb, rows=np.zeros((3, 2), dtype=int))", "contract(Bfb, cols=np.zeros((5, 2), dtype=int))"):
            op = f"try:\n    d0.{bad}\n    raised = False\nexcept ValueError:\n    raised = True\nyes = True\n"
            run(q, ('contract refused', sh, nd, pat, bad), s, op, [('raised', 'yes')], OPS0 + names, f'{bad} must raise', probe=False)
    q.flush()


@bound('carriers without a shape (DyadCarrier() and copies, transposes, negations, multiples of it): neutral in + - += -= with shaped carriers of 1-2 dyads on either side, '
       'todense() is 0x0, contract() is 0, diagonal() is empty, n_dyads is 0')
def unshaped(r, tier, seed):
    q = Deferred(r)
    rng = np.random.default_rng(seed + 156)
    forms = ['D()', 'D().copy()', 'D().T', '-D()', '2 * D()', 'D() * 1j', 'D().conj()', 'D().real', 'D().imag', 'D() + D()', 'D() - D()', 'D()[:, :]', 'D(None, None)', 'D([], [])']
    for sh, nd, pat in configs(tier, nds=(1, 2)):
        s0 = carrier(rng, 0, sh, nd, pat)
        for f in forms:
            s = s0 + f"e = {f}\nz = np.zeros((0, 0))\n"
            op = ("r1 = d0 + e\nr2 = e + d0\nr3 = d0 - e\nr4 = e - d0\nw4 = -m0\na = d0.copy()\na += e\na -= e\nb = e.copy()\nb += d0\nc = e.copy()\nc -= d0\n"
                  "t = e.todense()\nk = e.contract()\nzero = 0.0\ng = e.diagonal()\nz1 = np.zeros(0)\nn0 = e.n_dyads\ni0 = 0\n")
            run(q, ('neutral', sh, nd, pat, f), s, op, [('r1', 'm0'), ('r2', 'm0'), ('r3', 'm0'), ('r4', 'w4'), ('a', 'm0'), ('b', 'm0'), ('c', 'w4'), ('t', 'z'), ('k', 'zero'), ('g', 'z1'), ('n0', 'i0')],
                OPS0, f'{f} is neutral')
    q.flush()


@bound('random programs over a pool of carriers and dense mirrors: 150 programs x 8 steps [quick] / 1500 x 12 [thorough]; steps drawn from + - neg copy T conj real imag, scalar '
       'products, += -=, zeroing rows/columns, slicing, products with dense matrices and other carriers (at most 3 products per program), the caller overwriting a source vector; '
       'after every step every pool member is compared with its mirror and finally contracted/diagonalised')
def programs(r, tier, seed):
    q = Deferred(r)
    nprog, depth = (150, 8) if tier == 'quick' else (1500, 12)
    for pi in range(nprog):
        if watchdog.hits >= 6:
            break
        rng = np.random.default_rng([seed, 157, pi])
        m, n = [(3, 3), (2, 4), (4, 2), (1, 3), (3, 1)][pi % 5]
        P = ['ff', 'cc', 'fc', 'cf', 'ii', 'mix']
        src = ""
        pool = []   # (carrier name, mirror name, shape)
        for i in range(3):
            sh = (m, n) if i < 2 else (n, m)
            src += carrier(rng, i, sh, int(rng.integers(0, 4)), P[int(rng.integers(0, len(P)))])
            pool.append((f'd{i}', f'm{i}', sh))
        srcs = ['_u0', '_v0', '_u1', '_v1', '_u2', '_v2']
        ns = dict(_BASE)
        exec(src, ns)
        nmat = 0
        ok = True
        for step in range(depth):
            k = len(pool)
            a, ma, sa = pool[int(rng.integers(0, k))]
            same = [p for p in pool if p[2] == sa and p[0] != a]
            right = [p for p in pool if p[2][0] == sa[1]]
            new, mnew = f'd{k + 3 * step + 10}', f'm{k + 3 * step + 10}'
            c = int(rng.integers(0, 16))
            sc = ['2', '-1', '0.5', '1j', '(1-1j)', '0', '-2.0'][int(rng.integers(0, 7))]
            line, add = None, None
            if c == 0 and same:
                b, mb, _ = same[int(rng.integers(0, len(same)))]
                line, add = f"{new} = {a} + {b}\n{mnew} = {ma} + {mb}\n", sa
            elif c == 1 and same:
                b, mb, _ = same[int(rng.integers(0, len(same)))]
                line, add = f"{new} = {a} - {b}\n{mnew} = {ma} - {mb}\n", sa
            elif c == 2:
                u = [('-{}', '-{}'), ('{}.copy()', '{}.copy()'), ('+{}', '+{}'), ('{}.conj()', '{}.conj()'), ('{}.real', '{}.real + 0'), ('{}.imag', '{}.imag + 0')][int(rng.integers(0, 6))]
                line, add = f"{new} = {u[0].format(a)}\n{mnew} = {u[1].format(ma)}\n", sa
            elif c == 3:
                line, add = f"{new} = {a}.T\n{mnew} = {ma}.T.copy()\n", (sa[1], sa[0])
            elif c == 4:
                line, add = f"{new} = {sc} * {a}\n{mnew} = {sc} * {ma}\n", sa
            elif c == 5:
                line, add = f"{new} = {a} * {sc}\n{mnew} = {ma} * {sc}\n", sa
            elif c == 6 and same:
                b, mb, _ = same[int(rng.integers(0, len(same)))]
                line = f"{a} += {b}\n{ma} = {ma} + {mb}\n"
            elif c == 7 and same:
                b, mb, _ = same[int(rng.integers(0, len(same)))]
                line = f"{a} -= {b}\n{ma} = {ma} - {mb}\n"
            elif c == 8:
                I = ['0', '-1', '1:', '::2', 'np.array([0, 0])', f'np.array([{sa[0] - 1}])'][int(rng.integers(0, 6))]
                line = f"{a}[{I}, :] = 0\n{ma} = {ma}.copy()\n{ma}[{I}, :] = 0\n"
            elif c == 9:
                J = ['0', '-1', ':1', '::-2', 'np.array([0, -1])', f'np.array([{sa[1] - 1}])'][int(rng.integers(0, 6))]
                line = f"{a}[:, {J}] = 0.0\n{ma} = {ma}.copy()\n{ma}[:, {J}] = 0\n"
            elif c == 10:
                I = [':', '::-1', '1:', f'np.array([{sa[0] - 1}, 0, 0])', ':-1'][int(rng.integers(0, 5))]
                J = [':', '::2', f'np.array([0, {sa[1] - 1}])', '-1:', '::-1'][int(rng.integers(0, 5))]
                if not (I.startswith('np') and J.startswith('np')):
                    sub = np.zeros(sa)[eval(f'np.s_[{I}, {J}]', {'np': np})].shape
                    line, add = f"{new} = {a}[{I}, {J}]\n{mnew} = {ma}[{I}, {J}].copy()\n", sub
            elif c == 11 and nmat < 3:
                p = int(rng.integers(1, 4))
                A = mat(rng, (sa[1], p), 'fci'[int(rng.integers(0, 3))])
                line, add = f"A{step} = {lit(A)}\n{new} = {a} @ A{step}\n{mnew} = {ma} @ A{step}\n", (sa[0], p)
                nmat += 1
            elif c == 12 and nmat < 3:
                p = int(rng.integers(1, 4))
                A = mat(rng, (p, sa[0]), 'fc'[int(rng.integers(0, 2))])
                line, add = f"A{step} = {lit(A)}\n{new} = A{step} @ {a}\n{mnew} = A{step} @ {ma}\n", (p, sa[1])
                nmat += 1
            elif c == 13 and nmat < 3 and right:
                b, mb, sb = right[int(rng.integers(0, len(right)))]
                line, add = f"{new} = {a} @ {b}\n{mnew} = {ma} @ {mb}\n", (sa[0], sb[1])
                nmat += 1
            elif c == 14:
                sv = srcs[int(rng.integers(0, len(srcs)))]
                line = f"for _a in {sv}:\n    _a *= -2\n"
            elif c == 15 and same:
                b, mb, _ = same[int(rng.integers(0, len(same)))]
                line, add = f"{new} = {a} + {ma} - {b}\n{mnew} = {ma} + {ma} - {mb}\n", None
            if line is None:
                continue
            src += line
            if add is not None and len(pool) < 9 and min(add) >= 1:
                pool.append((new, mnew, add))
            q.case((pi, step, c))
            names = [(p[0], p[1]) for p in pool] + ([(new, mnew)] if add is None and line.startswith(new) else [])
            tail = f"_fails = [(g, b) for g, w in {names!r} for b in cmp(globals()[g], globals()[w])]\nprint(_fails)\nassert not _fails, _fails\n"
            try:
                with watchdog(2.0):
                    exec(line, ns)
                fails = [(g, b) for g, w in names for b in ns['cmp'](ns[g], ns[w])]
            except Timeout:
                fails = [(a, 'does not terminate (no result after 2 s)')]
            except Exception as e:
                fails = [(a, f'raises {type(e).__name__}: {str(e)[:120]}')]
            for g, b in fails:
                q.fail(f'program step `{line.splitlines()[-2] if len(line.splitlines()) > 1 else line.strip()}`: {g}: {b}', dict(program=pi, step=step), None, PRE + src + tail,
                       finding=F_KIND if b == KIND_LOST else None)
            if fails:
                ok = False
                break
        if ok:
            fin = ""
            res = []
            for j, (dn, mn, sh) in enumerate(pool):
                fin += f"B{j} = {lit(mat(rng, sh, 'fc'[j % 2]))}\nf{j} = {dn}.contract(B{j})\ng{j} = cref({mn}, B{j})\nh{j} = {dn}.diagonal(-1 if {sh[0]} > 1 else 0)\ni{j} = np.diagonal({mn}, -1 if {sh[0]} > 1 else 0) + 0\n"
                res += [(f'f{j}', f'g{j}'), (f'h{j}', f'i{j}'), (dn, mn)]
            tail = f"_fails = [(g, b) for g, w in {res!r} for b in cmp(globals()[g], globals()[w])]\nprint(_fails)\nassert not _fails, _fails\n"
            q.case((pi, 'final'))
            try:
                exec(fin, ns)
                fails = [(g, b) for g, w in res for b in ns['cmp'](ns[g], ns[w])]
            except Exception as e:
                fails = [('final', f'raises {type(e).__name__}: {str(e)[:120]}')]
            for g, b in fails:
                q.fail(f'after program: {g}: {b}', dict(program=pi), None, PRE + src + fin + tail, finding=F_KIND if b == KIND_LOST else None)
    q.flush()


# --------------------------------------------------------------------------------------------------------------- scaling
PATTERNS['xm'] = ['cf', 'ff', 'fc']   # a complex dyad first: outside the region of C15-getitem-real-then-complex

# per dyad: (exponent of u, exponent of v); 'z' is an exactly zero vector (the only thing a carrier may drop). Every non-zero dyad of one carrier has the
# same product scale 2**(eu+ev): all entries of the dense reference and of every result are integers times one power of two, hence exact.
SPECS = {'tiny x huge': [(-40, 40)],
         'mixed': [(0, 0), (-40, 40), ('z', 40), (40, -40)],
         '60': [(-60, 60), (60, -60), (0, 0)],
         'all tiny': [(-40, -40), (-80, 0), (-40, 'z'), (0, -80)],
         'one side': [(-40, 0), (0, -40)],
         'huge': [(40, 40), (0, 80), (80, 0)],
         'tiny 60': [(-60, 0), ('z', -60), (0, -60), (-30, -30)]}

SCALE_PAIRS = [('2.0**-40', '2.0**40'), ('2.0**40', '2.0**-40'), ('-2.0**-60', '-2.0**60'), ('np.float64(2.0**-52)', 'np.float64(2.0**52)'),
               ('(2.0**-45 * 1j)', '(-2.0**45 * 1j)'), ('2.0**70', '2.0**-70'), ('np.array(2.0**-40)', 'np.array(2.0**40)')]


def spec_scale(spec):
    return [eu + ev for eu, ev in spec if 'z' not in (eu, ev)][0]


def slit(a, e):
    return lit(a) if e == 0 else f"2.0**{e} * {lit(a)}"


def nonzero(a):
    if not np.any(a):
        a.flat[-1] = 1
    return a


def scarrier(rng, i, shape, spec, pat):
    """like carrier(), every vector multiplied by the power of two of its spec entry"""
    m, n = shape
    us, vs = [], []
    for k, (eu, ev) in enumerate(spec):
        ku, kv = PATTERNS[pat][k % len(PATTERNS[pat])]
        u, v = nonzero(vec(rng, m, ku)), nonzero(vec(rng, n, kv))
        us.append(f"np.zeros({m})" if eu == 'z' else slit(u, eu))
        vs.append(f"np.zeros({n})" if ev == 'z' else slit(v, ev))
    sh = f", shape=({m}, {n})" if rng.integers(0, 2) else ""
    return (f"_u{i} = [{', '.join(us)}]\n_v{i} = [{', '.join(vs)}]\n"
            f"d{i} = D(_u{i}, _v{i}{sh})\nm{i} = osum(_u{i}, _v{i}, ({m}, {n}))\n")


@bound('carriers whose vectors are non-zero but badly scaled: shapes {1x1,3x3,2x4,3x1} (all shapes thorough) x 7 scale layouts (2**-40 u with 2**40 v, 2**-60/2**60, both '
       'factors tiny with product scale 2**-80 / 2**-60 / 2**-40, both huge, each mixed with ordinary dyads and exactly-zero vectors) x dtype patterns ff/cc/fc/cf/cf-ff-fc '
       '(3 of 5 per layout in quick); construction from lists, tuples, bare vectors, python lists, blocks (also nearly cancelling rows), add_dyad with fac 2**k and -0.5, '
       '+= / -= of rescaled carriers, 7 scalars 2**k (real, complex, numpy) from either side and their round trips (s*D)*(1/s), 12 slicings, @ / dot / __rdot__ with dense, '
       'sparse, vector and carrier operands also pre-multiplied by 2**-45 / 2**45, T/conj/real/imag/neg compositions, diagonal, contract (trace, dense, scaled, batched, '
       'sliced, sparse) and contract_multi; comparison relative to the largest exact reference entry')
def scaling(r, tier, seed):
    q = Deferred(r)
    rng = np.random.default_rng(seed + 158)
    quick = tier == 'quick'
    P = ['ff', 'cc', 'fc', 'cf', 'xm']
    names = list(SPECS)
    for si, sh in enumerate([(1, 1), (3, 3), (2, 4), (3, 1)] if quick else shapes(tier)):
        m, n = sh
        for ki, sn in enumerate(names):
            for pi, pat in enumerate(P):
                if quick and (si + ki + pi) % 5 in (1, 3):
                    continue
                spec, spec1, spec2 = SPECS[sn], SPECS[names[(ki + si + 1) % len(names)]], SPECS[names[(ki + pi + 3) % len(names)]]
                E0, E1 = spec_scale(spec), spec_scale(spec1)
                eu, ev = spec[0]
                ku, kv = PATTERNS[pat][0]
                s = scarrier(rng, 0, sh, spec, pat) + scarrier(rng, 1, sh, spec1, P[(pi + 1) % 5]) + scarrier(rng, 2, (n, 2), spec2, P[(pi + 2) % 5])
                Ub, Vb, a = mat(rng, (2, m), ku), mat(rng, (3, n), kv), nonzero(vec(rng, m, ku))
                if not np.any(Ub.sum(0)):
                    Ub[0, 0] += 1
                if not np.any(Vb.sum(0)):
                    Vb[0, -1] += 1
                Un = np.stack([a, -a])
                Un[1, -1] += 1     # rows cancel except for one entry: the block sum is tiny, not zero
                dense = dict(A=((n, 3), 'f'), Ac=((n, 2), 'c'), L=((2, m), 'f'), Lc=((3, m), 'c'), x=((n,), 'f'), xc=((n,), 'c'), y=((m,), 'f'), yc=((m,), 'c'),
                             Bf=((m, n), 'f'), Bc=((m, n), 'c'), Bb=((3, m, n), 'f'), Brc=((3, 2), 'c'), B23=((4, 2, 3), 'f'))
                s += f"U = {slit(Ub, eu)}\nV = {slit(Vb, ev)}\nUn = {slit(Un, eu)}\nf = 2.0**{E0 - E1}\n"
                s += "".join(f"{nm} = {lit(mat(rng, shp, k))}\n" for nm, (shp, k) in dense.items())
                s += (f"R1 = {lit(rng.integers(0, m, 3))}\nC1 = {lit(rng.integers(0, n, 3))}\nC2 = {lit(rng.integers(0, n, 2))}\nRB = {lit(rng.integers(0, m, (4, 2)))}\n"
                      f"CB = {lit(rng.integers(0, n, (4, 3)))}\nI1 = np.array([{m - 1}, 0, 0])\nJ1 = np.array([0, {n - 1}, 0])\nMk = np.array({[bool(i % 2 == 0) for i in range(n)]})\n")
                ops = [('d0', 'm0'), ('d1', 'm1'), ('d2', 'm2'), '_u0', '_v0', '_u1', '_v1', '_u2', '_v2', 'U', 'V', 'Un', 'R1', 'C1', 'C2', 'RB', 'CB', 'I1', 'J1', 'Mk'] + list(dense)
                items = []

                def it(name, op, results):
                    items.append(((name, sh, sn, pat), op, results, f'{name} (badly scaled non-zero vectors: {sn})', None))
                z = f"({m}, {n})"
                it('lists / tuples / bare vectors / python lists',
                   f"c1 = d0.copy()\nt0 = D(tuple(_u0), tuple(_v0))\nb0 = D(_u0[0], _v0[0])\nwb = osum(_u0[:1], _v0[:1], {z})\np0 = D([a.tolist() for a in _u0], [a.tolist() for a in _v0])\n",
                   [('c1', 'm0'), ('t0', 'm0'), ('b0', 'wb'), ('p0', 'm0')])   # d0 itself is compared with m0 as an operand
                it('blocks', f"k1 = D(U, V)\nw1 = osum([U], [V], {z})\nk2 = D([U, _u0[0]], [V, _v0[0]])\nw2 = osum([U, _u0[0]], [V, _v0[0]], {z})\nk3 = D(Un, V)\nw3 = osum([Un], [V], {z})\n"
                   f"k4 = D([Un, U], [V, V])\nw4 = w3 + w1\n", [('k1', 'w1'), ('k2', 'w2'), ('k3', 'w3'), ('k4', 'w4')])
                it('add_dyad with and without fac',
                   f"e = D(shape={z})\ne.add_dyad(_u0, _v0)\nk1 = e.copy()\ne.add_dyad(_u1, _v1, fac=f)\nw2 = m0 + f * m1\nk2 = e.copy()\ne.add_dyad(_u0[0], _v0[0], -0.5)\n"
                   f"w3 = w2 - 0.5 * osum(_u0[:1], _v0[:1], {z})\nk3 = e.copy()\ne.add_dyad(U, V)\ne.add_dyad(Un, V, fac=-2.0)\nw4 = w3 + osum([U], [V], {z}) - 2.0 * osum([Un], [V], {z})\n",
                   [('k1', 'm0'), ('k2', 'w2'), ('k3', 'w3'), ('e', 'w4')])
                it('+= / -=', "a = d0.copy()\nk0 = a\na += f * d1\nw1 = m0 + f * m1\nc1 = a.copy()\na -= d1 * f\nw2 = w1 - m1 * f\nc2 = a.copy()\na -= 2 * d0\nw3 = w2 - 2 * m0\nc3 = a.copy()\na += d0\na += d0.T.T\n"
                   "w4 = w3 + m0 + m0\nb = (f * d1).copy()\nb -= d0\nw5 = f * m1 - m0\nsame = a is k0\nyes = True\n", [('c1', 'w1'), ('c2', 'w2'), ('c3', 'w3'), ('a', 'w4'), ('b', 'w5'), ('same', 'yes')])
                it('+ / -', "r1 = d0 + f * d1\nw1 = m0 + f * m1\nr2 = d0 - d1 * f\nw2 = m0 - m1 * f\nr3 = f * d1 - d0\nw3 = f * m1 - m0\nr4 = -d0\nw4 = -m0\nr5 = d0 + f * d1 - d0\nw5 = m0 + f * m1 - m0\n",
                   [('r1', 'w1'), ('r2', 'w2'), ('r3', 'w3'), ('r4', 'w4'), ('r5', 'w5')])
                for sc, inv in SCALE_PAIRS:
                    it(f'scalar {sc}', f"r1 = {sc} * d0\nw1 = {sc} * m0\nr2 = d0 * {sc}\nr3 = ({sc} * d0) * {inv}\nw3 = ({sc} * m0) * {inv}\nr4 = {inv} * (d0 * {sc})\nr5 = ({inv} * ({sc} * d0).T).T\n"
                       f"r6 = (({sc} * d0) @ A) * {inv}\nw6 = (m0 @ A) * {sc} * {inv}\n", [('r1', 'w1'), ('r2', 'w1'), ('r3', 'w3'), ('r4', 'w3'), ('r5', 'w3'), ('r6', 'w6')])
                for I, J in (('1:', ':'), (':', ':-1'), ('::-1', '::2'), ('I1', ':'), (':', 'Mk'), ('-1:', 'J1'), ('0', ':'), (':', '-1'), (f'{m - 1}', '0'), ('I1', 'J1'), ('-1', '::-1'), (':', ':')):
                    it(f'd[{I}, {J}]', f"r = d0[{I}, {J}]\nw = m0[{I}, {J}]\n", [('r', 'w')])
                it('@ dense', "r1 = d0 @ A\nw1 = m0 @ A\nr2 = L @ d0\nw2 = L @ m0\nr3 = d0 @ Ac\nw3 = m0 @ Ac\nr4 = Lc @ d0\nw4 = Lc @ m0\nr5 = L @ d0 @ A\nw5 = L @ m0 @ A\n",
                   [('r1', 'w1'), ('r2', 'w2'), ('r3', 'w3'), ('r4', 'w4'), ('r5', 'w5')])
                it('@ rescaled dense', "r1 = d0 @ (2.0**-45 * A)\nw1 = m0 @ (2.0**-45 * A)\nr2 = (2.0**45 * L) @ d0\nw2 = (2.0**45 * L) @ m0\nr3 = (2.0**-45 * Lc) @ d0 @ (2.0**45 * Ac)\nw3 = Lc @ m0 @ Ac\n"
                   "r4 = (d0 @ (2.0**-45 * A)) * 2.0**45\nw4 = m0 @ A\nr5 = 2.0**-60 * ((2.0**60 * L) @ d0)\nw5 = L @ m0\n", [('r1', 'w1'), ('r2', 'w2'), ('r3', 'w3'), ('r4', 'w4'), ('r5', 'w5')])
                it('vectors / dot', "r1 = d0 @ x\nw1 = m0 @ x\nr2 = y @ d0\nw2 = y @ m0\nr3 = d0.dot(2.0**-45 * xc)\nw3 = m0 @ (2.0**-45 * xc)\nr4 = d0.__rdot__(2.0**45 * yc)\nw4 = (2.0**45 * yc) @ m0\n"
                   "r5 = d0.dot(2.0**-45 * A)\nw5 = m0 @ (2.0**-45 * A)\nr6 = d0.__rdot__(L)\nw6 = L @ m0\nr7 = (L @ d0) @ (2.0**45 * x)\nw7 = L @ m0 @ (2.0**45 * x)\n",
                   [('r1', 'w1'), ('r2', 'w2'), ('r3', 'w3'), ('r4', 'w4'), ('r5', 'w5'), ('r6', 'w6'), ('r7', 'w7')])
                it('@ sparse', "r1 = d0 @ sp.csr_matrix(2.0**-45 * A)\nw1 = m0 @ (2.0**-45 * A)\nr2 = sp.coo_matrix(2.0**45 * Lc) @ d0\nw2 = (2.0**45 * Lc) @ m0\n", [('r1', 'w1'), ('r2', 'w2')])
                it('@ carrier', "r1 = d0 @ d2\nw1 = m0 @ m2\nr2 = d2.T @ d0.T\nw2 = m2.T @ m0.T\nr3 = d0.T @ d0\nw3 = m0.T @ m0\nr4 = d0 @ d0.conj().T\nw4 = m0 @ m0.conj().T\nr5 = (2.0**-45 * d0) @ (d2 * 2.0**45)\n",
                   [('r1', 'w1'), ('r2', 'w2'), ('r3', 'w3'), ('r4', 'w4'), ('r5', 'w1')])
                for name, a_, b_ in UNARY:
                    if name in ('T', 'conj', 'real', 'imag', 'neg', 'copy', 'todense', 'add self', 'sub self', 'T.T', 'conj.T', 'real.T', 'T.imag', 'neg.conj', 'real+1j*imag', 'conj.imag', 'iscomplex'):
                        it(name, a_ + "\n" + b_ + "\n", [('r', 'w')])
                it('diagonal', "".join(f"r{k + 1} = d0.diagonal({k})\nw{k + 1} = np.diagonal(m0, {k}) + 0\n" for k in (-1, 0, 1)), [('r0', 'w0'), ('r1', 'w1'), ('r2', 'w2')])
                lines = [("contract(Bf)", "cref(m0, Bf)"), ("contract(2.0**-45 * Bc)", "cref(m0, 2.0**-45 * Bc)"), ("contract(2.0**45 * Bb)", "cref(m0, 2.0**45 * Bb)"),
                         ("contract(Brc, R1, C2)", "cref(m0, Brc, R1, C2)"), ("contract(rows=R1, cols=C1)", "cref(m0, None, R1, C1)"), ("contract(B23, RB, CB)", "cref(m0, B23, RB, CB)"),
                         ("contract(sp.csr_matrix(2.0**-45 * Bf))", "cref(m0, 2.0**-45 * Bf)"), ("contract(sp.coo_matrix(Bc))", "cref(m0, Bc)")] + ([("contract()", "cref(m0)")] if m == n else [])
                for call, ref in lines:
                    it(call, f"r = d0.{call}\nw = {ref}\n", [('r', 'w')])
                # entries of different scale are brought to one scale (exactly, by powers of two) before the comparison
                it('contract_multi', "S = [sp.coo_matrix(Bf), None, sp.csr_matrix(2.0**-45 * Bf), 2.0**40 * Bf]\nr = d0.contract_multi(S) / np.array([1, 1, 2.0**-45, 2.0**40])\n"
                   "w = np.array([cref(m0, Bf), 0, cref(m0, Bf), cref(m0, Bf)]) + 0 * m0.dtype.type(0)\nSc = [sp.coo_matrix(2.0**-45 * Bc), sp.coo_matrix(Bf)]\nr2 = d0.contract_multi(Sc) / np.array([2.0**-45, 1])\n"
                   "w2 = np.array([cref(m0, Bc), cref(m0, Bf)])\n", [('r', 'w'), ('r2', 'w2')])
                run_many(q, s, ops, items, probe=True)
    q.flush()


# ------------------------------------------------------------------------------------------------------------- histories
def zero_kinds(n):
    """subscripts for d[I, :] = 0 / d[:, J] = 0 on an axis of length n (the null slice is C15-setitem-all-noop and is taken, tagged, in `indexing`)"""
    return ['0', '-1', f'np.int64({n - 1})', '1:', ':1', '::2', '-1:', f'np.array([{n - 1}, 0, 0])', 'np.array([-1])', f'np.array({[bool(i % 2 == 0) for i in range(n)]})',
            f'[{n - 1}]', 'np.zeros(0, dtype=int)', '0:0', f'slice(0, {n}, 3)']


ZEROS = ['0', '0.0', 'False', 'np.float64(0)', '-0.0', 'np.int64(0)']

# how the carrier of the history came into being: (name, expression in terms of the untouched carrier src0 = D(_u0, _v0), is it the transpose of src0)
FORMS = [('constructed', 'D(_u0, _v0, shape=src0.shape)', False), ('copy', 'src0.copy()', False), ('copy of copy', 'src0.copy().copy()', False), ('T.T', 'src0.T.T', False),
         ('T', 'src0.T', True), ('transpose of copy', 'src0.copy().transpose()', True), ('copy of T', 'src0.T.copy()', True), ('T of D(v, u)', 'D(_v0, _u0).T', False),
         ('+d', '+src0', False), ('-(-d)', '-(-src0)', False), ('d[:, :]', 'src0[:, :]', False), ('add_dyad', 'D(shape=src0.shape).add_dyad(_u0, _v0)', False),
         ('d + empty', 'src0 + D(shape=src0.shape)', False), ('conj.conj', 'src0.conj().conj()', False), ('1 * d.T', '1 * src0.T', True)]

DOUBLE = ('todense', 'diagonal0', 'contract_B', 'contract_batch_rows_cols', 'contract_multi_S', 'contract_multi_Sc', 'slice1', 'slice5', 'row0', 'pairs', 'dot')


def read_block(tag, m, n, uni_ok):
    """source text making every read operation on d0 (those in DOUBLE twice) with the value the current dense mirror wd gives next to it; returns (text, results)"""
    R = [('todense', 'd0.todense()', 'wd.copy()'), ('toarray', 'd0.toarray()', 'wd.copy()'), ('copy', 'd0.copy()', 'wd.copy()'), ('T', 'd0.T', 'wd.T.copy()'),
         ('diagonal0', 'd0.diagonal()', 'np.diagonal(wd) + 0'), ('diagonal1', 'd0.diagonal(1)', 'np.diagonal(wd, 1) + 0'), ('diagonal_1', 'd0.diagonal(-1)', 'np.diagonal(wd, -1) + 0'),
         ('contract_B', 'd0.contract(Bf)', 'cref(wd, Bf)'), ('contract_Bc', 'd0.contract(Bc)', 'cref(wd, Bc)'), ('contract_coo', 'd0.contract(Sp0)', 'cref(wd, Bf)'), ('contract_batch', 'd0.contract(Bb)', 'cref(wd, Bb)'),
         ('contract_batch_rows_cols', 'd0.contract(B23, RB, CB)', 'cref(wd, B23, RB, CB)'), ('contract_rows_cols', 'd0.contract(rows=R1, cols=C1)', 'cref(wd, None, R1, C1)'),
         ('contract_multi_S', 'd0.contract_multi(S)', 'np.array([cref(wd, Bf), 0, cref(wd, Bg), cref(wd, Bf), 0]) + 0 * wd.dtype.type(0)'),
         ('contract_multi_Sc', 'd0.contract_multi(Sc)', 'np.array([cref(wd, Bc), cref(wd, Bf), 0])'),
         ('slice1', 'd0[1:, :]', 'wd[1:, :].copy()'), ('slice2', 'd0[::-1, ::2]', 'wd[::-1, ::2].copy()'), ('slice3', 'd0[I1, :]', 'wd[I1, :].copy()'), ('slice4', 'd0[:, Mk]', 'wd[:, Mk].copy()'),
         ('slice5', 'd0[:, :]', 'wd.copy()'), ('dot', 'd0 @ x', 'wd @ x'), ('rdot', 'y @ d0', 'y @ wd')]
    if m == n:
        R.append(('trace', 'd0.contract()', 'cref(wd)'))
    if uni_ok:
        R += [('row0', 'd0[0, :]', 'wd[0, :].copy()'), ('col_last', 'd0[:, -1]', 'wd[:, -1].copy()'), ('element', f'd0[{m - 1}, 0]', f'wd[{m - 1}, 0]'), ('pairs', 'd0[I1, J1]', 'wd[I1, J1].copy()')]
    text, res = "", []
    for nm, expr, ref in R:
        text += f"{tag}_{nm} = {expr}\n{tag}_{nm}_w = {ref}\n"
        res.append((f'{tag}_{nm}', f'{tag}_{nm}_w'))
        if nm in DOUBLE:
            text += f"{tag}_{nm}_again = {expr}\n"
            res.append((f'{tag}_{nm}_again', f'{tag}_{nm}_w'))
    return text, res


SCRIBBLE = ("_t = d0.todense()\n_t += 7.0\n_g = d0.diagonal()\n_g -= 1.0\n_q = d0.contract_multi(S)\n_q += 1.0\n_c = d0.copy()\n_c[0, :] = 0\n_c[:, -1] = 0\n_c += d1\n_s = d0[:, :]\n_s[:, 0] = 0\n"
            "_k = d0.T\n_k[0, :] = 0\n_k -= d2.T\n_e = d0[::-1, :]\n_e[-1:, :] = 0\n")


def describe(mods):
    return ', '.join(' '.join(str(x) for x in md[:2]) for md in mods)


def real_before_complex(kinds):
    """d[i, :], d[:, j], d[i, j], d[ar, ar] accumulate in place into the product of the first dyad: they raise as soon as a later dyad has a wider type (int < float < complex)"""
    return any(a < b for i, a in enumerate(kinds) for b in kinds[i + 1:])


def dyad_kinds(nd, pat, negated=False):
    """type rank of u_k * v_k for every dyad: 0 int, 1 float, 2 complex (-= stores -1.0 * u: at least float)"""
    pp = [PATTERNS[pat][k % len(PATTERNS[pat])] for k in range(nd)]
    return [2 if 'c' in p else (0 if p == 'ii' and not negated else 1) for p in pp]


def history(q, key, rng, sh, form, c0, c1, c2, mods, what):
    """one carrier d0 (made from src0 by `form`), mirror wd; mods: ('rows', I, z) | ('cols', J, z) | ('iadd', j) | ('isub', j) | ('scribble',); all reads before and after every mod"""
    fname, fexpr, tr = form
    m, n = sh
    s = carrier(rng, 0, sh[::-1] if tr else sh, c0[0], c0[1]) + f"src0 = d0\nd0 = {fexpr}\nwd = m0{'.T' if tr else ''}.copy()\n"
    s += carrier(rng, 1, sh, c1[0], c1[1]) + carrier(rng, 2, sh, c2[0], c2[1])
    dense = dict(Bf=((m, n), 'f'), Bg=((m, n), 'f'), Bc=((m, n), 'c'), Bb=((3, m, n), 'f'), B23=((4, 2, 3), 'c'), x=((n,), 'f'), y=((m,), 'c'))
    s += "".join(f"{nm} = {lit(mat(rng, shp, k))}\n" for nm, (shp, k) in dense.items())
    s += (f"R1 = {lit(rng.integers(0, m, 3))}\nC1 = {lit(rng.integers(0, n, 3))}\nRB = {lit(rng.integers(0, m, (4, 2)))}\nCB = {lit(rng.integers(0, n, (4, 3)))}\n"
          f"I1 = np.array([{m - 1}, 0, 0])\nJ1 = np.array([0, {n - 1}, 0])\nMk = np.array({[bool(i % 2 == 0) for i in range(n)]})\n"
          f"Sp0 = sp.coo_matrix(Bf)\nSp1 = sp.csr_matrix(Bg)\nSp2 = sp.coo_matrix(({m}, {n}))\nSp3 = sp.coo_matrix(Bc)\n"
          "S = [Sp0, None, Sp1, Bf, Sp2]      # the same list objects are passed to contract_multi at every step\nSc = [Sp3, Sp0, None]\n")
    operands = [('src0', 'm0'), ('d1', 'm1'), ('d2', 'm2'), '_u0', '_v0', '_u1', '_v1', '_u2', '_v2', 'R1', 'C1', 'RB', 'CB', 'I1', 'J1', 'Mk', 'Sp0', 'Sp1', 'Sp2', 'Sp3'] + list(dense)
    kinds = [dyad_kinds(*c) for c in (c0, c1, c2)]
    nkinds = [dyad_kinds(*c, negated=True) for c in (c0, c1, c2)]
    cur = list(kinds[0])
    op, results = read_block('step0', m, n, not real_before_complex(cur))
    modtext, unsafe_at = "", (("", 0) if real_before_complex(cur) else None)
    for k, md in enumerate(mods):
        if md[0] == 'rows':
            t = f"d0[{md[1]}, :] = {md[2]}\nwd = wd.copy()\nwd[{md[1]}, :] = 0\n"
        elif md[0] == 'cols':
            t = f"d0[:, {md[1]}] = {md[2]}\nwd = wd.copy()\nwd[:, {md[1]}] = 0\n"
        elif md[0] == 'iadd':
            t = f"d0 += d{md[1]}\nwd = wd + m{md[1]}\n"
            cur += kinds[md[1]]
        elif md[0] == 'isub':
            t = f"d0 -= d{md[1]}\nwd = wd - m{md[1]}\n"
            cur += nkinds[md[1]]
        else:
            t = SCRIBBLE
        modtext += t
        if unsafe_at is None and real_before_complex(cur):
            unsafe_at = (modtext, k + 1)
        b, rs = read_block(f'step{k + 1}', m, n, not real_before_complex(cur))
        op += f"# step {k + 1}\n" + t + b
        results += rs
    ns = run(q, key, s, op, results + [('d0', 'wd')], operands, what)
    if ns is not None:
        for k in range(len(mods)):
            q.case((key, 'step', k + 1))
    if unsafe_at is not None:
        # d[i, :] / d[:, j] / d[i, j] / d[ar, ar] once a dyad of narrower type precedes a wider one: known to raise; kept visible, one program per history
        run(q, (key, 'element access'), s, unsafe_at[0] + f"g1 = d0[0, :]\nw1 = wd[0, :].copy()\ng2 = d0[:, -1]\nw2 = wd[:, -1].copy()\ng3 = d0[{m - 1}, 0]\nw3 = wd[{m - 1}, 0]\ng4 = d0[I1, J1]\nw4 = wd[I1, J1].copy()\n",
            [('g1', 'w1'), ('g2', 'w2'), ('g3', 'w3'), ('g4', 'w4')], operands, what + f' (row/column/element access after step {unsafe_at[1]})', hint={'raise': F_GETMIX})


@bound('one carrier d0 with its dense mirror through sequences of in-place modifications, every read operation before and after each of them: reads = todense, toarray, copy, T, '
       'diagonal(0,+1,-1), contract (dense real/complex, coo, batched, batched rows+cols, rows/cols only, trace), contract_multi with the same two list objects every time, 5 '
       'slicings, 4 row/column/element accesses, d @ x, y @ d (11 of them called twice per step); modifications = d[I, :] = 0 and d[:, J] = 0 with 14 index kinds (int, numpy int, '
       'slices, index arrays with repeats / negative / empty, boolean mask, python list, slice object) and 6 spellings of zero, += and -= of two other carriers (0-2 dyads), and the '
       'caller overwriting returned arrays / modifying copies, transposes and slices. d0 is made in 15 ways (constructed, copy, T, T.T, copy of T, slices, +, -(-d), add_dyad, '
       'conj.conj, ...) from a carrier that must stay untouched. Systematic: 15 forms x 3 shapes {3x3,2x4,3x1}, fixed 9-step sequence with rotating index kinds and 7 '
       'dtype-pattern triples (one per form and shape in quick, all 7 thorough); row/column/element access is read in a separate tagged program once it is known to raise; '
       'random: 60 programs x 6 steps [quick] / 600 x 10 [thorough] over shapes {3x3,2x4,4x2,1x3,3x1}, 1-3 dyads, patterns ff/cc/fc/cf/ii/mix')
def histories(r, tier, seed):
    q = Deferred(r)
    quick = tier == 'quick'
    rng = np.random.default_rng(seed + 159)
    combos = [(('ff', 'ff', 'ff')), ('cc', 'cc', 'ff'), ('fc', 'ff', 'cf'), ('ff', 'cc', 'fc'), ('cf', 'fc', 'ii'), ('mix', 'ff', 'cc'), ('ii', 'ff', 'ff')]
    t = 0
    for form in FORMS:
        for sh in [(3, 3), (2, 4), (3, 1)]:
            for _ in range(1 if quick else len(combos)):
                m, n = sh
                zr, zc = zero_kinds(m), zero_kinds(n)
                p0, p1, p2 = combos[t % len(combos)]
                mods = [('rows', zr[t % len(zr)], ZEROS[t % 6]), ('iadd', 1), ('cols', zc[(t + 3) % len(zc)], ZEROS[(t + 1) % 6]), ('scribble',), ('isub', 2),
                        ('rows', zr[(t + 5) % len(zr)], ZEROS[(t + 2) % 6]), ('cols', zc[(2 * t + 1) % len(zc)], ZEROS[(t + 3) % 6]), ('iadd', 1), ('isub', 1)]
                history(q, ('systematic', form[0], sh, p0, p1, p2, t), rng, sh, form, (1 + t % 3, p0), (1 + (t + 1) % 2, p1), ((t + 2) % 3, p2), mods, f'history on d0 = {form[0]}: ' + describe(mods))
                t += 1
    nprog, depth = (60, 6) if quick else (600, 10)
    P = ['ff', 'cc', 'fc', 'cf', 'ii', 'mix']
    for pi in range(nprog):
        if watchdog.hits >= 6:
            break
        rng = np.random.default_rng([seed, 159, pi])
        sh = [(3, 3), (2, 4), (4, 2), (1, 3), (3, 1)][pi % 5]
        form = FORMS[int(rng.integers(0, len(FORMS)))]
        zr, zc = zero_kinds(sh[0]), zero_kinds(sh[1])
        mods = []
        for _ in range(depth):
            c = int(rng.integers(0, 10))
            if c < 3:
                mods.append(('rows', zr[int(rng.integers(0, len(zr)))], ZEROS[int(rng.integers(0, 6))]))
            elif c < 6:
                mods.append(('cols', zc[int(rng.integers(0, len(zc)))], ZEROS[int(rng.integers(0, 6))]))
            elif c < 9:
                mods.append((('iadd', 'isub')[int(rng.integers(0, 2))], 1 + int(rng.integers(0, 2))))
            else:
                mods.append(('scribble',))
        cs = [(int(rng.integers(lo, hi)), P[int(rng.integers(0, len(P)))]) for lo, hi in ((1, 4), (0, 3), (0, 3))]
        history(q, ('random', pi), rng, sh, form, cs[0], cs[1], cs[2], mods, f'history on d0 = {form[0]}: ' + describe(mods))
    q.flush()


CHECKS = [('construction', construction), ('unary_scalar', unary_scalar), ('binary', binary), ('products', products), ('indexing', indexing),
          ('contraction', contraction), ('unshaped', unshaped), ('programs', programs), ('scaling', scaling), ('histories', histories)]
