"""C04 bounded stand-ins: back-propagation of every single module is linear in the seed, accumulative, and leaves states alone;
response() leaves its inputs and every sensitivity alone.

Every case is a Python *program text* defining `build(rng)` -> module (its input states drawn from rng, its options fixed). One protocol
(`protocol`, part of the text, so that every replay is stand-alone) is run on it:

  R   response() with sensitivities already present on the inputs (and, later, on the outputs): no input state object is replaced or
      modified, no sensitivity is touched
  S   every sensitivity() and reset() call: no state (input, output, base signal of a slice) is replaced or modified
  L   g(a*w1 + b*w2) = a*g(w1) + b*g(w2) for several (a, b) including zeros and negative values, partial seeds (outputs left unseeded),
      the same seed arrays re-used
  A   k = 1, 2, 3 sensitivity() calls without reset give k*g; replacing the seed between two calls gives g1 + g2; a sensitivity already
      present on an input is kept (p + g)
  Z   reset() clears every sensitivity; the next back-propagation gives g again (nothing left from the previous one)
  H   histories: response() again, other input states, back to the first ones; compared with a fresh module where the module has no
      documented memory

A second protocol (`structured`, also part of the text) repeats clause L with STRUCTURED seeds, where a contribution can be skipped silently:
  T   seeds that are constant (all ones, all 2.5), have a single non-zero entry, zero entries / one zero column next to non-zero ones, identical columns, a constant column
      next to generic ones (matrix outputs: the same as carriers and dense arrays), and sums of such seeds: g(w1) + g(w2) = g(w1 + w2) for neighbouring pairs, g(a w) = a g(w)
      for a in {2.5, -1, 0.5}, the sum of all, every output alone adding up to the joint seed; each g(w) also against a reference derivative <g(w), D> = d/dt <w, y(x + t D)>
      (central differences, t = 1e-6, tolerance 1e-5 of sum |g||D| + |w||dy/dt|; D = a second draw of the inputs minus the first, so it stays in the matrix class). For EigenSolve
      y(.) is an independent dense eigen-decomposition with the module's normalisation (eig_ref: numpy.linalg.eigh / eig, q.B.q = 1, sign by mean, k nearest sigma; spectra with
      gaps >= 0.5; tolerance 1e-6), never the module; elsewhere y(.) is the module's own response (no reference for modules with a documented memory or AggScaling).
      Comparisons of T are relative to |g| plus the largest |g| over the structured seeds of the case (a constant seed can be annihilated exactly, e.g. all ones on a stiffness matrix).

The reference for L/A/Z is computed from separately obtained g(w1), g(w2) (the clause is a relation between runs); states are compared
with deep snapshots (value, dtype, shape, object identity). Data are well conditioned (diagonally dominant matrices, positive densities),
so every comparison uses a norm-wise relative tolerance of 1e-9 (1e-6 where an iterative solver or ARPACK is involved).

Findings kept visible:  C04-soe-overwrites-input  SystemOfEquations / StaticCondensation.response() replace the state of their input
matrix signal by the free-free block (they hand their own input signal to the internal LinSolve and assign its state).
C04-einsum-partial-sum-raises  EinSum('ij->j'), EinSum('i,j->') (an index summed out that occurs in one operand only): sensitivity() raises (the adjoint expression 'j->ij' is not an einsum).
C04-concat-scalar-raises  ConcatSignal with a python-scalar input state: sensitivity() raises TypeError (float() of a length-1 array, numpy >= 2).
C04-lda-dependent-seed-columns  LinSolve (also inside SystemOfEquations / StaticCondensation) with LDAWrapper and a block right-hand side: back-propagating a seed whose non-zero columns are
linearly dependent (all ones, identical columns) stores a normalised round-off vector as a solution pair (root cause C06-dependent-block-garbage); every later sensitivity() until the next
response() is wrong by ~1e-3, so g(w1) + g(w2) != g(w1 + w2).  The full structured seed set is tagged in that region, the seeds with independent columns are checked untagged.
"""
import re
import signal
import numpy as np
from native.util import bound, REPLAY_HEAD

HELPER = r'''
import copy, warnings, os, tempfile
warnings.filterwarnings('ignore')
import scipy.sparse as sp
D = pym.DyadCarrier


def snap(x):
    if x is None:
        return ('N',)
    if isinstance(x, D):
        return ('D', tuple(x.shape), str(x.dtype), [a.copy() for a in x.u] + [a.copy() for a in x.v], len(x.u))
    if sp.issparse(x):
        return ('S', x.format, x.shape, str(x.dtype), x.toarray())
    if isinstance(x, np.ndarray):
        return ('A', type(x).__name__, x.shape, str(x.dtype), np.array(x, copy=True))
    return ('P', type(x).__name__, copy.deepcopy(x))


def same(s, t):
    if s[0] != t[0]:
        return False
    if s[0] == 'N':
        return True
    if s[0] == 'D':
        return s[1:3] == t[1:3] and s[4] == t[4] and all(a.dtype == b.dtype and np.array_equal(a, b) for a, b in zip(s[3], t[3]))
    if s[0] in 'SA':
        return s[1:4] == t[1:4] and np.array_equal(s[4], t[4], equal_nan=True)
    try:
        return s[1] == t[1] and bool(s[2] == t[2])
    except Exception:
        return False


def dn(g):
    if g is None:
        return 0.0
    if isinstance(g, D):
        return g.todense() if g.shape[0] >= 0 else 0.0     # DyadCarrier() without a shape is the zero of any shape
    if sp.issparse(g):
        return g.toarray()
    return np.array(g, copy=True)


def nrm(g):
    return float(np.linalg.norm(np.ravel(dn(g))))


def close(got, want, scale, tol):
    G, W = dn(got), dn(want)
    if np.ndim(G) and np.ndim(W) and np.shape(G) != np.shape(W):
        return False
    d = np.linalg.norm(np.ravel(G - W))
    return bool(np.isfinite(d) and d <= tol * scale)


def seed_like(rng, y, matseed, scalar='array'):
    """an output sensitivity of the kind of the output state y (real for real, complex for complex; carriers or dense for matrices)"""
    if y is None:
        return None
    cplx = np.iscomplexobj(y) if not sp.issparse(y) else np.iscomplexobj(y.data)
    if sp.issparse(y) or (isinstance(y, np.matrix) and matseed != 'dense'):
        if matseed == 'dense':
            w = rng.standard_normal(y.shape)
            return w + 1j * rng.standard_normal(y.shape) if cplx else w
        k = 2 if matseed in ('dyad', 'dyadc') else 1
        us = [rng.standard_normal(y.shape[0]) + (1j * rng.standard_normal(y.shape[0]) if (cplx or matseed == 'dyadc') else 0) for _ in range(k)]
        vs = [rng.standard_normal(y.shape[1]) for _ in range(k)]
        return D(us, vs)
    if isinstance(y, np.ndarray):
        w = rng.standard_normal(y.shape)
        if cplx:
            w = w + 1j * rng.standard_normal(y.shape)
        if y.ndim >= 2 and rng.integers(0, 2):
            w = np.asfortranarray(w)          # a caller may hand over any memory layout
        return np.asarray(w) if y.ndim else np.array(w)
    w = float(rng.standard_normal())
    w = w + 1j * float(rng.standard_normal()) if cplx else w
    return np.array(w) if scalar == 'array' else w     # 0-d array or python scalar (finite_difference uses both)


def lin(a, W1, b, W2):
    out = []
    for w1, w2 in zip(W1, W2):
        if w1 is None and w2 is None:
            out.append(None)
        elif w2 is None:
            out.append(a * w1)
        elif w1 is None:
            out.append(b * w2)
        else:
            out.append(a * w1 + b * w2)
    return out


def protocol(build, seed, tol=1e-9, reps=3, stateless=True, matseed='dyad', history=True, fresh_tol=None):
    """returns the list of violated clauses (clause, detail)"""
    F = []

    def fail(clause, detail=''):
        if (clause, detail) not in F:
            F.append((clause, detail))
    rng = np.random.default_rng([seed, 7])
    m = build(np.random.default_rng([seed, 1]))
    ins, outs = list(m.sig_in), list(m.sig_out)
    sigs = []
    for s in ins + outs:
        for t in ([s.base] if hasattr(s, 'base') else []) + [s]:
            if not any(t is u for u in sigs):
                sigs.append(t)
    isl = lambda s: hasattr(s, 'base')
    first = [min(j for j, t in enumerate(ins) if t is s) for s in ins]      # a signal may be used for several inputs
    X = [np.array(s.state, copy=True) if isl(s) else s.state for s in ins]   # (the state of a slice is a view of its base)
    XS = [snap(x) for x in X]

    def put_inputs(XX):
        for s, x in zip(ins, XX):
            if isl(s):
                s.state = np.array(x, copy=True)
            else:
                s.state = x

    def inputs_ok(XX, XXS, where):
        for i, (s, x, xs) in enumerate(zip(ins, XX, XXS)):
            if not isl(s) and s.state is not x:
                fail(where + ' replaced the state of an input', 'input %d: now %s' % (i, type(s.state).__name__ + str(getattr(s.state, 'shape', ''))))
            elif not same(snap(s.state), xs):
                fail(where + ' changed the state of an input', 'input %d' % i)
            if not isl(s) and not same(snap(x), xs):
                fail(where + ' modified the object that is the state of an input', 'input %d' % i)

    def image(attr):
        return [(None if isl(s) else id(getattr(s, attr)), snap(getattr(s, attr))) for s in sigs]

    def image_ok(before, attr, where, what):
        for i, (s, (ident, sn)) in enumerate(zip(sigs, before)):
            cur = getattr(s, attr)
            if not same(snap(cur), sn):
                fail('%s changed %s' % (where, what), 'signal %r' % s.tag)
            elif ident is not None and id(cur) != ident:
                fail('%s replaced %s' % (where, what), 'signal %r' % s.tag)

    def clear():
        st = image('state')
        m.reset()
        image_ok(st, 'state', 'reset()', 'a state')
        for s in sigs:
            z = s.sensitivity
            if z is not None and (isinstance(z, D) and z.n_dyads or not isinstance(z, D) and np.any(dn(z) != 0)):
                fail('reset() left a non-zero sensitivity', 'signal %r' % s.tag)
                if not isl(s):
                    s.sensitivity = None

    def run(W, times=1, pre=None, swap=None):
        clear()
        if pre is not None:
            for s, p in zip(ins, pre):
                s.sensitivity = copy.deepcopy(p)
        for s, w in zip(outs, W):
            s.sensitivity = copy.deepcopy(w)
        res = []
        for k in range(times):
            if swap is not None and k > 0:
                for s, w in zip(outs, swap):
                    s.sensitivity = copy.deepcopy(w)
            st = image('state')
            m.sensitivity()
            image_ok(st, 'state', 'sensitivity()', 'a state')
            res.append([dn(s.sensitivity) for s in ins])
        return res

    def respond(XX, XXS, where, with_sens):
        put_inputs(XX)
        if with_sens:
            for s, x in zip(ins, XX):
                if not isl(s):
                    s.sensitivity = seed_like(rng, x, 'dyad')
        se = image('sensitivity')
        m.response()
        inputs_ok(XX, XXS, where)
        image_ok(se, 'sensitivity', where, 'a sensitivity')
        put_inputs(XX)   # whatever happened is recorded; later clauses are judged from intact inputs

    def cmp_list(got, want, scale, clause, detail, t=None):
        for i, (g, w) in enumerate(zip(got, want)):
            sc = scale[i] if isinstance(scale, list) else scale
            if not close(g, w, sc, t or tol):
                G, W = dn(g), dn(w)
                d = float(np.linalg.norm(np.ravel(G - W))) if (np.shape(G) == np.shape(W) or not np.ndim(G) or not np.ndim(W)) else -1.0
                fail(clause, (detail + ' input %d: |got - want| = %.3g, scale %.3g' % (i, d, sc)).strip())

    stage = 'build'
    try:
        stage = 'first response()'
        respond(X, XS, 'response()', True)
        Y = [s.state for s in outs]
        nout = len(outs)
        stage = 'sensitivity()'
        W1 = [seed_like(rng, y, matseed) for y in Y]
        W2 = [seed_like(rng, y, matseed, 'python') for y in Y]
        g1 = run(W1)[0]
        g2 = run(W2)[0]
        n1, n2 = [nrm(g) for g in g1], [nrm(g) for g in g2]
        if nout and not any(n1) and len(ins):
            fail('set-up', 'the seeded sensitivity is identically zero: the case does not exercise anything')
        # L: linearity
        stage = 'linearity'
        for a, b in ((1.0, 1.0), (2.0, -0.5), (0.0, 1.0), (-3.5, 0.0), (0.0, 0.0), (1e3, 1e-3)):
            g = run(lin(a, W1, b, W2))[0]
            want = [a * x + b * y for x, y in zip(g1, g2)]
            cmp_list(g, want, [abs(a) * p + abs(b) * q for p, q in zip(n1, n2)], 'sensitivity is not linear in the seed', 'a=%g b=%g' % (a, b))
        if nout >= 2:   # partially seeded outputs
            for j in range(nout):
                Wj = [w if i == j else None for i, w in enumerate(W1)]
                Wr = [w if i != j else None for i, w in enumerate(W1)]
                gj, gr = run(Wj)[0], run(Wr)[0]
                cmp_list([x + y for x, y in zip(gj, gr)], g1, [p + nrm(x) + nrm(y) for p, x, y in zip(n1, gj, gr)], 'partially seeded outputs do not add up to the fully seeded result', 'output %d alone + the others' % j)
            gn = run([None] * nout)[0]
            cmp_list(gn, [0.0 * x for x in g1], 0.0, 'unseeded outputs give a non-zero sensitivity', '')
        # A: accumulation
        stage = 'accumulation'
        gs = run(W1, times=reps)
        for k, g in enumerate(gs):
            cmp_list(g, [(k + 1) * x for x in g1], [(k + 1) * p for p in n1], 'repeated sensitivity() does not add the same contribution again', 'after %d calls' % (k + 1))
        gs = run(W1, times=2, swap=W2)
        cmp_list(gs[1], [x + y for x, y in zip(g1, g2)], [p + q for p, q in zip(n1, n2)], 'a second sensitivity() with another seed does not add g2 to g1', '')
        P = [None if isl(s) else seed_like(rng, x, 'dense' if not sp.issparse(x) else 'dyad') for s, x in zip(ins, X)]
        P = [P[j] for j in first]
        gp = run(W1, pre=P)[0]
        cmp_list(gp, [dn(p) + x for p, x in zip(P, g1)], [nrm(p) + q for p, q in zip(P, n1)], 'a sensitivity already present on the input is not kept', '')
        # Z: after reset the same again
        stage = 'repeat after reset'
        g = run(W1)[0]
        cmp_list(g, g1, n1, 'the same seed after reset() gives another result', '')
        if True:
            # H: response() again with sensitivities everywhere
            stage = 'second response()'
            clear()
            for s, w in zip(outs, W2):
                s.sensitivity = copy.deepcopy(w)
            respond(X, XS, 'response() (second call)', True)
            if stateless:
                for i, (s, y) in enumerate(zip(outs, Y)):
                    if y is not None and not close(s.state, y, nrm(y), fresh_tol or 100 * tol):
                        fail('a second response() on the same inputs gives another output', 'output %d' % i)
            m.sensitivity()
            inputs_ok(X, XS, 'sensitivity() after the second response()')
            g1b = run(W1)[0]
            if stateless:
                cmp_list(g1b, g1, n1, 'after calling response() again the same seed gives another result', '')
            g = run(lin(2.0, W1, -1.0, W2))[0]
            g2b = run(W2)[0]
            cmp_list(g, [2.0 * x - y for x, y in zip(g1b, g2b)], [2 * nrm(x) + nrm(y) for x, y in zip(g1b, g2b)], 'sensitivity is not linear in the seed', 'after the second response()')
        if history:
            # other inputs, compared with a fresh module
            stage = 'other inputs'
            m2 = build(np.random.default_rng([seed, 2]))
            X2 = [copy.deepcopy(s.state) for s in m2.sig_in]
            X2 = [X2[j] for j in first]
            X2S = [snap(x) for x in X2]
            clear()
            respond(X2, X2S, 'response() (new inputs)', False)
            V1 = [seed_like(rng, s.state, matseed) for s in outs]
            h = run(V1, times=2)
            inputs_ok(X2, X2S, 'sensitivity() (new inputs)')
            cmp_list(h[1], [2 * x for x in h[0]], [2 * nrm(x) for x in h[0]], 'repeated sensitivity() does not add the same contribution again', 'new inputs')
            if stateless:
                m2.response()
                for s, w in zip(m2.sig_out, V1):
                    s.sensitivity = copy.deepcopy(w)
                m2.sensitivity()
                cmp_list(h[0], [dn(s.sensitivity) for s in m2.sig_in], [nrm(x) for x in h[0]], 'sensitivity after a change of inputs differs from a fresh module on the same inputs', '', fresh_tol or 100 * tol)
            stage = 'first inputs again'
            clear()
            respond(X, XS, 'response() (first inputs again)', False)
            g = run(W1)[0]
            if stateless:
                cmp_list(g, g1, n1, 'back on the first inputs the same seed gives another result', '', fresh_tol or 100 * tol)
    except Exception as e:
        import traceback
        fail('raises', '%s during %s: %s' % (type(e).__name__, stage, str(e).splitlines()[0][:200] if str(e) else ''))
    return F


def struct_seeds(y, rng, matseed='dyad', indep=False):
    """STRUCTURED output sensitivities of the kind of the output state y, as (name, w): constant fields (all ones, all 2.5), a single non-zero entry, zero entries / a zero
    column next to non-zero ones, identical columns, a constant column next to generic ones, and one generic seed.  indep=True leaves out the 2-D seeds whose non-zero
    columns are linearly dependent (constant fields, identical columns, rank-one carriers)"""
    out = _struct_seeds(y, rng, matseed)
    if indep and y is not None and np.ndim(y) == 2 and min(np.shape(y)) >= 2:
        out = [(nm, w) for nm, w in out if nm not in ('all ones', 'all 2.5', 'identical columns', 'zero dyad next to a non-zero one', 'identical dyads')]
    return out


def _struct_seeds(y, rng, matseed='dyad'):
    if y is None:
        return []
    cplx = np.iscomplexobj(y) if not sp.issparse(y) else np.iscomplexobj(y.data)
    ph = (0.6 + 0.8j) if cplx else 1.0
    rnd = lambda *s_: rng.standard_normal(s_) + (1j * rng.standard_normal(s_) if cplx else 0.0)
    if (sp.issparse(y) or isinstance(y, np.matrix)) and matseed != 'dense':
        n, k = y.shape
        u, v, u2, v2 = rnd(n), rng.standard_normal(k), rnd(n), rng.standard_normal(k)
        ei, ej = np.zeros(n), np.zeros(k)
        ei[n // 2], ej[k - 1] = 1.7, 1.0
        return [('all ones', D(np.ones(n) * ph, np.ones(k))), ('all 2.5', D(2.5 * np.ones(n) * ph, np.ones(k))), ('single entry', D(ei * ph, ej)),
                ('zero dyad next to a non-zero one', D([u, 0 * u2], [v, v2])), ('identical dyads', D([u, u], [v, v])), ('constant dyad + generic dyad', D([np.ones(n) * ph, u2], [np.ones(k), v2])),
                ('generic', D([u, u2], [v, v2]))]
    if sp.issparse(y) or isinstance(y, np.matrix):
        y = np.zeros(y.shape, dtype=complex if cplx else float)
    if not isinstance(y, np.ndarray) or y.ndim == 0:
        mk = (lambda c: np.array(c)) if isinstance(y, np.ndarray) else (lambda c: complex(c) if cplx else float(c))
        return [('one', mk(1.0 * ph)), ('2.5', mk(2.5 * ph)), ('generic', mk(complex(rnd(1)[0]) if cplx else float(rnd(1)[0])))]
    one = np.ones(y.shape) * ph
    single = np.zeros(y.shape, dtype=one.dtype)
    single.reshape(-1)[y.size // 2] = 1.7 * ph
    out = [('all ones', one), ('all 2.5', 2.5 * one), ('single entry', single)]
    if y.ndim == 1:
        w = rnd(*y.shape)
        w[::2] = 0.0
        out.append(('every other entry zero', w))
    if y.ndim == 2:
        n, k = y.shape
        w = rnd(n, k)
        w[:, 0] = 0.0
        out.append(('zero column next to non-zero ones', w))
        out.append(('identical columns', np.repeat(rnd(n, 1), k, axis=1)))
        w = rnd(n, k)
        w[:, k - 1] = 1.0 * ph
        out.append(('constant column next to generic ones', w))
        w = np.zeros((n, k), dtype=one.dtype)
        w[:, k // 2] = 2.5 * ph
        out.append(('one constant column, the others zero', w))
    out.append(('generic', rnd(*y.shape)))
    return out


def eig_ref(A, B=None, k=None, sigma=0.0, like=None):
    """Independent dense eigen-decomposition with the normalisation of EigenSolve: q.B.q = 1 (bilinear), sign such that Re(mean(q)) >= 0, the k eigenvalues nearest
    sigma in ascending order.  numpy.linalg.eigh (Cholesky-reduced for a generalised problem) for Hermitian A, numpy.linalg.eig otherwise (real, well separated spectra)"""
    A = dn(A)
    B = None if B is None else dn(B)
    herm = np.allclose(A, A.conj().T, rtol=0, atol=1e-13 * np.abs(A).max()) and (B is None or np.allclose(B, B.conj().T, rtol=0, atol=1e-13))
    if herm and B is not None:
        Li = np.linalg.inv(np.linalg.cholesky(B))
        w, Y = np.linalg.eigh(Li @ A @ Li.conj().T)
        V = Li.conj().T @ Y
    elif herm:
        w, V = np.linalg.eigh(A)
    else:
        w, V = np.linalg.eig(A if B is None else np.linalg.solve(B, A))
    V = np.array(V, dtype=complex if (np.iscomplexobj(V) or np.iscomplexobj(A)) else float)
    for i in range(w.size):
        q = V[:, i]
        q /= np.sqrt(q @ (q if B is None else B @ q))
        if np.real(np.mean(q)) < 0:
            q *= -1
    sel = np.arange(w.size) if k is None else np.argsort(np.abs(w - sigma))[:k]
    sel = sel[np.argsort(w[sel])]
    w, V = w[sel], V[:, sel]
    if like is not None and np.iscomplexobj(V):
        # complex vectors: the module takes the sign from the un-normalised LAPACK vector (arbitrary phase), so only +-q is defined; the sign of the given Q is followed
        for i in range(w.size):
            if np.linalg.norm(V[:, i] + like[:, i]) < np.linalg.norm(V[:, i] - like[:, i]):
                V[:, i] *= -1
    return w, V


def structured(build, seed, tol=1e-9, matseed='dyad', fd=True, fd_h=1e-6, fd_tol=1e-5, eig=None, indep=False):
    """Linearity in the seed on STRUCTURED seeds: g(w1) + g(w2) = g(w1 + w2), g(a w) = a g(w), sum of all, every output alone; each g(w) also against a reference derivative:
    <g(w), D> = d/dt <w, y(x + t D)> by central differences in a direction D that stays in the class of the inputs (a second draw of the inputs minus the first),
    y(.) being the module's response (fd=True) or, for EigenSolve (eig = dict(k=, sigma=)), the independent dense eigen-decomposition eig_ref.  Returns the violated clauses"""
    F = []

    def fail(clause, detail=''):
        if (clause, detail) not in F and len(F) < 12:
            F.append((clause, detail))
    rng = np.random.default_rng([seed, 17])
    m = build(np.random.default_rng([seed, 1]))
    ins, outs = list(m.sig_in), list(m.sig_out)
    isl = lambda s: hasattr(s, 'base')
    uniq = [i for i, s in enumerate(ins) if min(j for j, t in enumerate(ins) if t is s) == i]
    X = [np.array(s.state, copy=True) if isl(s) else s.state for s in ins]

    def put_inputs(XX):
        for s, x in zip(ins, XX):
            s.state = np.array(x, copy=True) if isl(s) else x

    def respond(XX):
        put_inputs(XX)
        m.response()
        put_inputs(XX)      # (a module that replaces the state of its input is reported by protocol())
        return [s.state for s in outs]

    def run(W):
        m.reset()
        for s, w in zip(outs, W):
            s.sensitivity = copy.deepcopy(w)
        m.sensitivity()
        return [dn(s.sensitivity) for s in ins]

    def inner(a, b):
        return complex(np.sum(dn(a) * dn(b)))
    stage = 'build'
    try:
        stage = 'first response()'
        Y = respond(X)
        nout = len(outs)
        S = [struct_seeds(y, rng, matseed, indep) for y in Y]
        if not nout or not any(S):
            return F
        L = max(len(sj) for sj in S)
        sets = [('joint: ' + ' / '.join(sj[i % len(sj)][0] for sj in S if sj), [sj[i % len(sj)][1] if sj else None for sj in S]) for i in range(L)]
        groups = [list(range(L))]
        if nout >= 2:
            for j, sj in enumerate(S):
                groups.append(list(range(len(sets), len(sets) + len(sj))))
                sets += [('only output %d: %s' % (j, nm), [w if i == j else None for i in range(nout)]) for nm, w in sj]
        # reference derivative
        dref = None
        if fd or eig is not None:
            stage = 'reference derivative'
            m2 = build(np.random.default_rng([seed, 2]))
            X2 = [copy.deepcopy(s.state) for s in m2.sig_in]
            Dir = [x2 - x for x, x2 in zip(X, X2)]
            Xp, Xm = [x + fd_h * d for x, d in zip(X, Dir)], [x - fd_h * d for x, d in zip(X, Dir)]
            if eig is not None:
                Y0 = eig_ref(*X, like=Y[1], **eig)
                for j, (y, y0) in enumerate(zip(Y, Y0)):
                    if not close(y, y0, nrm(y0), 1e-8):
                        fail('the response differs from the independent dense eigen-decomposition', 'output %d' % j)
                Yp, Ym = eig_ref(*Xp, like=Y[1], **eig), eig_ref(*Xm, like=Y[1], **eig)
            else:
                Yp = [dn(y) for y in respond(Xp)]
                Ym = [dn(y) for y in respond(Xm)]
                Yb = respond(X)
                for j, (y, yb) in enumerate(zip(Y, Yb)):
                    if y is not None and not close(y, yb, nrm(y), 1e-7):
                        fail('set-up', 'the response is not reproduced after other inputs: no reference derivative for this case (output %d)' % j)
            dref = [(dn(yp) - dn(ym)) / (2 * fd_h) for yp, ym in zip(Yp, Ym)]
        stage = 'sensitivity()'
        G = []
        for nm, W in sets:
            g = run(W)
            G.append(g)
            if dref is not None:
                stage = 'reference derivative'
                got = sum(inner(g[i], Dir[i]) for i in uniq).real
                want = sum(inner(w, d) for w, d in zip(W, dref) if w is not None).real
                scale = sum(nrm(g[i]) * nrm(Dir[i]) for i in uniq) + sum(nrm(w) * nrm(d) for w, d in zip(W, dref) if w is not None)
                if not (np.isfinite(got) and abs(got - want) <= fd_tol * scale):
                    fail('the sensitivity for a structured seed differs from the reference derivative (a contribution is missing or wrong)',
                         '%s: <g, D> = %.9g, reference d<w, y>/dt = %.9g, scale %.3g' % (nm, got, want, scale))
                stage = 'sensitivity()'
        N = [[nrm(x) for x in g] for g in G]
        if not any(any(n) for n in N) and len(ins):
            fail('set-up', 'every structured seed gives an identically zero sensitivity')
        # a structured seed may be annihilated exactly (all ones on a stiffness matrix: rigid-body mode), leaving round-off of the terms that cancel: every comparison is
        # relative to the sensitivity itself PLUS the largest sensitivity any of these O(1) seeds produces on that input
        top = [max(n[t] for n in N) for t in range(len(ins))]
        N = [[n[t] + top[t] for t in range(len(ins))] for n in N]
        stage = 'linearity'
        for gi, grp in enumerate(groups):
            for q, i in enumerate(grp):
                a = (2.5, -1.0, 0.5)[q % 3]
                g = run(lin(a, sets[i][1], 0.0, [None] * nout))
                for t in range(len(ins)):
                    if not close(g[t], a * G[i][t], abs(a) * N[i][t], tol):
                        fail('g(a w) != a g(w) for a structured seed', '%s, a=%g, input %d: |got - want| = %.3g, scale %.3g' % (sets[i][0], a, t, nrm(g[t] - a * G[i][t]), abs(a) * N[i][t]))
                i2 = grp[(q + 1) % len(grp)]
                if i2 != i:
                    g = run(lin(1.0, sets[i][1], 1.0, sets[i2][1]))
                    for t in range(len(ins)):
                        if not close(g[t], G[i][t] + G[i2][t], N[i][t] + N[i2][t], tol):
                            fail('g(w1) + g(w2) != g(w1 + w2) for structured seeds', 'w1 = %s, w2 = %s, input %d: |got - want| = %.3g, scale %.3g' % (sets[i][0], sets[i2][0], t, nrm(g[t] - G[i][t] - G[i2][t]), N[i][t] + N[i2][t]))
            tot = sets[grp[0]][1]
            for i in grp[1:]:
                tot = lin(1.0, tot, 1.0, sets[i][1])
            g = run(tot)
            for t in range(len(ins)):
                want = sum(G[i][t] for i in grp)
                if not close(g[t], want, sum(N[i][t] for i in grp), tol):
                    fail('the sum of all structured seeds does not give the sum of their sensitivities', 'group %d, input %d' % (gi, t))
        if nout >= 2:     # every output alone adds up to the joint seed
            for q in range(min(len(sj) for sj in S if sj)):
                parts = [groups[1 + j][q] for j in range(nout) if S[j]]
                for t in range(len(ins)):
                    if not close(G[q][t], sum(G[i][t] for i in parts), N[q][t] + sum(N[i][t] for i in parts), tol):
                        fail('seeding every output alone does not add up to the jointly seeded result', '%s, input %d' % (sets[q][0], t))
    except Exception as e:
        fail('raises', '%s during %s: %s' % (type(e).__name__, stage, str(e).splitlines()[0][:200] if str(e) else ''))
    return F
'''

PRE = REPLAY_HEAD + HELPER
_BASE = {}
exec(compile(PRE, '<C04 helper>', 'exec'), _BASE)

EVERY = {'elementwise': 1, 'generic': 1, 'linsolve': 1, 'eigen_systems': 1, 'assembly': 2, 'element_ops': 1, 'filters': 2}   # quick tier: structured() on every k-th case of a family
F_SOE = 'C04-soe-overwrites-input'
F_EINSUM = 'C04-einsum-partial-sum-raises'
F_CONCAT = 'C04-concat-scalar-raises'
F_LDA = 'C04-lda-dependent-seed-columns'


class Timeout(Exception):
    pass


def _alarm(*_):
    raise Timeout()


HANGS = [0]


def execute(r, late, group, key, src, opts, seed, known=None, fn='protocol'):
    """run the protocol on one case; finding-tagged failures are emitted last (see flush)"""
    r.case((group,) + tuple(key) + (() if fn == 'protocol' else (fn,)))
    call = f"fails = {fn}(build, {seed}, **{opts!r})\nprint(fails)\nassert not fails, fails\n"
    replay = PRE + src + "\n" + call
    ns = dict(_BASE)
    if HANGS[0] >= 3:
        r.check(False, f'{group}: not executed, 3 earlier cases did not terminate', dict(case=key), replay_code=replay)
        return
    old = signal.signal(signal.SIGVTALRM, _alarm)
    signal.setitimer(signal.ITIMER_VIRTUAL, 20.0)      # a case takes some 10 ms; a loop that never ends must not block the check
    try:
        exec(src, ns)
        fails = ns[fn](ns['build'], seed, **opts)
    except Timeout:
        HANGS[0] += 1
        fails = [('does not terminate', 'no result after 20 s')]
    except Exception as e:
        fails = [('raises', f'{type(e).__name__} while building the case: {str(e)[:200]}')]
    finally:
        signal.setitimer(signal.ITIMER_VIRTUAL, 0)
        signal.signal(signal.SIGVTALRM, old)
    for clause, detail in fails:
        fid = None
        for pat, f in (known or {}).items():
            if re.fullmatch(pat, clause + ' | ' + detail):
                fid = f
        if fid:
            late.setdefault(fid, (f'{group}: {clause}', dict(case=key, detail=detail), replay))
        else:
            r.check(False, f'{group}: {clause}', dict(case=key, detail=detail), replay_code=replay)


def flush(r, late):
    for fid, (what, inputs, replay) in late.items():
        r.check(False, what, inputs, replay_code=replay, finding=fid)


def B(body, pre=""):
    """source of a case: build(rng) with the given body (indented here)"""
    return pre + "def build(rng):\n" + "".join("    " + l + "\n" for l in body.strip("\n").split("\n"))


DOM = {'2d': "pym.DomainDefinition(3, 2, unitx=0.5, unity=1.5, unitz=2.0)", '2d-col': "pym.DomainDefinition(1, 3, unitx=2.0, unity=0.5)", '2d-row': "pym.DomainDefinition(4, 1)",
       '2d-big': "pym.DomainDefinition(5, 4, unitx=1.0, unity=0.8)", '3d': "pym.DomainDefinition(2, 2, 2, unitx=0.5, unity=1.5, unitz=2.0)", '3d-flat': "pym.DomainDefinition(3, 2, 1)",
       '3d-big': "pym.DomainDefinition(3, 2, 3, unitx=1.0, unity=1.0, unitz=0.7)"}


def runall(r, tier, seed, group, cases, structured=None, every=1):
    """protocol() on every case; structured() (structured seeds, reference derivative) on the cases for which structured(key, opts) returns its options:
    every case [thorough] / every `every`-th case of each family (first key component) [quick]"""
    late = {}
    HANGS[0] = 0
    nseed = 1 if tier == 'quick' else 4
    count = {}
    for key, src, opts, known in cases:
        for k in range(nseed):
            execute(r, late, group, key if nseed == 1 else key + (k,), src, opts, seed * 1000 + k, known)
        passes = structured(key, opts) if structured else None
        if passes is None:
            continue
        count[key[0]] = count.get(key[0], 0) + 1
        if tier == 'quick' and (count[key[0]] - 1) % every:
            continue
        for sopts, more in (passes if isinstance(passes, list) else [(passes, None)]):
            kn = dict(known or {}, **(more or {}))
            tag = ('indep',) if sopts.get('indep') else ()
            for k in range(1 if tier == 'quick' else 2):
                execute(r, late, group, key + tag if tier == 'quick' else key + tag + (k,), src, sopts, seed * 1000 + k, kn, fn='structured')
    flush(r, late)


def sopts_of(opts, **kw):
    """options of structured() from the options of protocol(): same tolerance and matrix-seed kind; no reference derivative for modules with a documented memory"""
    o = {k: v for k, v in opts.items() if k in ('tol', 'matseed')}
    if opts.get('stateless') is False:
        o['fd'] = False
    o.update(kw)
    return o


def st_elementwise(key, opts):
    if key[0] == 'user':                                                 # framework mechanics (aliases, None, python floats, overlapping slices): linearity only
        return sopts_of(opts, fd=False)
    if key[0] in ('PNorm', 'KSFunction', 'SoftMinMax') and key[2]:       # AggScaling: the scaling factor is treated as a constant by design, no derivative reference
        return sopts_of(opts, fd=False)
    return sopts_of(opts)


def st_default(key, opts):
    return sopts_of(opts)


LDA_KNOWN = {r"(g\(w1\) \+ g\(w2\) != g\(w1 \+ w2\) for structured seeds|g\(a w\) != a g\(w\) for a structured seed|the sum of all structured seeds does not give the sum of their sensitivities|"
             r"the sensitivity for a structured seed differs from the reference derivative \(a contribution is missing or wrong\)|seeding every output alone does not add up to the jointly seeded result) \| .*": F_LDA}


def lda_region(o):
    """LDAWrapper + block right-hand side: a seed whose non-zero columns are linearly dependent (all ones, identical columns) makes the wrapper store a normalised round-off
    vector as a solution pair (C06-dependent-block-garbage); every later back-propagation until the next response() is then wrong by ~1e-3, so g is not additive.  The full
    set of structured seeds is tagged with the finding; the seeds with independent columns must hold untagged"""
    return [(dict(o), LDA_KNOWN), (dict(o, indep=True), None)]


def st_linsolve(key, opts):
    if key[1] == 'CG':      # iterative solver (tol 1e-10): larger step, looser reference
        return sopts_of(opts, fd_h=1e-4, fd_tol=1e-3)
    if key[0] == 'LinSolve' and 'plain' not in key and 'vec' not in key and 'cvec' not in key:
        return lda_region(sopts_of(opts))
    return sopts_of(opts)


EIG_REF = {'dense sym': {}, 'dense sym flag': {}, 'dense generalized': {}, 'dense hermitian': {}, 'dense general': {}, 'sparse sym': dict(k=3), 'sparse generalized': dict(k=3), 'sparse shifted': dict(k=2, sigma=7.1)}


def st_eigen(key, opts):
    if key[0] == 'EigenSolve':     # reference derivative from the independent dense eigen-decomposition, never from the module
        return sopts_of(opts, fd=False, eig=EIG_REF[key[1]], fd_tol=1e-6)
    if key[0] == 'StaticCondensation' or (key[0] == 'SystemOfEquations' and key[-1] == ', 2'):      # inner LinSolve with LDAWrapper and block right-hand sides
        return lda_region(sopts_of(opts))
    return sopts_of(opts)


# ---------------------------------------------------------------------------------------------------------- element-wise
@bound('Scaling (plain / minval / maxval; vector, length-1, scalar, slice in- and outputs), MakeComplex, RealPart, ImagPart, ComplexNorm (vectors, matrices, scalars), PNorm / KSFunction / SoftMinMax '
       '(positive and negative parameter, with/without AggScaling(max|min, damping 0 / 0.5) and AggActiveSet), user modules that return the seed object itself, python floats or None, a signal used twice; '
       '1 seed set [quick] / 4 [thorough]; protocol R,S,L,A,Z,H with (a,b) in {(1,1),(2,-.5),(0,1),(-3.5,0),(0,0),(1e3,1e-3)}, 3 repetitions; protocol T (structured seeds: all ones, all 2.5, single entry, zero entries / zero column, '
       'identical columns, constant column, sums; reference derivative by central differences except user modules, modules with memory and AggScaling) on every case, 1 [quick] / 2 [thorough] data seeds')
def elementwise(r, tier, seed):
    cs = []
    for opt, sl in (("scaling=10.0", False), ("scaling=2.0, minval=0.3", True), ("scaling=5.0, maxval=2.0", True)):
        for n in (1, 5):
            cs.append((('Scaling', opt, n), B(f"return pym.Scaling(pym.Signal('x', 0.5 + rng.random({n})), pym.Signal('y'), {opt})"), dict(stateless=sl), None))
        cs.append((('Scaling', opt, 'scalar'), B(f"return pym.Scaling(pym.Signal('x', float(0.5 + rng.random())), pym.Signal('y'), {opt})"), dict(stateless=sl), None))
        cs.append((('Scaling', opt, 'slice in'), B(f"sx = pym.Signal('x', 0.5 + rng.random(6))\nreturn pym.Scaling(sx[1:4], pym.Signal('y'), {opt})"), dict(stateless=sl), None))
        cs.append((('Scaling', opt, 'slice out'), B(f"sy = pym.Signal('y', np.zeros(7))\nreturn pym.Scaling(pym.Signal('x', 0.5 + rng.random(3)), sy[2:5], {opt})"), dict(stateless=sl), None))
    for shp in ('4', '(2, 3)', '1'):
        cs.append((('MakeComplex', shp), B(f"return pym.MakeComplex([pym.Signal('re', rng.standard_normal({shp})), pym.Signal('im', rng.standard_normal({shp}))], pym.Signal('z'))"), {}, None))
        for cls in ('RealPart', 'ImagPart', 'ComplexNorm'):
            cs.append(((cls, shp), B(f"return pym.{cls}(pym.Signal('z', rng.standard_normal({shp}) + 1j * rng.standard_normal({shp})), pym.Signal('y'))"), {}, None))
    cs.append((('MakeComplex', 'scalar'), B("return pym.MakeComplex([pym.Signal('re', float(rng.standard_normal())), pym.Signal('im', float(rng.standard_normal()))], pym.Signal('z'))"), {}, None))
    for cls in ('RealPart', 'ImagPart', 'ComplexNorm'):
        cs.append(((cls, 'scalar'), B(f"return pym.{cls}(pym.Signal('z', complex(rng.standard_normal(), 1.0 + rng.random())), pym.Signal('y'))"), {}, None))
    cs.append((('RealPart', 'real input'), B("return pym.RealPart(pym.Signal('z', rng.standard_normal(4)), pym.Signal('y'))"), {}, None))
    for cls, pars in (('PNorm', ('2', '-3', '8.5')), ('KSFunction', ('4.0', '-6.0')), ('SoftMinMax', ('3.0', '-5.0'))):
        for p in pars:
            for sc, sl in (("", True), (", scaling=pym.AggScaling('max', 0.0)", True), (", scaling=pym.AggScaling('min', 0.5)", False)):
                for act in ("", ", active_set=pym.AggActiveSet(0.1, 0.9, 0.2, 0.8)"):
                    for n in ((1, 6) if not act else (6,)):
                        cs.append(((cls, p, sc, act, n), B(f"return pym.{cls}(pym.Signal('x', 0.3 + rng.random({n})), pym.Signal('y'), {p}{sc}{act})"), dict(stateless=sl), None))
    user = '''
class Alias(pym.Module):       # hands the seed object itself back (as RealPart does for real data)
    def _response(self, x):
        return 1.0 * x
    def _sensitivity(self, dy):
        return dy
class Floats(pym.Module):      # python scalars in, python scalars out, None for one input
    def _response(self, a, b, c):
        return a * b, float(c)
    def _sensitivity(self, dy, dz):
        return (0.0 if dy is None else dy * self.sig_in[1].state), (0.0 if dy is None else dy * self.sig_in[0].state), None
class Twice(pym.Module):       # one vector feeds two outputs
    def _response(self, x):
        return 2.0 * x, x[::-1] * x
    def _sensitivity(self, dy, dz):
        x = self.sig_in[0].state
        g = np.zeros_like(x)
        if dy is not None:
            g += 2.0 * dy
        if dz is not None:
            g += dz * x[::-1] + (dz * x)[::-1]
        return g
'''
    cs.append((('user', 'alias'), B("return Alias(pym.Signal('x', rng.standard_normal(4)), pym.Signal('y'))", user), {}, None))
    cs.append((('user', 'alias keep_alloc'), B("return Alias(pym.Signal('x', rng.standard_normal(4), sensitivity=np.zeros(4)), pym.Signal('y'))", user), {}, None))
    cs.append((('user', 'floats'), B("return Floats([pym.Signal('a', float(rng.random()) + 1), pym.Signal('b', 2.5), pym.Signal('c', 1.0)], [pym.Signal('y'), pym.Signal('z')])", user), {}, None))
    cs.append((('user', 'two outputs'), B("return Twice(pym.Signal('x', rng.standard_normal(5)), [pym.Signal('y'), pym.Signal('z')])", user), {}, None))
    cs.append((('user', 'same signal twice'), B("sx = pym.Signal('x', rng.standard_normal(4))\nreturn pym.EinSum([sx, sx], pym.Signal('y'), expression='i,i->')"), {}, None))
    cs.append((('user', 'index-array slice'), B("sx = pym.Signal('x', 0.5 + rng.random(7))\nsy = pym.Signal('y', np.zeros(5))\nreturn pym.Scaling(sx[np.array([5, 0, 2])], sy[::-2], scaling=3.0, maxval=2.0)"), {}, None))
    cs.append((('user', 'matrix slices'), B("sx = pym.Signal('x', rng.standard_normal((4, 3)))\nreturn pym.EinSum([sx[1:3, :], sx[0, :]], pym.Signal('y'), expression='ij,j->i')"), {}, None))
    cs.append((('user', 'keep_alloc input'), B("return pym.EinSum([pym.Signal('a', rng.standard_normal(3), sensitivity=np.zeros(3)), pym.Signal('b', rng.standard_normal(3))], pym.Signal('y'), expression='i,i->')"), {}, None))
    cs.append((('user', 'overlapping slices'), B("sx = pym.Signal('x', rng.standard_normal(6))\nreturn pym.EinSum([sx[0:4], sx[2:6]], pym.Signal('y'), expression='i,i->i')"), {}, None))
    runall(r, tier, seed, 'elementwise', cs, st_elementwise, EVERY['elementwise'])


# --------------------------------------------------------------------------------------------------------------- generic
@bound('EinSum for 15 expressions (sums, trace, inner/outer products, matrix-vector, quadratic form, projection, element-wise, transposed) with real, complex and mixed operands; '
       'ConcatSignal of vectors of unequal length, length-1 vectors, python scalars and slices; same protocols (R,S,L,A,Z,H and T with reference derivative on every case)')
def generic(r, tier, seed):
    cs = []
    R = lambda s: f"rng.standard_normal({s})"
    C = lambda s: f"(rng.standard_normal({s}) + 1j * rng.standard_normal({s}))"
    exprs = [('i->', ['4']), ('ij->', ['(2, 3)']), ('ii->', ['(3, 3)']), ('ij->j', ['(2, 3)']), ('i,j->', ['2', '3']), ('ij->ji', ['(2, 3)']), ('i,i->', ['4', '4']), ('i,i->i', ['4', '4']), ('i,j->ij', ['2', '3']),
             ('ij,j->i', ['(2, 3)', '3']), ('i,ij,j->', ['2', '(2, 3)', '3']), ('ij,ij->ij', ['(2, 3)', '(2, 3)']), ('ji,ij->ij', ['(3, 2)', '(2, 3)']), ('ji,jk,kl->il', ['(3, 2)', '(3, 3)', '(3, 2)']),
             ('ij,jk->ik', ['(2, 3)', '(3, 1)'])]
    for ex, shs in exprs:
        for kinds in (('r',) * len(shs), ('c',) * len(shs), tuple('rc'[i % 2] for i in range(len(shs))), tuple('cr'[i % 2] for i in range(len(shs)))):
            sigs = ", ".join(f"pym.Signal('s{i}', {(R if k == 'r' else C)(s)})" for i, (s, k) in enumerate(zip(shs, kinds)))
            cs.append((('EinSum', ex, ''.join(kinds)), B(f"return pym.EinSum([{sigs}], pym.Signal('y'), expression='{ex}')"), {}, None))
    cs = [c for i, c in enumerate(cs) if c[0] not in [d[0] for d in cs[:i]]]
    cs.append((('Concat', 'vectors'), B("return pym.ConcatSignal([pym.Signal('a', rng.standard_normal(3)), pym.Signal('b', rng.standard_normal(1)), pym.Signal('c', rng.standard_normal(4))], pym.Signal('y'))"), {}, None))
    cs.append((('Concat', 'scalars'), B("return pym.ConcatSignal([pym.Signal('a', float(rng.standard_normal())), pym.Signal('b', rng.standard_normal(2)), pym.Signal('c', 2.5)], pym.Signal('y'))"), {}, None))
    cs.append((('Concat', 'slices'), B("sx = pym.Signal('x', rng.standard_normal(6))\nreturn pym.ConcatSignal([sx[4:6], pym.Signal('b', rng.standard_normal(2)), sx[0:3]], pym.Signal('y'))"), {}, None))
    cs.append((('Concat', 'single'), B("return pym.ConcatSignal([pym.Signal('a', rng.standard_normal(3))], pym.Signal('y'))"), {}, None))
    cs = [(k, s_, o, {r"raises \| ValueError during sensitivity\(\): Output character . did not appear in the input": F_EINSUM} if k[:2] in (('EinSum', 'ij->j'), ('EinSum', 'i,j->')) else
           ({r"raises \| TypeError during sensitivity\(\): only 0-dimensional arrays can be converted to Python scalars": F_CONCAT} if k == ('Concat', 'scalars') else kn)) for k, s_, o, kn in cs]
    runall(r, tier, seed, 'generic', cs, st_default, EVERY['generic'])


# ---------------------------------------------------------------------------------------------------------- linear algebra
MATS = {'spd': "Rm = rng.standard_normal((n, n))\nA = Rm + Rm.T + 2 * n * np.eye(n)",
        'symindef': "Rm = rng.standard_normal((n, n))\nA = Rm + Rm.T + 3 * n * np.diag((-1.0) ** np.arange(n))",
        'gen': "A = rng.standard_normal((n, n)) + 2 * n * np.eye(n)",
        'herm': "Rm = rng.standard_normal((n, n)) + 1j * rng.standard_normal((n, n))\nA = Rm + Rm.conj().T + 3 * n * np.eye(n)",
        'csym': "Rm = rng.standard_normal((n, n)) + 1j * rng.standard_normal((n, n))\nA = Rm + Rm.T + 3 * n * np.eye(n)",
        'cgen': "A = rng.standard_normal((n, n)) + 1j * rng.standard_normal((n, n)) + 3 * n * np.eye(n)",
        'diag': "A = np.diag(1.0 + rng.random(n))",
        'tridiag': "A = np.diag(4.0 + rng.random(n)) + np.diag(rng.random(n - 1), 1) + np.diag(rng.random(n - 1), -1)\nA = (A + A.T) / 2"}


@bound('Inverse (real/complex, n in {1,4}); LinSolve with dense and csc/csr matrices of the classes spd, symmetric indefinite, general, Hermitian, complex symmetric, complex general, diagonal, '
       'tridiagonal; right-hand sides vector / block of 3 / complex on a real dense matrix; flags hermitian/symmetric given or detected; solver overridden (dense LU, sparse LU, CG+ILU); '
       'LDAWrapper on and off; same protocols (tolerance 1e-6 for CG; T on every case, reference derivative with t = 1e-4 / tolerance 1e-3 for CG); LDAWrapper with a block right-hand side: T with all structured seeds '
       '(region of C04-lda-dependent-seed-columns) and T restricted to seeds with linearly independent non-zero columns (must hold)')
def linsolve(r, tier, seed):
    cs = []
    for k, n in (('gen', 1), ('gen', 4), ('cgen', 4), ('spd', 3)):
        cs.append((('Inverse', k, n), B(f"n = {n}\n{MATS[k]}\nreturn pym.Inverse(pym.Signal('A', A), pym.Signal('B'))"), {}, None))
    n = 5
    for k in MATS:
        cplx = k in ('herm', 'csym', 'cgen')
        for fmt in ('dense', 'csc', 'csr'):
            for rhs in ('vec', 'block', 'cvec'):
                if rhs == 'cvec' and fmt != 'dense' and not cplx:
                    continue   # documented as unsupported: complex rhs on a real sparse matrix
                if tier == 'quick' and fmt == 'csr' and (rhs != 'vec' or k in ('diag', 'tridiag', 'symindef')):
                    continue
                b = {'vec': "rng.standard_normal(n)", 'block': "rng.standard_normal((n, 3))", 'cvec': "rng.standard_normal(n) + 1j * rng.standard_normal(n)"}[rhs]
                if cplx and rhs != 'cvec':
                    b = f"({b} + 1j * {b})"
                conv = "" if fmt == 'dense' else f"\nA = sp.{fmt}_matrix(A)"
                for lda in ((True, False) if rhs != 'cvec' else (True,)):
                    tail = "" if lda else "\nm.use_lda_solver = False"
                    cs.append((('LinSolve', k, fmt, rhs, 'lda' if lda else 'plain'), B(f"n = {n}\n{MATS[k]}{conv}\nm = pym.LinSolve([pym.Signal('A', A), pym.Signal('b', {b})], pym.Signal('x')){tail}\nreturn m"), {}, None))
    extra = [('spd', 'dense', "hermitian=True"), ('spd', 'csc', "symmetric=True"), ('gen', 'dense', "hermitian=False"), ('herm', 'csc', "hermitian=True"), ('csym', 'dense', "symmetric=True, hermitian=False"),
             ('gen', 'dense', "solver=pym.solvers.SolverDenseLU()"), ('spd', 'dense', "solver=pym.solvers.SolverDenseLDL()"), ('spd', 'dense', "solver=pym.solvers.SolverDenseQR()"),
             ('spd', 'csc', "solver=pym.solvers.SolverSparseLU()"), ('gen', 'dense', "dep_tol=1e-3")]
    for k, fmt, kw in extra:
        conv = "" if fmt == 'dense' else f"\nA = sp.{fmt}_matrix(A)"
        cs.append((('LinSolve', k, fmt, kw), B(f"n = {n}\n{MATS[k]}{conv}\nreturn pym.LinSolve([pym.Signal('A', A), pym.Signal('b', rng.standard_normal((n, 2)))], pym.Signal('x'), {kw})"), {}, None))
    for pc in ("pym.solvers.ILU()", "pym.solvers.DampedJacobi(w=0.8)", "pym.solvers.SOR(w=1.0)"):
        cs.append((('LinSolve', 'CG', pc), B(f"n = 8\n{MATS['tridiag']}\nA = sp.csc_matrix(A)\nreturn pym.LinSolve([pym.Signal('A', A), pym.Signal('b', rng.standard_normal(n))], pym.Signal('x'), solver=pym.solvers.CG(preconditioner={pc}, tol=1e-10))"),
                   dict(tol=1e-6), None))
    runall(r, tier, seed, 'linsolve', cs, st_linsolve, EVERY['linsolve'])


@bound('EigenSolve: dense symmetric (standard and generalized, n = 5), dense Hermitian complex, dense general real, sparse symmetric with nmodes = 3 (standard / generalized / shifted); seeds on eigenvalues and '
       'eigenvectors, each alone and together; SystemOfEquations (csc symmetric; free / prescribed / both given, unsorted index sets, one or two load cases, complex) and StaticCondensation (dense and carrier seeds); same protocols; '
       'T for EigenSolve: structured seeds on eigenvalues (n,) and eigenvectors (n, k) jointly and each alone, every g(w) against central differences (t = 1e-6, tolerance 1e-6) of an independent dense eigen-decomposition '
       '(numpy.linalg.eigh / eig, normalisation q.B.q = 1, sign by mean, k modes nearest sigma; eigenvalue gaps >= 0.5), also the response itself against it (1e-8); two load cases / StaticCondensation: as the LDAWrapper block region of linsolve')
def eigen_systems(r, tier, seed):
    cs = []
    sym = "n = 5\nRm = 0.1 * rng.standard_normal((n, n))\nA = np.diag(np.arange(1.0, n + 1)) + Rm + Rm.T\nSm = 0.05 * rng.standard_normal((n, n))\nBm = 2.0 * np.eye(n) + Sm + Sm.T"
    out = "[pym.Signal('lam'), pym.Signal('Q')]"
    cs.append((('EigenSolve', 'dense sym'), B(f"{sym}\nreturn pym.EigenSolve(pym.Signal('A', A), {out})"), dict(tol=1e-8), None))
    cs.append((('EigenSolve', 'dense sym flag'), B(f"{sym}\nreturn pym.EigenSolve(pym.Signal('A', A), {out}, hermitian=True)"), dict(tol=1e-8), None))
    cs.append((('EigenSolve', 'dense generalized'), B(f"{sym}\nreturn pym.EigenSolve([pym.Signal('A', A), pym.Signal('B', Bm)], {out})"), dict(tol=1e-8), None))
    cs.append((('EigenSolve', 'dense hermitian'), B("n = 4\nRm = 0.1 * (rng.standard_normal((n, n)) + 1j * rng.standard_normal((n, n)))\nA = np.diag(np.arange(1.0, n + 1)) + Rm + Rm.conj().T\n"
                                                    f"return pym.EigenSolve(pym.Signal('A', A), {out})"), dict(tol=1e-8), None))
    cs.append((('EigenSolve', 'dense general'), B("n = 4\nA = np.diag(np.arange(1.0, n + 1)) + 0.1 * rng.standard_normal((n, n))\n" f"return pym.EigenSolve(pym.Signal('A', A), {out})"), dict(tol=1e-8), None))
    sps = "n = 9\nA = sp.diags([np.arange(1.0, n + 1) * 2, 0.3 * rng.random(n - 1), 0.3 * rng.random(n - 1)], [0, 1, -1]).tocsc()\nA = ((A + A.T) / 2).tocsc()\nBm = sp.diags([1.0 + 0.2 * rng.random(n)], [0]).tocsc()"
    cs.append((('EigenSolve', 'sparse sym'), B(f"{sps}\nreturn pym.EigenSolve(pym.Signal('A', A), {out}, hermitian=True, nmodes=3)"), dict(tol=1e-6), None))
    cs.append((('EigenSolve', 'sparse generalized'), B(f"{sps}\nreturn pym.EigenSolve([pym.Signal('A', A), pym.Signal('B', Bm)], {out}, hermitian=True, nmodes=3)"), dict(tol=1e-6), None))
    cs.append((('EigenSolve', 'sparse shifted'), B(f"{sps}\nreturn pym.EigenSolve([pym.Signal('A', A), pym.Signal('B', Bm)], {out}, hermitian=True, nmodes=2, sigma=7.1)"), dict(tol=1e-6), None))
    base = "n = 7\nRm = rng.standard_normal((n, n))\nA = sp.csc_matrix(Rm + Rm.T + 2 * n * np.eye(n))\nf = np.array([0, 2, 3, 6])\np = np.array([1, 4, 5])"
    known = {r"response\(\)( \([a-z ]+\))? replaced the state of an input \| input 0: now .*": F_SOE}
    for idx in ("free=f, prescribed=p", "free=f", "prescribed=p", "free=f[::-1].copy(), prescribed=np.array([5, 1, 4])"):
        for ld in ("", ", 2"):
            cs.append((('SystemOfEquations', idx, ld), B(f"{base}\nreturn pym.SystemOfEquations([pym.Signal('A', A), pym.Signal('bf', rng.standard_normal((4{ld}))), pym.Signal('xp', rng.standard_normal((3{ld})))], [pym.Signal('x'), pym.Signal('b')], {idx})"),
                       {}, known))
    cs.append((('SystemOfEquations', 'complex'), B("n = 6\nRm = rng.standard_normal((n, n)) + 1j * rng.standard_normal((n, n))\nA = sp.csc_matrix(Rm + Rm.T + 3 * n * np.eye(n))\n"
                                                   "return pym.SystemOfEquations([pym.Signal('A', A), pym.Signal('bf', rng.standard_normal(4) + 0j), pym.Signal('xp', rng.standard_normal(2) + 0j)], [pym.Signal('x'), pym.Signal('b')], prescribed=np.array([1, 4]))"), {}, known))
    for ms in ('dense', 'dyad', 'dyad1'):
        cs.append((('StaticCondensation', ms), B(f"{base}\nreturn pym.StaticCondensation(pym.Signal('A', A), pym.Signal('Ared'), main=np.array([0, 3]), free=np.array([1, 2, 5, 6]))"), dict(matseed=ms), known))
    runall(r, tier, seed, 'eigen_systems', cs, st_eigen, EVERY['eigen_systems'])


# ----------------------------------------------------------------------------------------------------------- finite elements
@bound('AssembleGeneral (nonsymmetric element matrix, 1 and 2 dofs per node, bc none / list / array, bcdiagval, add_constant, csc/csr/coo matrix types, complex x), AssembleStiffness (plane stress/strain, 3D, bc), '
       'AssembleMass (1-3 dofs, bcdiagval), AssemblePoisson; domains 3x2, 1x3, 4x1, 2x2x2, 3x2x1 with non-unit element sizes; matrix seeds as real carriers, complex carriers, single dyads and dense arrays; same protocols '
       '(T with structured carriers / dense matrices and reference derivative on every 2nd case of a family [quick] / every case [thorough])')
def assembly(r, tier, seed):
    cs = []
    x = "sx = pym.Signal('x', 0.2 + rng.random(dom.nel))"
    for d in ('2d', '2d-col', '3d'):
        en = 4 if d != '3d' else 8
        for ndof in (1, 2):
            el = f"el = np.arange({(en * ndof) ** 2}.0).reshape({en * ndof}, {en * ndof}) / 7 + 3 * np.eye({en * ndof})"
            for kw in ("", ", bc=[0, 3]", ", bc=np.array([1, 2, 5]), bcdiagval=2.5", ", add_constant=0.5 * sp.identity(dom.nnodes * %d, format='csc')" % ndof, ", matrix_type=sp.csr_matrix, bc=np.array([0])",
                       ", matrix_type=sp.coo_matrix"):
                for ms in ('dyad', 'dense', 'dyadc', 'dyad1'):
                    if tier == 'quick' and ((ms in ('dyadc', 'dyad1') and (d != '2d' or kw not in ("", ", bc=[0, 3]"))) or (d == '3d' and ndof == 2 and ms == 'dense')):
                        continue
                    cs.append((('AssembleGeneral', d, ndof, kw, ms), B(f"dom = {DOM[d]}\n{el}\n{x}\nreturn pym.AssembleGeneral(sx, pym.Signal('A'), dom, el{kw})"), dict(matseed=ms), None))
    cs.append((('AssembleGeneral', 'complex x'), B(f"dom = {DOM['2d']}\nel = np.arange(16.0).reshape(4, 4) + 1j * np.eye(4)\nsx = pym.Signal('x', 0.2 + rng.random(dom.nel) + 1j * rng.random(dom.nel))\nreturn pym.AssembleGeneral(sx, pym.Signal('A'), dom, el, bc=[2])"),
               dict(matseed='dyadc'), None))
    for d in ('2d', '2d-row', '3d', '3d-flat'):
        is3 = d.startswith('3d')
        for kw in (("", ", plane='stress', e_modulus=2.0, poisson_ratio=0.25", ", bc=np.array([0, 1, 4])") if not is3 else ("", ", bc=np.array([0, 1, 2, 9]), bcdiagval=1.0")):
            for ms in ('dyad', 'dense'):
                if tier == 'quick' and is3 and ms == 'dense' and kw:
                    continue
                cs.append((('AssembleStiffness', d, kw, ms), B(f"dom = {DOM[d]}\n{x}\nreturn pym.AssembleStiffness(sx, pym.Signal('K'), dom{kw})"), dict(matseed=ms), None))
        for kw in ("", ", ndof=%d, material_property=2.0" % (3 if is3 else 2), ", bc=[0, 2], bcdiagval=1.5"):
            cs.append((('AssembleMass', d, kw), B(f"dom = {DOM[d]}\n{x}\nreturn pym.AssembleMass(sx, pym.Signal('M'), dom{kw})"), dict(matseed='dyad'), None))
        for kw in ("", ", material_property=0.7, bc=[1]"):
            cs.append((('AssemblePoisson', d, kw), B(f"dom = {DOM[d]}\n{x}\nreturn pym.AssemblePoisson(sx, pym.Signal('P'), dom{kw})"), dict(matseed='dense' if kw else 'dyad'), None))
    runall(r, tier, seed, 'assembly', cs, st_default, EVERY['assembly'])


@bound('ElementOperation (matrix over dofs, over nodes repeated per dof, 3-index operator), Strain (voigt on/off), Stress (plane stress/strain, 3D), ElementAverage (1 and 2 dofs per node), NodalOperation, '
       'ThermoMechanical; real and complex nodal vectors; domains 3x2, 1x3, 2x2x2, 3x2x1; same protocols (T with reference derivative on every case)')
def element_ops(r, tier, seed):
    cs = []
    for d in ('2d', '2d-col', '3d', '3d-flat'):
        dim, en = (3, 8) if d.startswith('3d') else (2, 4)
        u = lambda nd, c=False: f"su = pym.Signal('u', rng.standard_normal(dom.nnodes * {nd}){' + 1j * rng.standard_normal(dom.nnodes * %d)' % nd if c else ''})"
        cs.append((('ElementOperation', d, 'dofs'), B(f"dom = {DOM[d]}\n{u(dim)}\nem = np.arange({3 * en * dim}.0).reshape(3, {en * dim}) / 5 - 1\nreturn pym.ElementOperation(su, pym.Signal('y'), dom, em)"), {}, None))
        cs.append((('ElementOperation', d, 'nodes repeated'), B(f"dom = {DOM[d]}\n{u(2)}\nem = np.arange({2 * en}.0).reshape(2, {en}) / 5 - 1\nreturn pym.ElementOperation(su, pym.Signal('y'), dom, em)"), {}, None))
        cs.append((('ElementOperation', d, '3-index'), B(f"dom = {DOM[d]}\n{u(1)}\nem = np.arange({6 * en}.0).reshape(2, 3, {en}) / 5 - 1\nreturn pym.ElementOperation(su, pym.Signal('y'), dom, em)"), {}, None))
        cs.append((('ElementOperation', d, 'complex'), B(f"dom = {DOM[d]}\n{u(dim, True)}\nem = np.arange({3 * en * dim}.0).reshape(3, {en * dim}) / 5 - 1\nreturn pym.ElementOperation(su, pym.Signal('y'), dom, em)"), {}, None))
        for v in ('True', 'False'):
            cs.append((('Strain', d, v), B(f"dom = {DOM[d]}\n{u(dim)}\nreturn pym.Strain(su, pym.Signal('e'), dom, voigt={v})"), {}, None))
        for kw in (("", ", plane='stress', e_modulus=3.0, poisson_ratio=0.2") if dim == 2 else ("", ", e_modulus=0.5")):
            cs.append((('Stress', d, kw), B(f"dom = {DOM[d]}\n{u(dim)}\nreturn pym.Stress(su, pym.Signal('s'), dom{kw})"), {}, None))
        for nd in (1, 2):
            cs.append((('ElementAverage', d, nd), B(f"dom = {DOM[d]}\n{u(nd)}\nreturn pym.ElementAverage(su, pym.Signal('a'), dom)"), {}, None))
        cs.append((('NodalOperation', d), B(f"dom = {DOM[d]}\nsx = pym.Signal('x', rng.standard_normal(dom.nel))\nem = np.arange({en * 2}.0) / 3 - 2\nreturn pym.NodalOperation(sx, pym.Signal('f'), dom, em)"), {}, None))
        cs.append((('NodalOperation', d, 'matrix'), B(f"dom = {DOM[d]}\nsx = pym.Signal('x', rng.standard_normal((3, dom.nel)))\nem = np.arange({3 * en}.0).reshape(3, {en}) / 3 - 2\nreturn pym.NodalOperation(sx, pym.Signal('f'), dom, em)"), {}, None))
        for kw in ("", ", e_modulus=2.0, poisson_ratio=0.25, alpha=1e-2" + (", plane='stress'" if dim == 2 else "")):
            cs.append((('ThermoMechanical', d, kw), B(f"dom = {DOM[d]}\nsx = pym.Signal('x', rng.random(dom.nel))\nreturn pym.ThermoMechanical(sx, pym.Signal('f'), dom{kw})"), {}, None))
    runall(r, tier, seed, 'element_ops', cs, st_default, EVERY['element_ops'])


# ------------------------------------------------------------------------------------------------------------------ filters
@bound('FilterConv (radius 1.5 / 2.5 relative and absolute, own 3x3 and 3x1 kernels; every side padded symmetric / edge / wrap / constant 0 / constant 1 in mixed combinations; override_values; 2D 3x2, 5x4, 1x3, 3D 2x2x2, 3x2x3), '
       'DensityFilter (radius 1.2 / 2.5, nonpadding), OverhangFilter (all 4 / 6 axis directions as strings and arrays, 5 and 9 supports in 3D, non-default xi_0/p/eps, single-layer and 1-wide domains); same protocols '
       '(T with reference derivative on every 2nd case of a family [quick] / every case [thorough])')
def filters(r, tier, seed):
    cs = []
    x = "sx = pym.Signal('x', 0.2 + 0.8 * rng.random(dom.nel))"
    pads = ["", ", xmin_bc='edge', xmax_bc='wrap', ymin_bc=0.0, ymax_bc=1.0", ", xmin_bc='wrap', xmax_bc='wrap', ymin_bc='edge', ymax_bc='symmetric'", ", xmin_bc=1.0, xmax_bc=0, ymin_bc='wrap', ymax_bc='edge'",
            ", xmin_bc=0.5, xmax_bc='edge', ymin_bc=0.0, ymax_bc=0.0"]
    pads3 = ["", ", zmin_bc='edge', zmax_bc=0.0, xmin_bc='wrap', xmax_bc='wrap'", ", zmin_bc=1.0, zmax_bc='wrap', ymin_bc=0.0, ymax_bc='edge'"]
    for d in ('2d', '2d-big', '2d-col', '3d', '3d-big'):
        is3 = d.startswith('3d')
        kernels = ["radius=1.5", "radius=2.5", "radius=1.2, relative_units=False", "weights=np.array([[1.0, 2.0, 1.0], [0.5, 4.0, 3.0], [0.0, 2.0, 1.0]]) / 14.5", "weights=np.array([[1.0], [3.0], [2.0]]) / 6"]
        if is3:
            kernels = kernels[:3] + ["weights=np.arange(27.0).reshape(3, 3, 3) / 351"]
        for kn in kernels:
            for pd in (pads3 if is3 else pads):
                if tier == 'quick' and ((d in ('2d-col', '3d-big') and pd not in (pads[1], pads3[1])) or (kn.startswith('radius=2.5') and pd == "")):
                    continue
                cs.append((('FilterConv', d, kn, pd), B(f"dom = {DOM[d]}\n{x}\nreturn pym.FilterConv(sx, pym.Signal('y'), dom, {kn}{pd})"), {}, None))
        cs.append((('FilterConv', d, 'override_values'), B(f"dom = {DOM[d]}\n{x}\nm = pym.FilterConv(sx, pym.Signal('y'), dom, radius=1.5, xmin_bc=0.0)\nm.override_values(np.s_[0, :, :], 1.0)\nreturn m"), {}, None))
        for kw in ("radius=1.2", "radius=2.5", "radius=1.5, nonpadding=np.array([0, 1])"):
            cs.append((('DensityFilter', d, kw), B(f"dom = {DOM[d]}\n{x}\nreturn pym.DensityFilter(sx, pym.Signal('y'), dom, {kw})"), {}, None))
    dirs2 = ["'x+'", "'x-'", "'y+'", "'-y'", "[0, 1]", "[1, 0]", "np.array([0.0, -2.0])", "(-1, 0, 0)"]
    dirs3 = dirs2[:4] + ["'z+'", "'z-'", "[0, 0, 1]", "[0, 0, -1]", "np.array([0, -1, 0])"]
    for d in ('2d', '2d-big', '2d-col', '2d-row', '3d', '3d-big', '3d-flat'):
        is3 = d.startswith('3d')
        for di in (dirs3 if is3 else dirs2):
            for kw in (("", ", nsampling=9", ", nsampling=5, xi_0=0.4, p=20.0, eps=1e-3") if is3 else ("", ", xi_0=0.3, p=15.0, eps=1e-2")):
                if tier == 'quick' and kw and d not in ('2d', '3d'):
                    continue
                cs.append((('OverhangFilter', d, di, kw), B(f"dom = {DOM[d]}\n{x}\nreturn pym.OverhangFilter(sx, pym.Signal('y'), dom, direction={di}{kw})"), dict(tol=1e-8), None))
    cs.append((('OverhangFilter', 'default direction'), B(f"dom = {DOM['2d-big']}\n{x}\nreturn pym.OverhangFilter(sx, pym.Signal('y'), dom)"), dict(tol=1e-8), None))
    runall(r, tier, seed, 'filters', cs, st_default, EVERY['filters'])


# ---------------------------------------------------------------------------------------------------------------- output
@bound('modules without outputs (ScalarToFile, WriteToVTI, PlotDomain, PlotGraph, PlotIter; files in a temporary directory, figures not shown): response() twice, sensitivity(), reset() leave every input state and '
       'every sensitivity present on the inputs untouched (value, dtype, identity)')
def output_modules(r, tier, seed):
    pre = "_tmp = tempfile.mkdtemp()\n"
    cs = [(('ScalarToFile',), B("return pym.ScalarToFile([pym.Signal('a', float(rng.random())), pym.Signal('v', rng.random(3))], saveto=os.path.join(_tmp, 'out.csv'))", pre)),
          (('WriteToVTI', '2d'), B(f"dom = {DOM['2d']}\nreturn pym.WriteToVTI([pym.Signal('rho', rng.random(dom.nel)), pym.Signal('u', rng.random(dom.nnodes * 2))], domain=dom, saveto=os.path.join(_tmp, 'out.vti'))", pre)),
          (('WriteToVTI', '3d scaled'), B(f"dom = {DOM['3d']}\nreturn pym.WriteToVTI([pym.Signal('rho', rng.random(dom.nel)), pym.Signal('T', rng.random(dom.nnodes))], domain=dom, saveto=os.path.join(_tmp, 'out3.vti'), scale=2.0)", pre)),
          (('PlotDomain', '2d'), B(f"dom = {DOM['2d']}\nreturn pym.PlotDomain(pym.Signal('rho', rng.random(dom.nel)), domain=dom, show=False, saveto=os.path.join(_tmp, 'dom.png'))", pre)),
          (('PlotDomain', '3d'), B(f"dom = {DOM['3d']}\nreturn pym.PlotDomain(pym.Signal('rho', rng.random(dom.nel)), domain=dom, show=False)", pre)),
          (('PlotGraph',), B("return pym.PlotGraph([pym.Signal('x', np.arange(4.0)), pym.Signal('y', rng.random(4))], show=False)", pre)),
          (('PlotIter',), B("return pym.PlotIter([pym.Signal('f', float(rng.random())), pym.Signal('g', rng.random(2))], show=False)", pre))]
    if tier == 'quick':
        cs = cs[:4] + cs[5:]
    late = {}
    for key, src in cs:
        execute(r, late, 'output_modules', key, src, dict(history=False), seed)
    flush(r, late)
    try:
        import matplotlib.pyplot as plt
        plt.close('all')
    except Exception:
        pass


CHECKS = [('elementwise', elementwise), ('generic', generic), ('linsolve', linsolve), ('eigen_systems', eigen_systems), ('assembly', assembly), ('element_ops', element_ops), ('filters', filters),
          ('output_modules', output_modules)]
