"""C17 helper: negative-gradient objectives (own value/gradient formulas), an instrumented minimize_oc run and the per-iteration audit.
Self-contained (numpy + pymoto only): its source text is embedded verbatim in replay programs."""
import contextlib
import io
import numpy as np
import pymoto as pym


# ---------------------------------------------------------------- objectives of the (scaled) design u = s*x, written out by hand
def obj_value(fs, u):
    k, c = fs['kind'], np.array(fs['c'], dtype=float)
    if k == 'recip':     # sum c/(u+shift)^p  (p = 1, shift = 0: the separable problem of the statement; p = 3: SIMP-like; shift > 0 keeps it finite at u = 0)
        return float(np.sum(c / (u + fs.get('shift', 0.0)) ** fs.get('p', 1)))
    if k == 'lin':       # -sum c u   (c < 0 gives positive gradients, which the method clips)
        return float(-np.sum(c * u))
    if k == 'exp':       # sum c exp(-u)
        return float(np.sum(c * np.exp(-u)))
    raise ValueError(k)


def obj_grad(fs, u):
    k, c = fs['kind'], np.array(fs['c'], dtype=float)
    if k == 'recip':
        p = fs.get('p', 1)
        return -p * c / (u + fs.get('shift', 0.0)) ** (p + 1)
    if k == 'lin':
        return -c + 0 * u
    if k == 'exp':
        return -c * np.exp(-u)
    raise ValueError(k)


def sizes_of(spec):
    return [len(v['x0']) for v in spec['vars']]


def used_index(spec):
    """positions of the design vector the objective is connected to (it may skip variable signals: their gradient is zero)"""
    sz = sizes_of(spec)
    off = np.concatenate([[0], np.cumsum(sz)])
    which = spec['obj'].get('vars') or list(range(len(sz)))
    return np.concatenate([np.arange(off[i], off[i + 1]) for i in which]).astype(int)


def ref_grad(spec, x):
    """reference df/dx at the full design (scale module s, objective on u = s*x)"""
    idx = used_index(spec)
    s = np.array(spec['scale'], dtype=float)[idx] if spec.get('scale') else np.ones(len(idx))
    g = np.zeros(len(x))
    g[idx] = s * obj_grad(spec['obj'], s * x[idx])
    return g


def ref_value(spec, x):
    idx = used_index(spec)
    s = np.array(spec['scale'], dtype=float)[idx] if spec.get('scale') else np.ones(len(idx))
    return obj_value(spec['obj'], s * x[idx])


def expand(mode, val, n):
    return np.full(n, float(val)) if mode in ('scalar', 'default') else np.array(val, dtype=float)


class C17Scale(pym.Module):
    def _prepare(self, s):
        self.s = s

    def _response(self, x):
        return self.s * x

    def _sensitivity(self, du):
        return self.s * du


class C17Objective(pym.Module):
    def _prepare(self, fs, log=None):
        self.fs, self.log = fs, log

    def _response(self, *us):
        if self.log is not None:
            self.log.append([np.array(v, dtype=float, copy=True) for v in us])
        self.shapes = [np.shape(v) for v in us]
        self.u = np.concatenate([np.ravel(np.asarray(v, dtype=float)) for v in us])
        return obj_value(self.fs, self.u)

    def _sensitivity(self, df):
        g = df * obj_grad(self.fs, self.u)
        out, o = [], 0
        for shp in self.shapes:
            k = int(np.prod(shp)) if len(shp) else 1
            out.append(float(g[o]) if shp == () else g[o:o + k].reshape(shp))
            o += k
        return out


class C17Probe(pym.Module):
    """logs the variable states at every network response (no outputs, no sensitivities)"""
    def _prepare(self, log):
        self.log = log

    def _response(self, *xs):
        self.log.append([np.array(v, dtype=float, copy=True) for v in xs])
        return []

    def _sensitivity(self):
        return [None for _ in self.sig_in]


def _arg(t):
    mode, val, container = t
    if mode == 'scalar':
        return val
    return np.array(val, dtype=float) if container == 'array' else list(val)


def run(spec, prior=0):
    """run minimize_oc on the network  [probe](x) ; u_i = s_i * x_i (optional) ; f = objective(u)  and record the variable states at every response.
    prior = number of complete earlier minimize_oc runs (2 iterations each) on the same network and signals"""
    log = []
    sv = [pym.Signal(f'x{i}', (float(v['x0'][0]) if v['kind'] == 'scalar' else np.array(v['x0'], dtype=float))) for i, v in enumerate(spec['vars'])]
    given = [s.state for s in sv]
    given_copy = [np.array(v, copy=True) for v in given]
    which = spec['obj'].get('vars') or list(range(len(sv)))
    mods = [C17Probe(sv, [], log)]
    src = [sv[i] for i in which]
    if spec.get('scale'):
        sz = sizes_of(spec)
        off = np.concatenate([[0], np.cumsum(sz)])
        su = [pym.Signal(f'u{i}') for i in which]
        for i, u in zip(which, su):
            sc = np.array(spec['scale'][off[i]:off[i + 1]])
            mods.append(C17Scale(sv[i], u, float(sc[0]) if spec['vars'][i]['kind'] == 'scalar' else sc))
        src = su
    f = pym.Signal('f')
    mods.append(C17Objective(src, f, spec['obj']))
    net = pym.Network(mods)
    kw = {k: _arg(spec[k]) for k in ('xmin', 'xmax', 'move') if spec[k][0] != 'default'}
    kw_copy = {k: (np.array(v, copy=True) if hasattr(v, '__len__') else v) for k, v in kw.items()}
    if spec.get('maxvol') is not None:
        kw['maxvol'] = spec['maxvol']
    form = spec.get('varform', 'list')
    va = sv[0] if form == 'single' else (tuple(sv) if form == 'tuple' else sv)
    tr = dict(error=None)
    buf = io.StringIO()
    try:
        with contextlib.redirect_stdout(buf):
            for _ in range(prior):
                pym.minimize_oc(net, va, f, **dict(kw, **dict(spec['opts'], maxit=2)), verbosity=0)
            del log[:]
            tr['init'] = [np.array(s.state, dtype=float, copy=True) for s in sv]
            pym.minimize_oc(net, va, f, **kw, **spec['opts'], verbosity=spec.get('verbosity', 0))
    except Exception as e:   # noqa
        tr['error'] = f'{type(e).__name__}: {e}'[:300]
    tr['log'] = log
    tr['printed'] = buf.getvalue()
    tr['final'] = [np.array(s.state, dtype=float, copy=True) for s in sv]
    tr['f'] = None if f.state is None else float(f.state)
    tr['caller_unchanged'] = all(np.array_equal(np.asarray(a), b) for a, b in zip(given, given_copy)) and all(np.array_equal(np.asarray(kw[k]), np.asarray(kw_copy[k])) for k in kw_copy)
    return tr


def _cat(states):
    return np.concatenate([np.ravel(v) for v in states])


def oc_update(x, df, lam, lo, hi):
    """the optimality-criteria update with multiplier lam (lam -> 0+: everything with a negative gradient goes to its upper limit)"""
    if lam <= 0:
        return np.where((df < 0) & (x > 0), hi, np.minimum(np.maximum(0.0 * x, lo), hi))
    return np.minimum(np.maximum(x * np.sqrt(-df / lam), lo), hi)


def multiplier(x, df, lo, hi, maxvol, l1, l2):
    """sup{lam in [l1, l2] : volume(lam) > maxvol} by own bisection to machine precision (the volume is non-increasing in lam)"""
    vol = lambda lam: np.sum(oc_update(x, df, lam, lo, hi))   # noqa
    if not vol(l1 if l1 > 0 else 0.0) > maxvol:
        return l1
    if vol(l2) > maxvol:
        return l2
    a, b = l1, l2
    for _ in range(300):
        mid = 0.5 * (a + b)
        if mid == a or mid == b:
            break
        if vol(mid) > maxvol:
            a = mid
        else:
            b = mid
    return 0.5 * (a + b)


# ---------------------------------------------------------------- audit: every clause of C17 on one recorded run
def audit(spec, tr, conv=None):
    bad = []

    def chk(cond, clause, **w):
        if not cond:
            bad.append((clause, {k: (v.tolist() if isinstance(v, np.ndarray) else v) for k, v in w.items()}))
        return cond

    if not chk(tr['error'] is None, 'run completes without an exception', error=tr['error']):
        return bad
    sz = sizes_of(spec)
    n = int(np.sum(sz))
    o = spec['opts']
    xmin, xmax, move = expand(spec['xmin'][0], spec['xmin'][1], n), expand(spec['xmax'][0], spec['xmax'][1], n), expand(spec['move'][0], spec['move'][1], n)
    l1i, l2i, ltol = o.get('l1init', 0), o.get('l2init', 100000), o.get('l1l2tol', 1e-4)
    log = tr['log']
    chk(1 <= len(log) <= o.get('maxit', 100), 'number of network responses within maxit', responses=len(log))
    chk(tr['caller_unchanged'], 'initial state arrays and bound / move arrays of the caller are not modified')
    for k, st in enumerate(log + [tr['final']]):
        if not chk(len(st) == len(sz) and all(np.size(s) == z for s, z in zip(st, sz)), 'each variable signal holds a state of its own size', design=k, sizes=[int(np.size(s)) for s in st]):
            return bad
    D = [_cat(st) for st in log]
    chk(np.array_equal(D[0], _cat(tr['init'])), 'first response is evaluated at the initial design', got=D[0])
    xf = _cat(tr['final'])
    if not np.array_equal(xf, D[-1]):
        D.append(xf)       # the last update is written to the signals but not evaluated any more
    chk(tr['f'] is not None and abs(tr['f'] - ref_value(spec, _cat(log[-1]))) <= 1e-12 * max(1.0, abs(tr['f'])), 'objective signal holds the value at the last evaluated design', f=tr['f'])
    maxvol = float(np.sum(D[0])) if spec.get('maxvol') is None else float(spec['maxvol'])
    scale = float(np.max(np.abs(xmax)))
    d = 1e-12 * scale * max(n, 1)
    for k in range(len(D)):
        x = D[k]
        chk(np.all(x >= xmin) and np.all(x <= xmax), 'every design lies within [xmin, xmax]', design=k, x=x, xmin=xmin, xmax=xmax)
        if k == 0:
            continue
        xp = D[k - 1]
        w = dict(design=k)
        chk(np.all(np.abs(x - xp) <= move + 4e-16 * scale), 'every design differs from the previous one by at most the move limit', step=x - xp, move=move, **w)
        df = np.minimum(ref_grad(spec, xp), 0.0)
        lo, hi = np.maximum(xmin, xp - move), np.minimum(xmax, xp + move)
        lam = multiplier(xp, df, lo, hi, maxvol, l1i, l2i)
        up, dn = oc_update(xp, df, max(lam - ltol, 0.0), lo, hi), oc_update(xp, df, lam + ltol, lo, hi)
        reachable = np.sum(oc_update(xp, df, l2i, lo, hi)) <= maxvol <= np.sum(oc_update(xp, df, l1i, lo, hi))
        if reachable:
            chk(abs(np.sum(x) - maxvol) <= (np.sum(up) - np.sum(dn)) + d, 'total volume equals the prescribed volume to bisection tolerance (volume reachable within the move limits)',
                volume=float(np.sum(x)), maxvol=maxvol, allowed_error=float(np.sum(up) - np.sum(dn)), multiplier=lam, **w)
            chk(np.all(x >= dn - d) and np.all(x <= up + d), 'update = clip(x*sqrt(-df/lam), move and bound limits) with the multiplier within l1l2tol of the volume-matching one',
                x=x, lower=dn, upper=up, multiplier=lam, **w)
            free = (x > lo + 1e-9 * scale) & (x < hi - 1e-9 * scale) & (df < 0)
            if np.any(free):
                lj = -df[free] * xp[free] ** 2 / x[free] ** 2
                chk(np.all(np.abs(lj - lj[0]) <= 1e-9 * abs(lj[0])) and lam - ltol - 1e-9 * lam <= lj[0] <= lam + ltol + 1e-9 * lam,
                    'all unclipped variables share one multiplier, within l1l2tol of the volume-matching one', implied=lj, multiplier=lam, **w)
    if conv is not None:
        xs = np.array(spec['xstar'])
        chk(np.max(np.abs(D[-1] - xs)) <= conv['xtol'], 'the iteration converges to the analytic optimum of sum c_i/x_i', final_distance=float(np.max(np.abs(D[-1] - xs))), allowed=conv['xtol'],
            x=D[-1], xstar=xs, designs=len(D))
    return bad
