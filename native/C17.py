"""C17 bounded stand-ins: minimize_oc observed at the variable signals at every network response (a probe module in the network) over generated
negative-gradient objectives; reference = own OC update formula with the volume-matching multiplier found by an independent bisection to machine
precision, so that 'to bisection tolerance' becomes a computed bracket.  All clause checks live in native/C17_lib.audit (source embedded in replays)."""
import inspect
import itertools
import math
import numpy as np
from native.util import bound, REPLAY_HEAD
from native import C17_lib as L

_LIB_SRC = inspect.getsource(L)


def layouts(n):
    if n == 1:
        return [[('scalar', 1)], [('array', 1)]]
    out = [[('array', n)], [('scalar', 1)] * n if n <= 3 else [('scalar', 1), ('array', n - 2), ('array', 1)]]
    if n >= 3:
        out.append([('array', n - n // 3 - 1), ('scalar', 1), ('array', n // 3)])
    return out


def optimum_recip(c, xmin, xmax, vol):
    """analytic optimum of  min sum c_i/x_i  s.t. sum x_i = vol, xmin <= x <= xmax :  x_i = clip(sqrt(c_i/lam)) with lam from sum x_i = vol"""
    X = lambda lam: np.clip(np.sqrt(c / lam), xmin, xmax)   # noqa
    a, b = 1e-12, 1e12
    for _ in range(400):
        mid = math.sqrt(a * b)
        a, b = (mid, b) if np.sum(X(mid)) > vol else (a, mid)
    return X(math.sqrt(a * b)), math.sqrt(a * b)


def gen(rng, layout, kind='recip', p=1, bmode='scalar', mmode='scalar', container='array', box=(0.01, 1.0), volfrac=None, scale=False, partial=False, zeros=0, opts=None,
        start='random', movescale=1.0):
    sizes = [k for _, k in layout]
    n, nv = int(np.sum(sizes)), len(sizes)
    lo0, hi0 = box
    w = hi0 - lo0
    if bmode == 'default':
        xmin_s, xmax_s = ('default', 0.0, None), ('default', 1.0, None)
    elif bmode == 'scalar':
        xmin_s, xmax_s = ('scalar', lo0, None), ('scalar', hi0, None)
    elif bmode == 'variable':
        a = lo0 + 0.1 * w * rng.random(n)
        xmin_s, xmax_s = ('variable', a.tolist(), container), ('variable', (a + w * (0.5 + 0.5 * rng.random(n))).tolist(), container)
    else:   # mixed: scalar lower, per-variable upper
        xmin_s, xmax_s = ('scalar', lo0, None), ('variable', (lo0 + w * (0.5 + 0.5 * rng.random(n))).tolist(), container)
    xmin, xmax = L.expand(xmin_s[0], xmin_s[1], n), L.expand(xmax_s[0], xmax_s[1], n)
    if bmode == 'default':
        xmin = np.full(n, 0.0)
    dx = xmax - xmin
    if mmode == 'default':
        move_s = ('default', 0.2, None)
    elif mmode == 'scalar':
        move_s = ('scalar', movescale * w * float(rng.choice([0.05, 0.2, 0.5])), None)
    else:
        move_s = ('variable', (movescale * w * (0.05 + 0.3 * rng.random(n))).tolist(), container)
    c = 0.5 + 4.5 * rng.random(n)
    which = None
    if partial and nv > 1:
        which = sorted(rng.choice(nv, size=nv - 1, replace=False).tolist())
    off = np.concatenate([[0], np.cumsum(sizes)])
    idx = np.arange(n) if which is None else np.concatenate([np.arange(off[j], off[j + 1]) for j in which])
    if kind == 'lin' and zeros < 0:      # some positive gradients (clipped by the method)
        c[rng.choice(idx, size=min(len(idx) - 1, -zeros), replace=False)] *= -1.0
    elif zeros > 0:                      # exact zero gradients (never all of them: the objective must not vanish identically)
        c[rng.choice(idx, size=min(len(idx) - 1, zeros), replace=False)] = 0.0
    sc = (0.5 + 2.0 * rng.random(n)) if scale else None
    frac = (0.25 + 0.5 * rng.random()) if volfrac is None else volfrac
    if start == 'uniform':      # the usual start of a topology optimisation: every variable at the volume fraction
        x0 = xmin + frac * dx
    else:
        x0 = xmin + (0.02 + 0.96 * rng.random(n)) * dx
        pick = rng.random(n)
        x0 = np.where(pick > 0.9, xmax, x0)     # some variables start exactly on their upper bound
    vars_, o_ = [], 0
    for kd, k in layout:
        vars_.append(dict(kind=kd, x0=x0[o_:o_ + k].tolist()))
        o_ += k
    spec = dict(vars=vars_, xmin=xmin_s, xmax=xmax_s, move=move_s, obj=dict(kind=kind, c=c[idx].tolist(), p=p, shift=(0.1 if bmode == 'default' else 0.0), vars=which), scale=None if sc is None else sc.tolist(),
                maxvol=None if volfrac is None else float(np.sum(xmin) + frac * np.sum(dx)), opts=dict(opts or {}))
    if kind == 'recip' and p == 1 and which is None and zeros == 0 and bmode != 'default':
        vol = float(np.sum(x0)) if spec['maxvol'] is None else spec['maxvol']
        ceff = c / (sc if sc is not None else 1.0)
        xs, lam = optimum_recip(ceff, xmin, xmax, vol)
        spec['xstar'], spec['lamstar'] = xs.tolist(), lam
    return spec


def replay(spec, conv=None, prior=0):
    return (REPLAY_HEAD + _LIB_SRC + f"\n\nspec = {spec!r}\ntr = run(spec, prior={prior})\nbad = audit(spec, tr, conv={conv!r})\nfor b in bad[:5]:\n    print(b)\nassert not bad, bad[0][0]\n")


def report(r, key, spec, conv=None, prior=0, finding=None):
    tr = L.run(spec, prior=prior)
    bad = L.audit(spec, tr, conv=conv)
    r.case(key)
    seen = set()
    for clause, wit in bad:
        if clause not in seen:
            seen.add(clause)
            r.check(False, clause, dict(case=key, witness=wit), replay_code=replay(spec, conv, prior), finding=finding)
    return tr, bad


KINDS = (('recip', 1), ('recip', 3), ('lin', 1), ('exp', 1))
BMODES = ('scalar', 'variable', 'mixed', 'default')
MMODES = ('scalar', 'variable', 'default')
BOXES = ((0.01, 1.0), (0.05, 2.5), (0.001, 0.3))
OCOPTS = ({}, dict(l2init=1e3), dict(l1l2tol=1e-6), dict(l1l2tol=1e-2), dict(l2init=1e9, l1l2tol=1e-5), dict(l1init=1e-3))


def _varform(layout, k):
    return ('single' if k % 2 else 'list') if len(layout) == 1 else ('tuple' if k % 3 == 0 else 'list')


@bound('12-iteration runs (tolx = tolf = 0): n in {1,2,3,5,9,20} [quick] + {40,100} [thorough] x all layouts (one array / scalars only / array+scalar+1-long array) x objectives '
       'sum c/x, sum c/x^3 (c/(x+0.1)^p when xmin = 0), -sum c x, sum c exp(-x) x bounds omitted(0,1)/scalar/per-variable/mixed (arrays and python lists; boxes [0.01,1], [0.05,2.5], [0.001,0.3]) x move omitted(0.2)/scalar/per-variable; '
       'maxvol omitted (= initial volume) or 5%..95% of the range (far targets are unreachable within the move limits in the first iterations); l1init/l2init/l1l2tol in 6 settings; '
       'objective behind a scaling module, objective not connected to one variable signal, exact zero gradients, starts with variables on xmax or uniform; every clause at every design')
def iterations(r, tier, seed):
    rng = np.random.default_rng(seed + 20)
    ns = (1, 2, 3, 5, 9, 20) if tier == 'quick' else (1, 2, 3, 4, 5, 9, 20, 40, 100)
    k = 0
    for rep in range(2 if tier == 'quick' else 6):
        for n in ns:
            for li, layout in enumerate(layouts(n)):
                for ki, (kind, p) in enumerate(KINDS):
                    for bi, bmode in enumerate(BMODES):
                        k += 1
                        mmode = MMODES[(k + bi) % 3] if bmode == 'default' else MMODES[k % 2]
                        box = (0.0, 1.0) if bmode == 'default' else BOXES[(k // 2) % 3]
                        volfrac = (None, 0.4, 0.05, 0.95, 0.6)[(k // 3) % 5]
                        spec = gen(rng, layout, kind=kind, p=p, bmode=bmode, mmode=mmode, container=('list' if k % 4 == 1 else 'array'), box=box, volfrac=volfrac, scale=(k % 3 == 0),
                                   partial=(k % 5 == 0), zeros=(2 if k % 7 == 0 else 0), start=('uniform' if k % 6 == 0 and volfrac is not None else 'random'),
                                   opts=dict(maxit=12, tolx=0.0, tolf=0.0, **OCOPTS[(k // 4) % 6]), movescale=(0.3 if k % 11 == 0 else 1.0))
                        spec['varform'] = _varform(layout, k)
                        report(r, ('it', rep, n, li, kind, p, bmode), spec)


@bound('sum c_i/x_i (also behind a scaling module) with the analytic optimum from an own bisection: n in {1,2,3,5,9,20} [quick] + {50} [thorough] x layouts x bounds scalar/per-variable/mixed x '
       'move scalar/per-variable x maxvol omitted / 20%..80%; (a) tolx = tolf = 0, maxit = range/min(move) + 10: final |x - x*| <= 2 x (bracket of the multiplier tolerance) + 1e-9; '
       '(b) default tolx = tolf = 1e-4 (both, only tolx, only tolf), maxit = 100: stops early, final |x - x*| <= 0.02 (xmax - xmin)')
def convergence(r, tier, seed):
    rng = np.random.default_rng(seed + 21)
    k = 0
    for rep in range(2 if tier == 'quick' else 8):
        for n in ((1, 2, 3, 5, 9, 20) if tier == 'quick' else (1, 2, 3, 5, 9, 20, 50)):
            for li, layout in enumerate(layouts(n)):
                for bmode in ('scalar', 'variable', 'mixed'):
                    k += 1
                    spec = gen(rng, layout, bmode=bmode, mmode=MMODES[k % 2], box=BOXES[k % 2], volfrac=(None if k % 3 == 0 else 0.2 + 0.6 * rng.random()), scale=(k % 2 == 0), container=('list' if k % 5 == 0 else 'array'))
                    nn = int(np.sum(L.sizes_of(spec)))
                    xmin, xmax, move = (L.expand(spec[q][0], spec[q][1], nn) for q in ('xmin', 'xmax', 'move'))
                    ceff = np.array(spec['obj']['c']) / (np.array(spec['scale']) if spec['scale'] else 1.0)
                    lam, tol = spec['lamstar'], 1e-4
                    X = lambda l: np.clip(np.sqrt(ceff / l), xmin, xmax)   # noqa
                    xtol = 2 * float(np.max(X(max(lam - tol, 1e-300)) - X(lam + tol))) + 1e-9
                    maxit = int(np.ceil(np.max(xmax - xmin) / np.min(move))) + 10
                    spec['opts'] = dict(maxit=maxit, tolx=0.0, tolf=0.0)
                    spec['varform'] = _varform(layout, k)
                    report(r, ('conv', rep, n, li, bmode), spec, conv=dict(xtol=xtol))
                    if k % 2 == 0:
                        s2 = dict(spec, opts=({}, dict(tolf=0.0), dict(tolx=0.0))[(k // 2) % 3])   # all defaults / only the step criterion / only the objective criterion
                        tr, _ = report(r, ('conv-default-stop', rep, n, li, bmode), s2, conv=dict(xtol=0.02 * float(np.max(xmax - xmin))))
                        r.check(tr['error'] is None and len(tr['log']) < 100, 'default stopping criteria end the run before maxit', dict(case=(rep, n, li, bmode), responses=len(tr['log'])),
                                replay_code=replay(s2) + "assert len(tr['log']) < 100, len(tr['log'])\n")


@bound('-sum c_i x_i with 1..3 negative c_i (positive gradients, which the method clips to zero: those variables go to their lower limit); n in {2,3,5,9}, all layouts, 4 bound modes, 10 iterations')
def positive_gradients(r, tier, seed):
    rng = np.random.default_rng(seed + 22)
    k = 0
    for rep in range(1 if tier == 'quick' else 5):
        for n in (2, 3, 5, 9):
            for li, layout in enumerate(layouts(n)):
                for bmode in BMODES:
                    k += 1
                    spec = gen(rng, layout, kind='lin', bmode=bmode, mmode=MMODES[k % 3] if bmode == 'default' else MMODES[k % 2], box=(0.0, 1.0) if bmode == 'default' else BOXES[k % 3],
                               volfrac=(None, 0.5)[k % 2], zeros=-(1 + k % 3), scale=(k % 2 == 0), opts=dict(maxit=10, tolx=0.0, tolf=0.0))
                    report(r, ('pos', rep, n, li, bmode), spec)


def _designs(tr):
    return [L._cat(s) for s in tr['log']] + [L._cat(tr['final'])]


@bound('n in {3,6,11}, objectives sum c/x and sum c/x^3 (behind a scaling module): (a) a minimize_oc run after 1 or 2 earlier complete runs on the same network and signals '
       '(maxvol omitted: taken from the current state); (b) the same problem run twice gives bitwise identical designs; (c) verbosity 1, 2 give bitwise the designs of verbosity 0; '
       '(d) maxit = 1, 2: exactly that many responses, the last update still written to the signals')
def histories(r, tier, seed):
    rng = np.random.default_rng(seed + 23)
    for n, (kind, p), bmode in itertools.product((3, 6, 11) if tier == 'quick' else (2, 3, 6, 11, 30), KINDS[:2], ('scalar', 'variable')):
        layout = layouts(n)[-1]
        spec = gen(rng, layout, kind=kind, p=p, bmode=bmode, mmode=MMODES[n % 2], volfrac=None, scale=True, opts=dict(maxit=8, tolx=0.0, tolf=0.0))
        for prior in (1, 2):
            report(r, ('restart', n, kind, p, bmode, prior), spec, prior=prior)
        base, _ = report(r, ('base', n, kind, p, bmode), spec)
        again = L.run(spec)
        same = lambda a, b: len(a) == len(b) and all(np.array_equal(u, v) for u, v in zip(a, b))   # noqa
        r.check(same(_designs(again), _designs(base)), 'two runs of the same problem give identical designs', dict(case=(n, kind, p, bmode)),
                replay_code=replay(spec) + "t2 = run(spec)\nassert all(np.array_equal(_cat(a), _cat(b)) for a, b in zip(tr['log'] + [tr['final']], t2['log'] + [t2['final']]))\n")
        for vb in (1, 2):
            sv = dict(spec, verbosity=vb)
            trv, _ = report(r, ('verbosity', n, kind, p, bmode, vb), sv)
            r.check(same(_designs(trv), _designs(base)), 'printing does not change the designs', dict(case=(n, kind, p, bmode), verbosity=vb),
                    replay_code=replay(sv) + "t0 = run(dict(spec, verbosity=0))\nassert all(np.array_equal(_cat(a), _cat(b)) for a, b in zip(tr['log'] + [tr['final']], t0['log'] + [t0['final']]))\n")
        for mi in (1, 2):
            sm = dict(spec, opts=dict(spec['opts'], maxit=mi))
            trm, _ = report(r, ('maxit', n, kind, p, bmode, mi), sm)
            ok = trm['error'] is None and len(trm['log']) == mi and (mi > 1 or not np.array_equal(L._cat(trm['final']), L._cat(trm['log'][-1])))
            r.check(ok, 'exactly maxit responses and the last update is written to the variable signals', dict(case=(n, kind, p, bmode), maxit=mi, responses=len(trm['log'])),
                    replay_code=replay(sm) + f"assert len(tr['log']) == {mi} and ({mi} > 1 or not np.array_equal(_cat(tr['final']), _cat(tr['log'][-1])))\n")


CHECKS = [('iterations', iterations), ('convergence', convergence), ('positive_gradients', positive_gradients), ('histories', histories)]
