"""C03 bounded stand-ins: results depend only on current inputs and seeds, never on call history.

Every case runs a finite history over {set input := design k (fresh array or in place), response, seed output j, sensitivity, reset,
caller scribbles over returned arrays} on ONE network object, then the final cycle reset / set design 0 / response / seed / sensitivity,
and compares all Signal.state / Signal.sensitivity values with a freshly constructed identical network evaluated once (constructed
before and after the history ran) and with independent dense references.  Along the way: after every reset() no signal carries a
non-zero sensitivity; sensitivity() without a seed changes nothing; source states and the caller's seed arrays are not modified.
EigenSolve additionally runs histories with PARTIALLY seeded outputs (single eigenvector columns / eigenvalues only) in which sensitivity() follows a reset() without a new
response() (core.eig_partial_case); Signal.reset with keep_alloc is run on sensitivities that hold inf / nan from an earlier round (core.primitive_case '..._nonfinite').
The machinery (nets, interpreter, comparison) lives in native/C03_core.py, whose source is embedded verbatim in every replay file.

Findings kept visible:  C04-soe-overwrites-input, C03-linsolve-rhs-shape-change (see _finding);  C03-reset-keepalloc-scalar-nonfinite  Signal.reset(keep_alloc) on a python / numpy
SCALAR sensitivity (e.g. pre-allocated as 0.0) that holds inf or nan falls back to `sensitivity *= 0` = nan: the reset leaves nan behind and every later cycle is nan."""
import contextlib
import inspect
import signal
from native import C03_core as core
from native.util import bound, REPLAY_HEAD

CORE_SRC = inspect.getsource(core)
F_SOE = 'C04-soe-overwrites-input'
F_SHAPE = 'C03-linsolve-rhs-shape-change'
F_NONFIN = 'C03-reset-keepalloc-scalar-nonfinite'


def _replay(call):
    return (REPLAY_HEAD + CORE_SRC + f"\n\nfails = {call}\nfor f in fails:\n    print(f['kind'], '|', f['what'])\n"
            "assert not fails, f'{len(fails)} contract failure(s)'\n")


@contextlib.contextmanager
def _limit(seconds=60):
    """A case that does not finish (e.g. a solver that never converges on stale data) is a failure, not a hang"""
    def handler(signum, frame):
        raise TimeoutError(f'case did not finish within {seconds} s')
    old = signal.signal(signal.SIGALRM, handler)
    signal.alarm(seconds)
    try:
        yield
    finally:
        signal.alarm(0)
        signal.signal(signal.SIGALRM, old)


def _guarded(fn, *args):
    try:
        with _limit():
            return fn(*args)
    except Exception as e:
        return [dict(kind='exception', what=f'{fn.__name__}{args!r} raised {type(e).__name__}: {str(e)[:200]}', detail=None)]


def _finding(spec, fails):
    """Known regions: (a) SystemOfEquations / StaticCondensation overwrite the state of their input matrix signal, so with a *source*
    matrix a second response() without re-setting the matrix raises; (b) LinSolve keeps the previous solution as initial guess and
    LDAWrapper indexes it with the column mask of the new right-hand side, so changing the number of right-hand sides raises."""
    kinds = {f['kind'] for f in fails}
    if spec[0] in ('soe', 'condense') and spec[-1 if spec[0] == 'condense' else 3] is True and kinds <= {'input-modified', 'exception'}:
        return F_SOE
    if spec[0] == 'linsolve' and spec[3] == 'mixed' and kinds <= {'exception'} and all('IndexError' in f['what'] for f in fails):
        return F_SHAPE
    return None


def _run(r, spec, pattern, seed, final='all'):
    fails = _guarded(core.run_case, spec, pattern, seed, final)
    r.case((spec, pattern, final))
    if fails:
        r.check(False, fails[0]['what'], dict(net=spec, history=pattern, final_seeds=final, seed=seed),
                observed=[f['kind'] + ': ' + f['what'] for f in fails[:4]], expected='no contract failure',
                replay_code=_replay(f"run_case({spec!r}, {pattern!r}, {seed}, {final!r})"), finding=_finding(spec, fails))
    return not fails


def _sweep(r, specs, tier, seed, nrand=2, finals=True):
    """all named histories with all outputs seeded; the multi-round ones also with a single seeded output / no seed at all in the
    final cycle; random protocol-respecting histories; thorough: more seeds and longer random histories"""
    seeds = [seed] if tier == 'quick' else [seed, seed + 1, seed + 2]
    for spec in specs:
        nout = len(core.make_net(spec).build()[2])
        for sd in seeds:
            for p in core.PATTERNS:
                _run(r, spec, p, sd)
            if finals:
                for p in ('loop3', 'altseed', 'noreset'):
                    for j in range(nout):
                        _run(r, spec, p, sd, ('single', j))
                    _run(r, spec, p, sd, 'none')
            for i in range(nrand if tier == 'quick' else 6 * nrand):
                _run(r, spec, ('rand', i, 14 if tier == 'quick' else 14 + 4 * (i % 5)), sd, 'all' if i % 3 else ('single', i))


@bound('Signal.reset over value kinds {vector, matrix, complex vector, scalar, DyadCarrier} x {allocated at construction or not} x '
       'keep_alloc in {default, True, False}; SignalSlice.reset over {basic, stepped, fancy, integer, 2-D} slices; Module.reset for 1-3 '
       'inputs x 1-3 outputs; Network.reset / un-seeded Network.sensitivity on chains of 1-4 counting modules nested 0-2 levels deep with '
       'a second un-seeded branch')
def reset_and_unseeded_primitives(r, tier, seed):
    cases = [('signal_reset', (k, pre, keep)) for k in ('vec', 'mat', 'cvec', 'scalar', 'dyad') for pre in (False, True) for keep in (None, True, False)
             if not (k == 'dyad' and (pre or keep))]
    cases += [('slice_reset', a) for a in ('basic', 'step', 'fancy', 'int', '2d')]
    cases += [('network_reset', (d, w)) for d in (0, 1, 2) for w in (1, 2, 4)]
    cases += [('module_reset', (i, o)) for i in (1, 2, 3) for o in (1, 2, 3)]
    for name, arg in cases:
        fails = _guarded(core.primitive_case, name, arg, seed)
        r.case((name, arg))
        r.check(not fails, fails[0]['what'] if fails else '', dict(case=name, arg=arg, seed=seed), observed=[f['what'] for f in fails[:4]],
                replay_code=_replay(f"primitive_case({name!r}, {arg!r}, {seed})"))


NONFIN_ARRAYS = ('vec', 'mat', 'cvec', 'zerod', 'czerod', 'ivec')
NONFIN_SCALARS = ('pyfloat', 'npfloat', 'pycomplex')
NONFIN_PLANS = ('poison-once', 'poison-twice-no-reset', 'poison-first')


def _nonfinite(r, seed, kinds, netkinds, finding=None):
    cases = [('signal_reset_nonfinite', (k, how, b)) for k in kinds for how in ('prealloc', 'keep') for b in (('inf', '-inf', 'nan', 'mixed') if k != 'ivec' else ('huge',))]
    cases += [('network_reset_nonfinite', (k, v)) for k in netkinds for v in NONFIN_PLANS]
    for name, arg in cases:
        fails = _guarded(core.primitive_case, name, arg, seed)
        r.case((name, arg))
        fid = finding if fails and all('must be exactly 0' in f['what'] for f in fails) else None
        r.check(not fails, fails[0]['what'] if fails else '', dict(case=name, arg=arg, seed=seed), observed=[f['what'] for f in fails[:4]], expected='exactly 0 after reset(), later rounds as a fresh network',
                replay_code=_replay(f"primitive_case({name!r}, {arg!r}, {seed})"), finding=fid)


@bound('Signal.reset with keep_alloc when the sensitivity holds NON-FINITE values left by an earlier round: array sensitivities {vector, (2,3) matrix, complex vector, 0-d real, 0-d complex; int64 vector with +-max/4 '
       'instead of inf} x {constructed with a pre-allocated sensitivity + reset(), ordinary signal + reset(keep_alloc=True)} x poison {inf, -inf, nan, mixed inf/nan/finite (complex: also in the imaginary part)}: after reset() '
       'every entry is exactly 0 (no nan), same array object and dtype, the next add_sensitivity gives exactly the new value, a second round stays clean; network x (pre-allocated sensitivity; vector, complex vector, '
       'matrix, 0-d) -> y = sqrt(x) whose back-propagation dy/(2 sqrt(x)) is inf / nan in the rounds where x has exact zeros: plans {clean, poisoned, clean, clean}, {clean, poisoned with two sensitivity() calls, clean}, '
       '{poisoned, clean, poisoned, clean}; every clean round equals a fresh network and the closed form to 1e-14, every reset leaves exact zeros in the same array')
def reset_nonfinite_keep_alloc(r, tier, seed):
    for sd in ([seed] if tier == 'quick' else range(seed, seed + 3)):
        _nonfinite(r, sd, NONFIN_ARRAYS, ('vec', 'cvec', 'mat', 'zerod'))


@bound('as reset_nonfinite_keep_alloc for SCALAR sensitivities (python float, numpy float64, python complex; pre-allocated as 0.0 or kept by reset(keep_alloc=True)) and the network x -> sqrt(x) with a python-float x '
       'whose sensitivity is pre-allocated as 0.0: Signal.reset falls back to `sensitivity *= 0` for objects without item assignment, and inf * 0 = nan * 0 = nan, so every later round is nan', finding=F_NONFIN)
def reset_nonfinite_scalar_keep_alloc(r, tier, seed):
    _nonfinite(r, seed, NONFIN_SCALARS, ('pyfloat',), F_NONFIN)


LIN_DENSE = [('linsolve', 'dense', c, rhs, lda) for c in ('spd', 'symindef', 'nonsym', 'herm', 'csym', 'cgen') for rhs in ('vec', 'blk') for lda in (True, False)] + \
            [('linsolve', 'dense', c, 'cvec', lda) for c in ('spd', 'symindef', 'nonsym') for lda in (True, False)]
LIN_SPARSE = [('linsolve', 'sparse', c, rhs, lda) for c in ('spd', 'symindef', 'nonsym', 'herm', 'csym', 'cgen') for rhs in ('vec', 'blk') for lda in (True, False)]


@bound('LinSolve on 6x6 dense matrices of the classes {SPD, symmetric indefinite, non-symmetric, Hermitian, complex symmetric, complex general} '
       '(condition < 10; designs 0,1 mod 3 have exactly decoupled dofs (dof 0 / the last two) so the set and values of diagonal dofs change along the history), right-hand sides '
       '{vector, (n,2) block, complex vector on a real matrix}, with and without LDAWrapper; 11 named histories (<= 3 rounds) + finals with a single / no '
       
       'seed + 2 [quick] / 12 [thorough] random histories of 14-30 operations; 1 [quick] / 3 [thorough] data seeds, thorough also 11x11 (dense) / 15x15 (sparse) / 6x4 mesh / 10x10, 24x24 (eigen); tolerance 1e-10 relative; '
       'independent reference numpy.linalg.solve and the adjoint formulas')
def history_linsolve_dense(r, tier, seed):
    _sweep(r, LIN_DENSE, tier, seed)
    if tier == 'thorough':      # larger systems
        _sweep(r, [s + (11,) for s in LIN_DENSE if s[4]], 'quick', seed + 10)


@bound('as history_linsolve_dense for banded (bandwidth 2) csc matrices of the same six classes, vector and block right-hand sides, with and without '
       'LDAWrapper; in-place updates write into A.data')
def history_linsolve_sparse(r, tier, seed):
    _sweep(r, LIN_SPARSE, tier, seed)
    if tier == 'thorough':
        _sweep(r, [s + (15,) for s in LIN_SPARSE if s[4]], 'quick', seed + 10)


COMPLIANCE = [('compliance', s, rhs) for s, rhs in (('auto', 'vec'), ('auto', 'blk'), ('nolda', 'vec'), ('cg-none', 'vec'), ('cg-jacobi', 'vec'), ('cg-sor', 'vec'),
                                                    ('cg-ilu', 'vec'), ('cg-mg', 'vec'), ('cg-mg', 'blk'), ('cg-jacobi', 'blk'))] + [('compliance', 'auto', 'vec', (2, 2, 2))]


@bound('x -> DensityFilter -> AssembleStiffness(bc) -> LinSolve -> u, c = u.f on a 4x2 mesh (and 2x2x2 in 3D), densities in [0.3,1]; solver in {auto '
       '(sparse LU + LDAWrapper), no LDAWrapper, CG(tol 1e-12) with no / Jacobi / SOR / ILU / geometric-multigrid preconditioner (previous solution is '
       'the initial guess)}; vector and 2-column loads; same histories as history_linsolve_dense; tolerance 1e-10 (direct), 2e-9 (CG: 1e-12 x condition number)')
def history_compliance_iterative(r, tier, seed):
    _sweep(r, COMPLIANCE, tier, seed)
    if tier == 'thorough':
        _sweep(r, [s[:3] + ((6, 4, 0),) for s in COMPLIANCE[:10]], 'quick', seed + 10)


EIG = [('eigdense', c) for c in ('sym', 'herm', 'gen', 'nonherm')] + [('eigsparse', c, s) for c, s in (('sym', None), ('sym', 0.4), ('gen', None), ('gen', 2.0))]


@bound('EigenSolve: dense 6x6 {symmetric, Hermitian, generalised (B SPD), non-Hermitian with real spectrum}; sparse tridiagonal 12x12 with nmodes=3, '
       '{standard, generalised} x {sigma = 0, sigma != 0} (cached shift-invert operator and per-mode adjoint solvers); eigenvalue gaps >= 1, eigenvectors '
       'with clearly non-zero mean (sign convention well defined); seeds on eigenvalues and eigenvectors; same histories; tolerance 1e-10 (dense) / 1e-9 (ARPACK, random start vector); '
       'eigenvalues against numpy.linalg.eigvalsh')
def history_eigensolve(r, tier, seed):
    _sweep(r, EIG, tier, seed)
    if tier == 'thorough':
        _sweep(r, [s + (10,) for s in EIG[:4]] + [s + (24,) for s in EIG[4:]], 'quick', seed + 10)


def _run_partial(r, spec, variant, seed):
    fails = _guarded(core.eig_partial_case, spec, variant, seed)
    r.case((spec, variant, seed))
    if fails:
        # the sporadic RuntimeError of the sparse eigenvector adjoint (LU of the singular A - lambda B) is a known defect of the fresh evaluation, not a history effect
        fid = 'C01-eigensolve-sparse-singular-factor' if all(f['kind'] == 'exception' and 'exactly singular' in f['what'] for f in fails) else None
        r.check(False, fails[0]['what'], dict(net=spec, history=variant, seed=seed), observed=[f['kind'] + ': ' + f['what'] for f in fails[:4]], expected='no contract failure',
                replay_code=_replay(f"eig_partial_case({spec!r}, {variant!r}, {seed})"), finding=fid)


@bound('EigenSolve with PARTIALLY seeded outputs, the 8 nets of history_eigensolve (dense 6x6 symmetric / Hermitian / generalised / non-Hermitian, all 6 modes; sparse tridiagonal 12x12, nmodes=3, standard / generalised, '
       'sigma = 0 / != 0): 3-5 rounds with a NEW matrix each (fresh objects or updated in place), ONE response() per round followed by 1-3 cycles {seed, sensitivity(), compare, reset()} whose seeds are exactly zero '
       'outside a subset: all columns (first round: every per-mode cache filled) -> single columns 0, 1, 2 in turn -> other single columns / pairs -> eigenvalues only then one column -> one eigenvalue + one column; from the second cycle of a '
       'round on, sensitivity() follows a reset() WITHOUT a new response() and seeds a column last seeded in an earlier round for an earlier matrix; 4 named histories + 2 random ones (dense nets in the quick tier: 2 + 1) [quick] / 4 + 8 [thorough], 1 / 3 data seeds, thorough also 10x10 / 24x24; '
       'after every sensitivity(): all states and sensitivities equal a freshly constructed network on the current matrices with the same seed (1e-10 dense / 1e-9 ARPACK); real symmetric pencils also against the independent '
       'adjoint sum_j (q_j.w_i)/(lam_i-lam_j) q_j q_i^T from a full numpy.linalg.eigh decomposition (1e-8, gaps >= 1); sources and seed arrays unmodified; nothing left after every reset()')
def history_eigensolve_partial_seeds(r, tier, seed):
    specs = EIG if tier == 'quick' else EIG + [s + (10,) for s in EIG[:4]] + [s + (24,) for s in EIG[4:]]
    for sd in ([seed] if tier == 'quick' else [seed, seed + 1, seed + 2]):
        for spec in specs:
            variants = core.EIG_PARTIAL + [('rand', i) for i in range(2 if tier == 'quick' else 8)]
            if tier == 'quick' and spec[0] == 'eigdense':      # the dense path keeps no per-mode cache: two named histories and one random one in the quick tier
                variants = core.EIG_PARTIAL[:2] + [('rand', 0)]
            for variant in variants:
                _run_partial(r, spec, variant, sd)


OVERHANG = [('overhang', (4, 3, 0), '+y', None, True), ('overhang', (4, 3, 0), 'y-', None, True), ('overhang', (3, 4, 0), 'x', None, False),
            ('overhang', (3, 4, 0), [-1, 0], None, True), ('overhang', (3, 3, 0), [0, 1, 0], 3, False), ('overhang', (4, 1, 0), 'y', None, False),
            ('overhang', (1, 3, 0), 'y', None, False), ('overhang', (3, 2, 3), 'z-', 9, True), ('overhang', (2, 3, 3), '+z', 5, False),
            ('overhang', (3, 3, 2), [0, -1, 0], 5, True), ('overhang', (2, 3, 2), 'x', 9, False), ('overhang', (3, 2, 2), '-x', None, True),
            ('overhang', (3, 3, 0), '-y', None, False, False), ('overhang', (2, 2, 3), 'z', 9, True, False)]
ASSEMBLE = [('assemble', (3, 2, 0)), ('assemble', (1, 3, 0)), ('assemble', (2, 2, 1))]


@bound('x -> [FilterConv(radius 1.5; boundary modes constant 0 / edge / symmetric / wrap)] -> OverhangFilter -> y, g = y.w on 2D meshes up to 4x3 and 3D up '
       'to 3x2x3, all six print directions (string and vector form), nsampling 3 / 5 / 9, one-layer and one-column meshes, densities with exact 0 and 1, with and without a module after the filter; '
       'x -> DensityFilter -> {AssembleMass(bc unsorted, add_constant) -> v.M.v (DyadCarrier seed), AssemblePoisson(bc) -> dense copy -> <P,W> (dense seed)} in '
       'nested networks on 3x2, 1x3, 2x2x1 meshes with one exactly-zero density; same histories; tolerance 1e-10; overhang forward values against an '
       'element-by-element re-implementation')
def history_overhang_filters_assembly(r, tier, seed):
    _sweep(r, OVERHANG, tier, seed, nrand=1, finals=False)
    _sweep(r, ASSEMBLE, tier, seed)


SOE = [('soe', m, rhs, False) for m in ('prescribed', 'free') for rhs in ('vec', 'blk')] + [('condense', False)]
SOE_SRC = [('soe', 'prescribed', 'vec', True), ('soe', 'free', 'blk', True), ('condense', True)]


@bound('x -> AssembleStiffness -> SystemOfEquations(K, b_f, x_p) -> x, b with unsorted prescribed / sorted free index arrays, vector and 2-column data, '
       'and x -> AssembleStiffness(bc) -> StaticCondensation(unsorted main, free) -> reduced matrix, 3x2 mesh (symmetric matrices); same histories; '
       'tolerance 1e-10; states against dense partitioned solves / Schur complement')
def history_soe_condensation(r, tier, seed):
    _sweep(r, SOE, tier, seed)


@bound('SystemOfEquations / StaticCondensation fed by a *source* matrix signal (no producing module): same histories; every failure here is the known '
       'overwrite of the input matrix state (second response() without re-setting the matrix raises; source state != what the caller set)', finding=None)
def history_soe_source_matrix(r, tier, seed):
    _run(r, SOE_SRC[0], 'double', seed)      # the history-dependence witness first: response() twice on unchanged inputs
    _sweep(r, SOE_SRC, tier, seed, nrand=1, finals=False)


AGG = [('aggregate', k, s) for k in ('pnorm', 'ks', 'soft') for s in (True, False)] + [('slices', False), ('slices', True)]


@bound('x (9 distinct values) -> {PNorm, KSFunction, SoftMinMax}(6, active set dropping the lowest 25 %, with / without undamped AggScaling) -> Scaling(maxval): '
       'no documented memory, must be history independent; z[0:4]*z[4:8 or fancy index] -> w (pre-allocated sensitivity) -> LinSolve -> Split -> two '
       'SignalSlice outputs of one base signal, source with pre-allocated sensitivity; same histories; tolerance 1e-11 / 1e-10; closed-form references')
def history_aggregation_slices(r, tier, seed):
    _sweep(r, AGG, tier, seed)


@bound('documented memories: Scaling(scaling=50) over 5 calls with resets: y = s*x/|x_first| and dx = s*dy/|x_first| always; KSFunction with AggScaling(max, '
       'damping in {0.3, 0.9}) over 6 rounds with 1-2 responses each: s_k = d*s_(k-1) + (1-d)*true/approx counted over every response() call')
def documented_memories(r, tier, seed):
    for sd in ([seed] if tier == 'quick' else range(seed, seed + 5)):
        for kind, d in (('scaling', 0.0), ('damped', 0.3), ('damped', 0.9)):
            fails = _guarded(core.memory_case, kind, sd, d)
            r.case((kind, d, sd))
            r.check(not fails, fails[0]['what'] if fails else '', dict(kind=kind, damping=d, seed=sd), observed=[f['what'] for f in fails[:4]],
                    replay_code=_replay(f"memory_case({kind!r}, {sd}, {d})"))


@bound('LinSolve (dense SPD / non-symmetric, sparse non-symmetric; with LDAWrapper) where the number of right-hand sides changes along the history '
       '(design k has shape (n,), (n,2), (n,3) for k mod 3 = 0, 1, 2): same histories; failures are the known IndexError of the stale initial guess')
def history_linsolve_rhs_shape_change(r, tier, seed):
    _sweep(r, [('linsolve', 'dense', 'spd', 'mixed', True), ('linsolve', 'dense', 'nonsym', 'mixed', True), ('linsolve', 'sparse', 'nonsym', 'mixed', True),
               ('linsolve', 'dense', 'spd', 'mixed', False)], tier, seed, nrand=1, finals=False)


CHECKS = [('reset_and_unseeded_primitives', reset_and_unseeded_primitives), ('reset_nonfinite_keep_alloc', reset_nonfinite_keep_alloc), ('history_linsolve_dense', history_linsolve_dense),
          ('history_linsolve_sparse', history_linsolve_sparse), ('history_compliance_iterative', history_compliance_iterative),
          ('history_eigensolve', history_eigensolve), ('history_eigensolve_partial_seeds', history_eigensolve_partial_seeds), ('history_overhang_filters_assembly', history_overhang_filters_assembly),
          ('history_soe_condensation', history_soe_condensation), ('history_aggregation_slices', history_aggregation_slices),
          ('documented_memories', documented_memories), ('history_soe_source_matrix', history_soe_source_matrix),
          ('history_linsolve_rhs_shape_change', history_linsolve_rhs_shape_change), ('reset_nonfinite_scalar_keep_alloc', reset_nonfinite_scalar_keep_alloc)]
