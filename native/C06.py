"""C06 bounded stand-ins: LDAWrapper is transparent over histories of update()/solve().

Reference model (independent of the code under test): the dense copy of the current matrix, numpy's dense solve, a list of
the right-hand sides solved since the last update() and a least-squares span test.  Inner solves are counted by a counting
proxy around the wrapped solver.  Clauses checked on every solve() of every history:
  (a) the call does not raise when the wrapped solver alone accepts the request,
  (b) shape / dtype of the answer, finite values, operands (rhs, x0, matrix) unmodified,
  (c) residual of the requested system of the CURRENT matrix <= wrapper tolerance (per column; zero rhs -> zero answer),
  (d) a column lying in the span of columns already solved for the same system since the last update() is not passed to the
      inner solver; the first non-trivial solve after update() must reach the inner solver,
  (e) update() hands the matrix to the inner solver once and leaves both databases empty.
After every call the caller's arrays (rhs, x0, returned x) are overwritten, as a caller is free to do.
"""
import itertools
import numpy as np
import scipy.sparse as sps
import pymoto as pym
from pymoto.solvers import LDAWrapper
from pymoto.solvers.solvers import get_diagonal_indices
from native.util import bound, REPLAY_HEAD

F_X0 = 'C06-x0-database'
F_RC = 'C06-real-after-complex'
F_STALE = 'C06-stale-symmetry-flags'
F_DEP = 'C06-dependent-block-garbage'

# helpers shared verbatim by the harness and by the generated replay programs (none of this is code under test)
HELPERS = '''
import warnings
warnings.filterwarnings('ignore')
import scipy.sparse as sps
from pymoto.solvers import LinearSolver


def dense(A):
    return A.toarray() if sps.issparse(A) else np.asarray(A)


def op(A, t):
    A = dense(A)
    return A if t == 'N' else (A.T if t == 'T' else A.conj().T)


def mk(fmt, Ad):
    """the matrix object handed to the code under test"""
    if fmt == 'dense':
        return Ad.copy()
    if fmt == 'csr0':  # csr storage with every zero stored explicitly
        n, m = Ad.shape
        I, J = np.meshgrid(np.arange(n), np.arange(m), indexing='ij')
        return sps.csr_matrix((Ad.ravel().copy(), (I.ravel(), J.ravel())), shape=Ad.shape)
    return getattr(sps, fmt + '_matrix')(Ad)


class Ref(LinearSolver):
    """independent inner solver: numpy dense solve of the requested system"""
    def update(self, A):
        self.Ad = dense(A).copy()
        return self

    def solve(self, rhs, x0=None, trans='N'):
        return np.linalg.solve(op(self.Ad, trans), rhs)


class Count(LinearSolver):
    """counting proxy: number of columns of every solve() reaching the wrapped solver, matrices of every update()"""
    def __init__(self, inner):
        self.inner = inner
        self.cols = []
        self.updates = []
        if hasattr(inner, 'tol'):
            self.tol = inner.tol

    def update(self, A):
        self.updates.append(A)
        self.inner.update(A)
        return self

    def solve(self, rhs, x0=None, trans='N'):
        self.cols.append(1 if rhs.ndim == 1 else rhs.shape[1])
        return self.inner.solve(rhs, x0=x0, trans=trans)
'''
_ns = {'np': np}
exec(HELPERS, _ns)
dense, op, mk, Ref, Count = (_ns[k] for k in ('dense', 'op', 'mk', 'Ref', 'Count'))

INNER = {'ref': 'Ref()', 'lu': 'pym.solvers.SolverDenseLU()', 'qr': 'pym.solvers.SolverDenseQR()',
         'ldl': 'pym.solvers.SolverDenseLDL()', 'chol': 'pym.solvers.SolverDenseCholesky()',
         'splu': 'pym.solvers.SolverSparseLU()', 'diag': 'pym.solvers.SolverDiagonal()',
         'auto': 'pym.solvers.auto_determine_solver(A[0])',
         'cg': 'pym.solvers.CG(tol=1e-11, maxit=300)', 'cg_jac': 'pym.solvers.CG(preconditioner=pym.solvers.DampedJacobi(w=0.8), tol=1e-11, maxit=300)',
         'cg_sor': 'pym.solvers.CG(preconditioner=pym.solvers.SOR(w=1.2), tol=1e-11, maxit=300)',
         'cg_ilu': 'pym.solvers.CG(preconditioner=pym.solvers.ILU(), tol=1e-11, maxit=300)'}


_CODE = {k: compile(v, k, 'eval') for k, v in INNER.items()}


def make_inner(name, A):
    return eval(_CODE[name], {'pym': pym, 'Ref': Ref, 'A': A})


def arr(a):
    if a is None:
        return 'None'
    return f"np.array({np.asarray(a).tolist()!r}, dtype='{np.asarray(a).dtype}')"


def is_sym(Ad):
    return bool(np.array_equal(Ad, Ad.T))


def is_herm(Ad):
    return bool(np.array_equal(Ad, Ad.conj().T))


# ------------------------------------------------------------------------------------------------ matrix generation
CLASSES = ('rg', 'rs', 'cg', 'ch', 'cs')   # real general / real symmetric / complex general / Hermitian / complex symmetric


def gen_matrix(rng, n, off, dmask, cls):
    """matrix of class `cls` with exactly the off-diagonal pattern `off` (bool n x n) and diagonal entries where dmask;
    strictly diagonally dominant where the diagonal is present. Returns None if cond > 100 (e.g. structurally singular)."""
    cplx = cls[0] == 'c'

    def val(lo, hi, real=False):
        m = rng.uniform(lo, hi)
        if cplx and not real:
            return m * np.exp(2j * np.pi * rng.uniform(0.03, 0.97))
        return m * rng.choice([-1.0, 1.0])

    for attempt in range(4):
        A = np.zeros((n, n), dtype=complex if cplx else float)
        for i in range(n):
            for j in range(n):
                if i == j or not off[i, j]:
                    continue
                if cls in ('rg', 'cg'):
                    A[i, j] = val(0.5, 1.0)
                elif i < j:
                    A[i, j] = val(0.5, 1.0)
                    A[j, i] = np.conj(A[i, j]) if cls == 'ch' else A[i, j]
        for i in range(n):
            if dmask[i]:
                A[i, i] = val(n - 0.5, n + 0.5, real=(cls == 'ch'))
        if np.linalg.matrix_rank(A) == n and np.linalg.cond(A) <= 100:
            return A
    return None


def off_patterns(n, symmetric):
    pos = [(i, j) for i in range(n) for j in range(n) if i != j]
    if symmetric:
        up = [(i, j) for (i, j) in pos if i < j]
        for bits in itertools.product((0, 1), repeat=len(up)):
            P = np.zeros((n, n), dtype=bool)
            for (i, j), b in zip(up, bits):
                P[i, j] = P[j, i] = bool(b)
            yield P
    else:
        for bits in itertools.product((0, 1), repeat=len(pos)):
            P = np.zeros((n, n), dtype=bool)
            for (i, j), b in zip(pos, bits):
                P[i, j] = bool(b)
            yield P


def diag_masks(n):
    yield (True,) * n
    if n >= 2:
        for i in range(n):
            yield tuple(k != i for k in range(n))
        yield (False,) * n


def pkey(off, dmask):
    return ''.join('1' if v else '0' for v in off.ravel()) + '/' + ''.join('1' if v else '0' for v in dmask)


# ------------------------------------------------------------------------------------------------ history engine
class Hist:
    """One LDAWrapper object driven through a history; every step is checked against the reference model."""
    seen_findings = set()

    def __init__(self, r, check, key, mats, inner='ref', tol=None, flags=(None, None), seed=0):
        self.r, self.check_name, self.key, self.mats = r, check, key, mats
        self.rng = np.random.default_rng(seed)
        self.inner_name = inner
        self.A = [mk(m['fmt'], m['Ad']) for m in mats]
        self.count = Count(make_inner(inner, self.A))
        self.tol = 1e-7 if tol is None else tol
        kw = {} if tol is None else {'tol': tol}
        self.flags = flags
        self.w = LDAWrapper(self.count, symmetric=flags[0], hermitian=flags[1], **kw)
        self.ops = []
        self.cur = None
        self.first_flags = None
        self.solved = []      # (trans, column, column is real) solved since the last update (exactly constructed ones)
        self.allcols = []     # every non-zero column submitted since the last update
        self.had_complex = False
        self.inner_used = False
        self.polluted = False
        self.dead = False
        self.nsolves = 0

    # -- bookkeeping ------------------------------------------------------------------------------------------------
    def fail(self, what, inputs, observed=None, expected=None, finding=None, final=None):
        if finding is not None:
            k = (self.check_name, finding, what[:24])
            if k in Hist.seen_findings:   # one witness per known finding, violated clause and check (only 5 failures per check are kept)
                return
            Hist.seen_findings.add(k)
        self.r.fail(what, dict(history=self.key, **inputs), observed, expected, replay_code=self.render(final), finding=finding)

    def render(self, final):
        L = [REPLAY_HEAD, HELPERS]
        L.append(f"Ad = [{', '.join(arr(m['Ad']) for m in self.mats)}]")
        L.append(f"A = [mk(f, a) for f, a in zip({[m['fmt'] for m in self.mats]!r}, Ad)]")
        L.append(f"inner = Count({INNER[self.inner_name]})")
        tolkw = '' if self.tol == 1e-7 else f", tol={self.tol!r}"
        L.append(f"w = pym.solvers.LDAWrapper(inner, symmetric={self.flags[0]!r}, hermitian={self.flags[1]!r}{tolkw})")
        L.append("cur = None")
        for o in self.ops[:-1]:
            if o[0] == 'u':
                L.append(f"w.update(A[{o[1]}]); cur = {o[1]}")
            else:
                _, b, t, x0 = o
                L.append(f"b = {arr(b)}; x0 = {arr(x0)}\ntry:\n    x = w.solve(b, x0=x0, trans='{t}'); b[...] = 9.75; x[...] = -4.5\n"
                         f"    if x0 is not None: x0[...] = 3.25\nexcept Exception as e:\n    print('an earlier step raised', repr(e))")
        o = self.ops[-1]
        if o[0] == 'u':
            L.append(f"k0 = len(inner.updates)\nw.update(A[{o[1]}]); cur = {o[1]}\n"
                     "assert len(inner.updates) == k0 + 1 and np.array_equal(dense(inner.updates[-1]), Ad[cur]), 'inner update'\n"
                     "assert not (w.x_stored or w.b_stored or w.xadj_stored or w.badj_stored), 'databases not empty after update()'\n")
        else:
            _, b, t, x0 = o
            f = final or {}
            L.append(f"b = {arr(b)}; x0 = {arr(x0)}; b0 = b.copy(); x00 = None if x0 is None else x0.copy(); k0 = len(inner.cols)\n"
                     f"x = w.solve(b, x0=x0, trans='{t}')\n"
                     "assert np.array_equal(b, b0) and (x0 is None or np.array_equal(x0, x00)), 'operand modified'\n"
                     "assert x.shape == b.shape and x.dtype == np.result_type(Ad[cur], b), (x.shape, x.dtype)\n"
                     f"M = op(Ad[cur], '{t}'); n = M.shape[0]\n"
                     "nb = np.linalg.norm(b0.reshape(n, -1), axis=0); res = np.linalg.norm((M @ x - b0).reshape(n, -1), axis=0)\n"
                     "print('residual norms', res, 'rhs norms', nb, 'columns passed to the inner solver', inner.cols[k0:])\n"
                     f"assert np.all(np.isfinite(x)) and np.all(res <= {self.tol!r} * nb * (1 + 1e-6) + 1e-13 * nb), 'residual above the wrapper tolerance'\n"
                     f"assert sum(inner.cols[k0:]) <= {f.get('allowed', 10 ** 6)}, 'inner solver called for a right-hand side in the span of solved ones'\n"
                     f"assert sum(inner.cols[k0:]) >= {f.get('required', 0)}, 'answered from storage although nothing can be stored for this matrix'\n")
        L.append("for a, d in zip(A, Ad):\n    assert np.array_equal(dense(a), d), 'matrix modified'\n")
        return '\n'.join(L)

    # -- steps ------------------------------------------------------------------------------------------------------
    def update(self, i):
        if self.dead:
            return
        self.ops.append(('u', i))
        k0 = len(self.count.updates)
        try:
            self.w.update(self.A[i])
        except Exception as e:
            self.fail('update() raises', dict(step=len(self.ops)), repr(e))
            self.dead = True
            return
        self.cur = i
        self.Ad = self.mats[i]['Ad']
        self.n = self.Ad.shape[0]
        self.solved = []
        self.allcols = []
        self.had_complex = False
        self.inner_used = False
        self.polluted = False
        self.cur_flags = (is_sym(self.Ad), is_herm(self.Ad))
        if self.first_flags is None:
            self.first_flags = self.cur_flags
        nz = self.Ad != 0
        np.fill_diagonal(nz, False)
        self.coupled = nz.any(axis=0) | nz.any(axis=1)
        self.r.case(('u', self.key, len(self.ops)))
        ok = len(self.count.updates) == k0 + 1 and np.array_equal(dense(self.count.updates[-1]), self.Ad)
        if not ok:
            self.fail('update() hands the matrix to the wrapped solver exactly once', dict(step=len(self.ops)))
        w = self.w
        if w.x_stored or w.b_stored or w.xadj_stored or w.badj_stored:
            self.fail('update() leaves both databases empty', dict(step=len(self.ops)), [len(w.x_stored), len(w.xadj_stored)], [0, 0])

    def compat(self, t_old, old_real, t_new, new_real):
        """do two requests concern the same system, so that solutions may be shared? Follows the wrapper's documented table with the
        stated flags (or, when auto-detected, the true class of the current matrix)"""
        if t_old == t_new:
            return True
        sym = self.cur_flags[0] if self.flags[0] is None else self.flags[0]
        herm = self.cur_flags[1] if self.flags[1] is None else self.flags[1]
        pair = {t_old, t_new}
        if sym and pair == {'N', 'T'}:
            return True
        if herm and not sym and pair == {'N', 'H'}:
            return True
        if old_real and new_real and np.isrealobj(self.Ad) and (pair == {'T', 'H'} or sym or herm):
            return True
        return False

    def basis(self, trans, new_real):
        return [c for (t, c, re) in self.solved if self.compat(t, re, trans, new_real)]

    def column(self, trans, kind, cplx, prev):
        rng, n = self.rng, self.n

        def coef():
            a = rng.uniform(0.5, 2.0) * rng.choice([-1.0, 1.0])
            return a * np.exp(1j * rng.uniform(0.3, 2.8)) if cplx else a

        def new():
            v = rng.uniform(-1, 1, n)
            return v + 1j * rng.uniform(-1, 1, n) if cplx else v

        B = self.basis(trans, not cplx)
        if kind == 'zero':
            return np.zeros(n, dtype=complex if cplx else float)
        if kind == 'dup' and prev is not None:
            return coef() * prev
        if kind == 'diag' and not self.coupled.all():
            v = new()
            v[self.coupled] = 0
            return v
        if kind in ('rep', 'scale', 'comb', 'near', 'far') and B:
            if kind == 'rep':
                return B[rng.integers(len(B))].copy()
            if kind == 'scale':
                return coef() * B[rng.integers(len(B))]
            v = sum(coef() * c for c in B[-3:])
            if kind in ('near', 'far'):     # relative distance to the span: at most 0.2 x tolerance / typically 30 x tolerance
                u = new()
                v = v / np.linalg.norm(v) + (0.2 if kind == 'near' else 30.0) * self.tol * u / np.linalg.norm(u)
            return v
        return new()

    @staticmethod
    def independent(col, others):
        nc = np.linalg.norm(col)
        if nc == 0:
            return False
        Bm = np.stack(others, axis=1).astype(complex)
        nrm = np.linalg.norm(Bm, axis=0)
        Bm = Bm[:, nrm > 0] / nrm[nrm > 0]
        if Bm.shape[1] == 0:
            return True
        c, *_ = np.linalg.lstsq(Bm, col, rcond=1e-9)
        return np.linalg.norm(Bm @ c - col) / nc > 1e-4

    def in_span(self, trans, col, extra=()):
        """True / False / None (undecided) : col lies in the span of the columns solved for the same system (+ extra columns)"""
        nc = np.linalg.norm(col)
        if nc == 0:
            return True
        B = self.basis(trans, np.isrealobj(col) or not np.any(col.imag)) + list(extra)
        if not B:
            return False
        Bm = np.stack(B, axis=1)
        Bm = Bm / np.linalg.norm(Bm, axis=0)
        c, *_ = np.linalg.lstsq(Bm, col, rcond=1e-9)
        rel = np.linalg.norm(Bm @ c - col) / nc
        return True if rel < max(1e-11, 0.3 * self.tol) else (False if rel > max(1e-4, 3 * self.tol) else None)

    def solve(self, trans, kind='new', shape='v', cplx=False, x0=None, note=None):
        """kind: one of new/rep/scale/comb/zero/near/diag/dup, or a tuple of them (block right-hand side, one per column);
        shape 'v' -> (n,), 'c' -> (n,1); x0: None | 'zero' | 'rand' | 'exact'"""
        if self.dead:
            return None
        n = self.n
        kinds = kind if isinstance(kind, tuple) else (kind,)
        cols, prev, exact = [], None, []
        for k in kinds:      # exact[j]: column is part of the exact span model (not constructed at a tolerance-sized distance from the span)
            exact.append(k not in ('near', 'far') and not (k == 'dup' and exact and not exact[-1]))
            prev = self.column(trans, k, cplx, prev)
            cols.append(prev)
        bm = np.stack(cols, axis=1)
        if cplx and not np.iscomplexobj(bm):
            bm = bm.astype(complex)
        b = bm[:, 0].copy() if (shape == 'v' and len(kinds) == 1) else bm.copy()
        M = op(self.Ad, trans)
        if x0 is None:
            x0v = None
        elif x0 == 'zero':
            x0v = np.zeros(b.shape, dtype=np.result_type(self.Ad, b))
        elif x0 == 'exact':
            x0v = np.linalg.solve(M, b)
        else:
            x0v = self.rng.uniform(-1, 1, b.shape).astype(np.result_type(self.Ad, b))
        b_own, x0_own = b.copy(), None if x0v is None else x0v.copy()
        self.ops.append(('s', b_own, trans, x0_own))
        self.nsolves += 1
        self.r.case(('s', self.key, len(self.ops)))
        info = dict(step=len(self.ops), trans=trans, kind=kind, shape=list(b.shape), complex_rhs=bool(np.iscomplexobj(b)), x0=x0)

        span = [self.in_span(trans, bm[:, j]) for j in range(bm.shape[1])]
        exact_model = True
        allowed = sum(1 for s in span if s is not True) if self.tol >= 1e-9 else 10 ** 6
        first = len(self.solved) == 0 and not self.inner_used
        required = sum(1 for j in range(bm.shape[1]) if np.any(bm[self.coupled, j] != 0)) if first else 0
        final = dict(allowed=allowed, required=required)

        # regions of the known defects (used for tagging only; every case is still evaluated)
        auto = self.flags == (None, None)
        stale = auto and self.first_flags != self.cur_flags and trans != 'N'
        reg_x0 = x0v is not None and self.inner_used
        reg_rc = np.isrealobj(self.Ad) and np.isrealobj(b) and self.had_complex

        k0 = len(self.count.cols)
        try:
            x = self.w.solve(b, x0=x0v, trans=trans)
        except Exception as e:
            try:   # does the wrapped solver alone accept the request?
                s = make_inner(self.inner_name, self.A)
                s.update(mk(self.mats[self.cur]['fmt'], self.Ad))
                s.solve(b_own.copy(), x0=None if x0_own is None else x0_own.copy(), trans=trans)
                alone = True
            except Exception:
                alone = False
            fid = None
            if reg_x0 and isinstance(e, ValueError):
                fid = F_X0
            elif reg_rc and 'cast' in str(e).lower():
                fid = F_RC
            elif stale:
                fid = F_STALE
            elif self.polluted:
                fid = F_DEP
            self.fail('solve() raises although the wrapped solver alone (and a fresh wrapper) accepts the request' if alone
                      else 'solve() raises (the wrapped solver alone rejects the request as well)', info, repr(e)[:300], 'no exception', finding=fid, final=final)
            self.dead = True
            return None

        passed = sum(self.count.cols[k0:])
        if passed:
            self.inner_used = True
        was_polluted = self.polluted
        if passed >= 2:
            # region of F_DEP (from here to the next update): columns handed to the inner solver together that are linearly dependent on the coupled dofs,
            # given everything solved before (conservatively: in any mode, and conjugates)
            S = [c[self.coupled] for c in self.allcols]
            S = S + [c.conj() for c in S]
            for j in range(bm.shape[1]):
                if span[j] is not True:
                    c = bm[self.coupled, j]
                    if S and not self.independent(c, S):
                        self.polluted = True
                    S.append(c)
        fid = F_STALE if stale else (F_DEP if was_polluted else None)
        ok = isinstance(x, np.ndarray) and x.shape == b.shape and x.dtype == np.result_type(self.Ad, b) and bool(np.all(np.isfinite(x)))
        if not ok:
            self.fail('answer has the shape of the rhs, dtype result_type(A, rhs), finite values', info, [getattr(x, 'shape', None), str(getattr(x, 'dtype', None))],
                      [b.shape, str(np.result_type(self.Ad, b))], finding=fid, final=final)
            self.dead = True
            return None
        if not (np.array_equal(b, b_own) and (x0v is None or np.array_equal(x0v, x0_own))):
            self.fail('solve() does not modify rhs / x0', info, final=final)
        nb = np.linalg.norm(bm, axis=0)
        res = np.linalg.norm((M @ x).reshape(n, -1) - bm, axis=0)
        if not np.all(res <= self.tol * nb * (1 + 1e-6) + 1e-13 * nb):
            self.fail('returned x solves the requested system of the current matrix to the wrapper tolerance', info, dict(residual=res, rhs_norm=nb), f'<= {self.tol} * |b|',
                      finding=fid, final=final)
            self.dead = bool(fid)
        if passed > allowed:
            self.fail('a right-hand side in the span of right-hand sides already solved for this system is answered without the inner solver', info,
                      dict(columns_passed=self.count.cols[k0:], in_span=span), f'<= {allowed} columns', finding=fid, final=final)
        if passed < required:
            self.fail('first non-trivial solve after update() must reach the inner solver (nothing may be stored)', info, dict(columns_passed=self.count.cols[k0:]),
                      f'>= {required} columns', finding=fid, final=final)
        self.allcols += [bm[:, j].copy() for j in range(bm.shape[1]) if nb[j] > 0]
        # columns outside the modelled span that were answered from storage (within the tolerance, e.g. by the conjugated / decoupled structure or
        # by chance at a loose tolerance) are not exact solutions: they do not enter the exact span model
        all_passed = passed >= sum(1 for sp in span if sp is not True)
        if exact_model:
            for j in range(bm.shape[1]):
                if nb[j] > 0 and exact[j] and (span[j] is True or all_passed):
                    self.solved.append((trans, bm[:, j].copy(), bool(np.isrealobj(bm) or not np.any(bm[:, j].imag))))
        if np.iscomplexobj(b) and passed:
            self.had_complex = True
        # the caller re-uses its arrays
        b[...] = 9.75
        x[...] = -4.5
        if x0v is not None:
            x0v[...] = 3.25
        return x

    def finish(self):
        for a, m in zip(self.A, self.mats):
            if not np.array_equal(dense(a), m['Ad']):
                self.fail('the matrix handed to update() is not modified', dict(fmt=m['fmt']))
                break


# ------------------------------------------------------------------------------------------------ templates
def t_modes(h, cplx, order):
    """zero rhs and a block on the empty database; every mode: new vector, repeat, new (n,1), combination; scaled; rhs on decoupled dofs; block with one new
    column; finally a block with duplicate / dependent / zero columns and two more solves (from there on: region of F_DEP)"""
    h.solve(order[0], 'zero', 'v', cplx)
    h.solve(order[1], ('new', 'new'), cplx=cplx)
    for t in order:
        h.solve(t, 'new', 'v', cplx)
        h.solve(t, 'rep', 'v', cplx)
        h.solve(t, 'new', 'c', cplx)
        h.solve(t, 'comb', 'c', cplx)
    h.solve(order[2], 'scale', 'v', cplx)
    h.solve(order[0], 'diag', 'v', cplx)
    h.solve(order[1], 'near', 'v', cplx)
    h.solve(order[2], 'far', 'c', cplx)
    h.solve(order[1], ('comb', 'new', 'zero'), cplx=cplx)
    h.solve(order[0], ('new', 'dup', 'comb', 'zero'), cplx=cplx)
    h.solve(order[0], 'new', 'v', cplx)
    h.solve(order[2], 'comb', 'v', cplx)


def t_random(h, steps, allow_complex, n_mats=1, with_x0=False):
    rng = h.rng
    kinds = ['new', 'new', 'rep', 'scale', 'comb', 'zero', 'diag', 'near', 'far']
    for _ in range(steps):
        if n_mats > 1 and rng.random() < 0.2:
            h.update(int(rng.integers(n_mats)))
            continue
        t = 'NTH'[rng.integers(3)]
        cplx = bool(allow_complex and rng.random() < 0.5)
        if np.isrealobj(h.Ad) and h.had_complex and not cplx:
            cplx = True     # real rhs after a complex one: covered by the dedicated check (known defect region)
        sh = rng.integers(4)
        if sh == 3:
            kind = tuple(kinds[rng.integers(len(kinds))] if rng.random() < 0.7 else 'dup' for _ in range(int(rng.integers(2, 4))))
        else:
            kind = kinds[rng.integers(len(kinds))]
        x0 = None
        if with_x0 and not h.inner_used and rng.random() < 0.5:
            x0 = ['zero', 'rand', 'exact'][rng.integers(3)]
        h.solve(t, kind, 'vc'[sh % 2], cplx, x0=x0)


def matrices_all_patterns(tier, seed):
    """every off-diagonal pattern for n<=3 (n=4: all [thorough] / a sample [quick]) x diagonal masks x classes"""
    rng = np.random.default_rng(seed + 100)
    out = []
    for n in (1, 2, 3):
        for cls in CLASSES:
            for off in off_patterns(n, cls in ('rs', 'ch', 'cs')):
                for dm in diag_masks(n):
                    A = gen_matrix(rng, n, off, dm, cls)
                    if A is not None:
                        out.append((n, cls, pkey(off, dm), A))
    pats4 = list(off_patterns(4, False))
    if tier == 'quick':
        pats4 = [pats4[i] for i in rng.choice(len(pats4), 40, replace=False)]
    for off in pats4:
        cls = CLASSES[int(rng.integers(0, 5))]
        if cls in ('rs', 'ch', 'cs'):
            off = off | off.T
        A = gen_matrix(rng, 4, off, (True,) * 4, cls)
        if A is not None:
            out.append((4, cls, pkey(off, (True,) * 4), A))
    return out


FMTS = ('dense',) * 5 + ('csr',) + ('dense',) * 5 + ('csc',) + ('dense',) * 5 + ('coo',) + ('dense',) * 5 + ('csr0',)


# ------------------------------------------------------------------------------------------------ checks
@bound('get_diagonal_indices vs result[i] <=> A_ii != 0 and no other entry in row i and column i: every zero/non-zero pattern of n x n matrices n<=3 '
       '(512 for n=3), every off-diagonal pattern of 4x4 with full diagonal (4096), all 2x3 / 3x2 patterns; dense, csr, csc, coo, csr with stored zeros; '
       'real and complex values')
def diagonal_indices(r, tier, seed):
    rng = np.random.default_rng(seed + 1)

    def ref(P):
        n = min(P.shape)
        return [bool(P[i, i] and P[i, :].sum() == 1 and P[:, i].sum() == 1) for i in range(n)]

    def one(P, fmts, cplx):
        V = rng.uniform(0.5, 2.0, P.shape) * rng.choice([-1.0, 1.0], P.shape)
        if cplx:
            V = V * np.exp(1j * rng.uniform(0, 6.28, P.shape))
            V[0, 0] = 1j * abs(V[0, 0])      # purely imaginary entry is non-zero too
        Ad = np.where(P, V, 0)
        want = ref(P)
        for fmt in fmts:
            r.case((P.shape, pkey(P, ()), fmt, cplx))
            try:
                got = np.asarray(get_diagonal_indices(mk(fmt, Ad))).tolist()
            except Exception as e:
                got = repr(e)
            r.check(got == want, 'get_diagonal_indices: decoupled in row AND column with a non-zero diagonal', dict(A=Ad, storage=fmt), got, want,
                    replay_code=REPLAY_HEAD + HELPERS + f"from pymoto.solvers.solvers import get_diagonal_indices\nAd = {arr(Ad)}\n"
                    f"got = np.asarray(get_diagonal_indices(mk('{fmt}', Ad))).tolist()\nassert got == {want}, got\n")

    allf = ('dense', 'csr', 'csc', 'coo', 'csr0')
    for shape in ((1, 1), (2, 2), (3, 3), (2, 3), (3, 2)):
        for k, bits in enumerate(itertools.product((False, True), repeat=shape[0] * shape[1])):
            P = np.array(bits).reshape(shape)
            one(P, allf if (tier != 'quick' or shape != (3, 3) or k % 4 == 0) else ('dense', allf[1 + k % 4]), cplx=bool(k % 2))
    for k, off in enumerate(off_patterns(4, False)):
        P = off | np.eye(4, dtype=bool)
        one(P, ('dense',) if (tier == 'quick' and k % 16) else ('dense', allf[1 + k % 4]), cplx=bool(k % 3 == 0))
    if tier != 'quick':
        for k in range(3000):
            P = rng.random((4, 4)) < 0.35
            one(P, ('dense', allf[1 + k % 4]), cplx=bool(k % 2))


@bound('every off-diagonal sparsity pattern for n<=3 (n=4: 40 sampled [quick] / all 4096 [thorough]) x diagonal masks (full, one zero, all zero; singular ones '
       'skipped) x classes real general/real symmetric/complex general/Hermitian/complex symmetric, cond<=100; storage dense/csr/csc/coo/csr-with-zeros; '
       'inner solver numpy-reference or auto_determine_solver; 2 template histories (real, complex rhs; 22 solves each, all modes N/T/H in rotated order: new, '
       'repeat, (n,1), combination, zero, blocks with new/duplicate/dependent/zero columns, scaled, rhs on decoupled dofs only, rhs at 0.2x / 30x the tolerance from the span) + 1 random history of 8 steps')
def patterns_templates(r, tier, seed):
    mats = matrices_all_patterns(tier, seed)
    for k, (n, cls, pk, A) in enumerate(mats):
        fmt = FMTS[k % len(FMTS)]
        real_sparse = fmt != 'dense' and cls[0] == 'r'
        order = ['NTH', 'THN', 'HNT', 'TNH'][k % 4]
        for cplx in (False, True):
            inner = 'ref' if (k % 3 or (real_sparse and cplx)) else 'auto'
            h = Hist(r, 'patterns_templates', (n, cls, pk, fmt, inner, 'cplx' if cplx else 'real'), [dict(fmt=fmt, Ad=A)], inner=inner, seed=seed * 7919 + k)
            h.update(0)
            t_modes(h, cplx, order)
            h.finish()
        h = Hist(r, 'patterns_templates', (n, cls, pk, fmt, 'ref', 'random'), [dict(fmt=fmt, Ad=A)], inner='ref', seed=seed * 7919 + k + 1)
        h.update(0)
        t_random(h, 8, allow_complex=True, with_x0=True)
        h.finish()


def rep_matrices(rng, n_extra):
    """representative n=3 patterns: one decoupled dof + coupled pair, chain, full, triangular, column-coupled-only dof, zero diagonal pair"""
    P = {}
    P['decoupled+pair'] = ([[0, 1, 0], [1, 0, 0], [0, 0, 0]], (1, 1, 1))
    P['chain'] = ([[0, 1, 0], [1, 0, 1], [0, 1, 0]], (1, 1, 1))
    P['full'] = ([[0, 1, 1], [1, 0, 1], [1, 1, 0]], (1, 1, 1))
    P['upper'] = ([[0, 1, 1], [0, 0, 1], [0, 0, 0]], (1, 1, 1))
    P['col-only'] = ([[0, 0, 0], [1, 0, 0], [0, 0, 0]], (1, 1, 1))
    P['zero-diag-pair'] = ([[0, 1, 0], [1, 0, 0], [0, 0, 0]], (0, 0, 1))
    out = []
    for name, (off, dm) in P.items():
        off = np.array(off, dtype=bool)
        for cls in CLASSES:
            if cls in ('rs', 'ch', 'cs') and not np.array_equal(off, off.T):
                continue
            A = gen_matrix(rng, 3, off, [bool(v) for v in dm], cls)
            if A is not None:
                out.append((name, cls, A))
    return out


ALPHABET = [(t, k) for t in 'NTH' for k in ('new-real', 'new-complex', 'dependent', 'zero')] + [('U', 'toggle')]


@bound('ALL histories of length 3 over the 13-symbol alphabet {N,T,H} x {new real rhs, new complex rhs, rhs dependent on solved ones, zero rhs} + '
       '{update() toggling between two matrices of the same class (second one: other pattern; or identical values)}: 2197 histories per matrix pair; '
       'pairs: 6 representative 3x3 patterns x 5 classes (24 admissible), dense/csc/csr storage, [quick] a seed-rotated subset of 4 pairs (sparse storage: every 4th history) / [thorough] all 24; real-rhs-after-complex-rhs on a real matrix '
       'is left to known_real_after_complex')
def exhaustive_histories(r, tier, seed):
    rng = np.random.default_rng(seed + 2)
    reps = rep_matrices(rng, 0)
    if tier == 'quick':
        idx = [(seed * 5 + 6 * i) % len(reps) for i in range(4)]
        reps = [reps[i] for i in sorted(set(idx))]
    for q, (name, cls, A) in enumerate(reps):
        if q % 2:
            A2 = A.copy()                       # update with an equal matrix: storage must be dropped all the same
        else:
            A2 = None
            off2 = np.array([[0, 1, 1], [1, 0, 0], [1, 0, 0]], dtype=bool) if cls in ('rs', 'ch', 'cs') else np.array([[0, 0, 1], [0, 0, 0], [1, 1, 0]], dtype=bool)
            while A2 is None:
                A2 = gen_matrix(rng, 3, off2, (True, True, True), cls)
        fmt = ('dense', 'csc', 'dense', 'csr')[q % 4]
        stride = 1 if (fmt == 'dense' or tier != 'quick') else 4      # sparse update() is slow: every 4th history in the quick tier
        mats = [dict(fmt=fmt, Ad=A), dict(fmt=fmt, Ad=A2)]
        for hi, word in enumerate(itertools.product(range(len(ALPHABET)), repeat=3)):
            if hi % stride:
                continue
            syms = [ALPHABET[i] for i in word]
            if fmt != 'dense' and cls[0] == 'r' and any(k == 'new-complex' for _, k in syms):
                inner = 'ref'
            else:
                inner = ('ref', 'auto')[hi % 2]
            h = Hist(r, 'exhaustive_histories', (name, cls, fmt, 'same' if q % 2 else 'other', word), mats, inner=inner, seed=seed * 31 + hi)
            h.update(0)
            for t, k in syms:
                if t == 'U':
                    h.update(1 - h.cur)
                    continue
                cplx = k == 'new-complex'
                if np.isrealobj(h.Ad) and h.had_complex:
                    cplx = True
                kind = {'new-real': 'new', 'new-complex': 'new', 'dependent': 'comb', 'zero': 'zero'}[k]
                h.solve(t, kind, 'v', cplx)
            h.finish()


def class_matrix(rng, cls, n=3):
    off = np.ones((n, n), dtype=bool)
    return gen_matrix(rng, n, off, (True,) * n, cls)


@bound('histories update(A1) solve.. update(A2) solve..: all 25 ordered pairs of matrix classes (full 3x3 and 4x4 with a decoupled dof), every mode, real and '
       'complex rhs, rhs repeated from before the update; flags auto-detected. Region of ' + F_STALE + ': symmetric/hermitian class of A2 differs from A1 and mode T/H')
def update_changes_class(r, tier, seed):
    rng = np.random.default_rng(seed + 3)
    for n in (3, 4):
        for c1, c2 in itertools.product(CLASSES, repeat=2):
            def gm(cls):
                off = np.ones((n, n), dtype=bool)
                if n == 4:
                    off[3, :] = off[:, 3] = False
                A = None
                while A is None:
                    A = gen_matrix(rng, n, off, (True,) * n, cls)
                return A
            A1, A2 = gm(c1), gm(c2)
            for cplx in (False, True):
                if c2[0] == 'r' and not cplx:
                    pass
                for t in 'NTH':
                    h = Hist(r, 'update_changes_class', (n, c1, c2, cplx, t), [dict(fmt='dense', Ad=A1), dict(fmt='dense', Ad=A2)], inner='ref', seed=seed + 17)
                    h.update(0)
                    h.solve(t, 'new', 'v', cplx)
                    h.solve('N', 'new', 'v', cplx)
                    h.update(1)
                    # same numbers as before the update: must be solved for the new matrix
                    h.rng = np.random.default_rng(seed + 17)
                    h.solve(t, 'new', 'v', cplx)
                    h.solve(t, 'rep', 'v', cplx)
                    h.solve('N', 'new', 'c', cplx)
                    h.solve(t, ('comb', 'new'), cplx=cplx)
                    h.update(0)
                    h.solve(t, 'new', 'v', cplx)
                    h.finish()


@bound('x0 given (zeros / random / exact solution; shapes (n), (n,1), (n,2)) in every mode on 5 classes: with an empty database (must work), and after an earlier '
       'solve when the inner solver is needed again (region of ' + F_X0 + ') or not needed (rhs in span)')
def x0_histories(r, tier, seed):
    rng = np.random.default_rng(seed + 4)
    for ci, cls in enumerate(CLASSES):
        A = None
        while A is None:
            A = class_matrix(rng, cls, 4)
        for t, x0, shape in itertools.product('NTH', ('zero', 'rand', 'exact'), ('v', 'c', 'b')):
            kind = ('new', 'new') if shape == 'b' else 'new'
            dep = ('rep', 'scale') if shape == 'b' else 'comb'
            cplx = cls[0] == 'c'
            for variant in ('empty', 'span', 'needed'):
                h = Hist(r, 'x0_histories', (cls, t, x0, shape, variant), [dict(fmt='dense', Ad=A)], inner=('ref', 'lu')[ci % 2], seed=seed + 5)
                h.update(0)
                if variant == 'empty':
                    h.solve(t, kind, 'v' if shape == 'v' else 'c', cplx, x0=x0)
                    h.solve(t, dep, 'v' if shape == 'v' else 'c', cplx, x0=x0)      # in span: no inner solve, x0 unused
                elif variant == 'span':
                    h.solve(t, kind, 'v' if shape == 'v' else 'c', cplx)
                    h.solve(t, dep, 'v' if shape == 'v' else 'c', cplx, x0=x0)
                else:
                    h.solve(t, 'new', 'v', cplx)
                    h.solve(t, kind, 'v' if shape == 'v' else 'c', cplx, x0=x0)      # known defect region
                h.finish()


@bound('real matrix (general / symmetric, dense / csc): complex rhs first, then real rhs (new, real part of the complex one, in-span real multiple), every mode, '
       'vector and block; region of ' + F_RC + ': real matrix, real rhs needing the inner solver while a complex pair is stored')
def real_after_complex(r, tier, seed):
    rng = np.random.default_rng(seed + 6)
    for cls in ('rg', 'rs'):
        A = None
        while A is None:
            A = class_matrix(rng, cls, 4)
        for fmt, t1, t2, kind2 in itertools.product(('dense', 'csc'), 'NTH', 'NTH', ('new', ('new', 'new'), 'zero')):
            h = Hist(r, 'real_after_complex', (cls, fmt, t1, t2, kind2), [dict(fmt=fmt, Ad=A)], inner='ref', seed=seed + 8)
            h.update(0)
            h.solve(t1, 'new', 'v', cplx=True)
            h.solve(t2, kind2, 'v', cplx=False)
            h.solve(t2, 'new', 'v', cplx=True)
            h.finish()
        # complex matrix: the same history is outside the region and must work
    for cls in ('cg', 'ch', 'cs'):
        A = None
        while A is None:
            A = class_matrix(rng, cls, 4)
        for t1, t2 in itertools.product('NTH', 'NTH'):
            h = Hist(r, 'real_after_complex', (cls, t1, t2), [dict(fmt='dense', Ad=A)], inner='ref', seed=seed + 9)
            h.update(0)
            h.solve(t1, 'new', 'v', cplx=True)
            h.solve(t2, 'new', 'v', cplx=False)
            h.solve(t2, 'rep', 'v', cplx=False)
            h.solve(t1, ('new', 'comb'), cplx=False)
            h.finish()


@bound('block rhs whose columns are linearly dependent (scaled duplicate; more columns than coupled dofs: 3 columns on a 4x4 matrix with 2 coupled dofs) followed by '
       'a new rhs and a combination, 5 classes x modes N/T/H x real/complex rhs, n = 4: region of ' + F_DEP + ' (after the block, until the next update(); after '
       'update() the same requests must be answered correctly)')
def dependent_block(r, tier, seed):
    rng = np.random.default_rng(seed + 12)
    for cls in CLASSES:
        full = np.ones((4, 4), dtype=bool)
        two = np.zeros((4, 4), dtype=bool)
        two[0, 1] = two[1, 0] = True
        for pname, off in (('full', full), ('two-coupled', two)):
            A = None
            while A is None:
                A = gen_matrix(rng, 4, off, (True,) * 4, cls)
            for t, cplx in itertools.product('NTH', (False, True)):
                h = Hist(r, 'dependent_block', (cls, pname, t, cplx), [dict(fmt='dense', Ad=A)], inner='ref', seed=seed + 13)
                h.update(0)
                h.solve(t, ('new', 'dup') if pname == 'full' else ('new', 'new', 'new'), cplx=cplx)
                h.solve(t, 'new', 'v', cplx)
                h.solve(t, 'comb', 'v', cplx)
                h.solve(t, 'new', 'c', cplx)
                h.update(0)
                h.solve(t, 'new', 'v', cplx)
                h.solve(t, 'rep', 'v', cplx)
                h.finish()


def bigger(rng, cls, n, pd=False, block=False):
    """well conditioned n x n matrix of class cls; pd: positive definite (rs/ch); block: one dof decoupled"""
    cplx = cls[0] == 'c'
    G = rng.uniform(-1, 1, (n, n)) + (1j * rng.uniform(-1, 1, (n, n)) if cplx else 0)
    if cls in ('rs', 'cs'):
        G = (G + G.T) / 2
    if cls == 'ch':
        G = (G + G.conj().T) / 2
    d = np.full(n, float(n)) if pd else n * np.where(np.arange(n) % 3 == 1, -1.0, 1.0)
    if cls in ('cg', 'cs'):
        d = d * np.exp(0.4j)
    A = G - np.diag(np.diag(G)) + np.diag(d)
    if block:
        A[n // 2, :] = 0
        A[:, n // 2] = 0
        A[n // 2, n // 2] = d[n // 2]
    return A


@bound('real solver classes as the wrapped solver, n in {5,8} [quick] / {5,8,13,21} [thorough], matrices with one decoupled dof: DenseLU/QR (5 classes), DenseLDL '
       '(rs, ch, cs indefinite), DenseCholesky (rs, ch positive definite + indefinite fall-back), SparseLU (csc/csr/coo), Diagonal (diagonal matrices), auto, '
       'CG plain/Jacobi/SOR/ILU (rs, ch positive definite, csr); wrapper flags auto / stated truthfully / stated (False, False); tolerances default, 1e-3, 1e-12 (rhs at 0.2x / 30x '
       'the tolerance from the span of solved ones: answered from storage / re-solved); template history + random history of 10 steps with x0 on an empty database')
def any_inner_solver(r, tier, seed):
    rng = np.random.default_rng(seed + 10)
    sizes = (5, 8) if tier == 'quick' else (5, 8, 13, 21)
    plan = []
    for cls in CLASSES:
        plan += [('lu', cls, 'dense', False), ('qr', cls, 'dense', False), ('auto', cls, 'dense', False), ('splu', cls, 'csc', False)]
    plan += [('ldl', c, 'dense', False) for c in ('rs', 'ch', 'cs')] + [('chol', c, 'dense', True) for c in ('rs', 'ch')] + [('chol', 'rs', 'dense', False)]
    plan += [('splu', 'rg', 'csr', False), ('splu', 'cg', 'coo', False), ('auto', 'rs', 'csc', True), ('auto', 'ch', 'csr', True), ('auto', 'cs', 'csc', False)]
    plan += [(s, c, 'csr', True) for s in ('cg', 'cg_jac', 'cg_sor', 'cg_ilu') for c in ('rs', 'ch')]
    plan += [('diag', 'rg', 'dense', False), ('diag', 'cg', 'csr', False)]
    for n in sizes:
        for pi, (inner, cls, fmt, pd) in enumerate(plan):
            A = bigger(rng, cls, n, pd=pd, block=True)
            if inner == 'diag':
                A = np.diag(np.diag(A))
            real_sparse = fmt != 'dense' and cls[0] == 'r'
            if inner.startswith('cg'):
                A = A / n          # eigenvalues near 1: CG converges in a few iterations
            truth = (is_sym(A), is_herm(A))
            for fi, flags in enumerate(((None, None), truth, (False, False), (None, truth[1]))):
                for tol in ((None, 1e-3, 1e-12) if fi == 0 else (None,)):
                    if inner.startswith('cg') and tol == 1e-12:
                        continue
                    for cplx in (False, True):
                        if cplx and (real_sparse or (inner.startswith('cg') and cls[0] == 'r' and fmt != 'dense')):
                            continue
                        h = Hist(r, 'any_inner_solver', (n, inner, cls, fmt, flags, tol, cplx), [dict(fmt=fmt, Ad=A)], inner=inner, tol=tol, flags=flags, seed=seed + pi)
                        h.update(0)
                        t_modes(h, cplx, ['NTH', 'HTN'][pi % 2])
                        h.finish()
            h = Hist(r, 'any_inner_solver', (n, inner, cls, fmt, 'random'), [dict(fmt=fmt, Ad=A)], inner=inner, seed=seed + pi + 1000)
            h.update(0)
            t_random(h, 10, allow_complex=not (real_sparse or inner.startswith('cg') and cls[0] == 'r'), with_x0=True)
            h.finish()


@bound('LinSolve: dense/csc matrices of 5 classes, n=6, vector and block rhs; default wraps the solver in LDAWrapper (tolerance 5x the solver tolerance when it has '
       'one), use_lda_solver=False does not; response + sensitivity with the adjoint rhs equal to / independent of the rhs: inner solves counted; second response '
       'after the matrix changed is solved for the new matrix')
def linsolve_wrapping(r, tier, seed):
    rng = np.random.default_rng(seed + 11)
    n = 6
    for cls, fmt, block in itertools.product(CLASSES, ('dense', 'csc'), (False, True)):
        A = bigger(rng, cls, n, pd=cls in ('rs', 'ch'))
        A2 = bigger(rng, cls, n, pd=cls in ('rs', 'ch'))
        cplx = cls[0] == 'c'
        b = rng.uniform(-1, 1, (n, 2) if block else n)
        if cplx:
            b = b + 1j * rng.uniform(-1, 1, b.shape)
        key = (cls, fmt, block)
        code = (REPLAY_HEAD + HELPERS + f"Ad = {arr(A)}; Ad2 = {arr(A2)}; b = {arr(b)}\ninner = Count(Ref())\nsA = pym.Signal('A', mk('{fmt}', Ad)); sb = pym.Signal('b', b.copy())\n"
                "m = pym.LinSolve([sA, sb], pym.Signal('x'), solver=inner)\nm.response()\nx = m.sig_out[0].state\n"
                "assert isinstance(m.solver, pym.solvers.LDAWrapper) and m.solver.solver is inner\n"
                "assert np.linalg.norm(Ad @ x - b) <= 1e-9 * np.linalg.norm(b)\nk0 = sum(inner.cols)\n"
                "m.sig_out[0].sensitivity = b.copy()\nm.sensitivity()\nprint('inner columns for the adjoint', sum(inner.cols) - k0)\n"
                f"assert sum(inner.cols) - k0 == {0 if cls in ('rs', 'cs') else b.size // n}\n"
                f"sA.state = mk('{fmt}', Ad2); m.response(); x2 = m.sig_out[0].state\nassert np.linalg.norm(Ad2 @ x2 - b) <= 1e-9 * np.linalg.norm(b)\n")
        r.case(key)
        try:
            inner = Count(Ref())
            sA, sb = pym.Signal('A', mk(fmt, A)), pym.Signal('b', b.copy())
            m = pym.LinSolve([sA, sb], pym.Signal('x'), solver=inner)
            m.response()
            x = m.sig_out[0].state
            r.check(isinstance(m.solver, LDAWrapper) and m.solver.solver is inner, 'LinSolve wraps the given solver in LDAWrapper by default', key, type(m.solver).__name__, replay_code=code)
            r.check(x.shape == b.shape and np.linalg.norm(A @ x - b) <= 1e-9 * np.linalg.norm(b), 'LinSolve solution', key, replay_code=code)
            r.check(sum(inner.cols) == b.size // n, 'one inner solve per independent rhs column', key, inner.cols, replay_code=code)
            k0 = sum(inner.cols)
            # adjoint rhs equal to b: A^T lam = b. Symmetric A: lam in the stored span (no inner solve); otherwise one per column
            m.sig_out[0].sensitivity = b.copy()
            m.sensitivity()
            want = 0 if cls in ('rs', 'cs') else b.size // n
            r.check(sum(inner.cols) - k0 == want, 'adjoint solve with the rhs as seed: reused for symmetric matrices, solved otherwise', key, sum(inner.cols) - k0, want, replay_code=code)
            db = sb.sensitivity
            lam = np.linalg.solve(A.T, b)
            r.check(db is not None and np.allclose(db, lam if cplx else lam.real, rtol=1e-8, atol=1e-10), 'rhs sensitivity = solution of the transposed system', key, replay_code=code)
            m.reset()
            sA.state = mk(fmt, A2)
            k0 = sum(inner.cols)
            m.response()
            x2 = m.sig_out[0].state
            r.check(np.linalg.norm(A2 @ x2 - b) <= 1e-9 * np.linalg.norm(b) and sum(inner.cols) - k0 == b.size // n, 'after the matrix changed the system is solved anew', key,
                    dict(res=float(np.linalg.norm(A2 @ x2 - b)), cols=inner.cols), replay_code=code)
            # no wrapping when switched off; tolerance propagated from an iterative solver
            m2 = pym.LinSolve([pym.Signal('A', mk(fmt, A)), pym.Signal('b', b.copy())], pym.Signal('x'), solver=Count(Ref()))
            m2.use_lda_solver = False
            m2.response()
            r.check(isinstance(m2.solver, Count) and np.linalg.norm(A @ m2.sig_out[0].state - b) <= 1e-9 * np.linalg.norm(b), 'use_lda_solver=False leaves the solver unwrapped', key)
            inner3 = Count(Ref())
            inner3.tol = 1e-9
            m3 = pym.LinSolve([pym.Signal('A', mk(fmt, A)), pym.Signal('b', b.copy())], pym.Signal('x'), solver=inner3)
            m3.response()
            r.check(isinstance(m3.solver, LDAWrapper) and abs(m3.solver.tol - 5e-9) < 1e-20, 'wrapper tolerance = 5 x tolerance of an iterative solver', key, getattr(m3.solver, 'tol', None), 5e-9)
            m4 = pym.LinSolve([pym.Signal('A', mk(fmt, A)), pym.Signal('b', b.copy())], pym.Signal('x'))
            m4.response()
            r.check(isinstance(m4.solver, LDAWrapper) and np.linalg.norm(A @ m4.sig_out[0].state - b) <= 1e-9 * np.linalg.norm(b), 'default LinSolve (auto solver) is wrapped and solves', key)
        except Exception as e:
            r.check(False, 'LinSolve history raises', key, repr(e)[:300], replay_code=code)


CHECKS = [('diagonal_indices', diagonal_indices), ('patterns_templates', patterns_templates), ('exhaustive_histories', exhaustive_histories),
          ('update_changes_class', update_changes_class), ('x0_histories', x0_histories), ('real_after_complex', real_after_complex), ('dependent_block', dependent_block),
          ('any_inner_solver', any_inner_solver), ('linsolve_wrapping', linsolve_wrapping)]
