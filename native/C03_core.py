"""C03 core (shared by native/C03.py and by every replay file, which embeds this source verbatim).

A *net* is a small pyMOTO network containing caching components.  A *history* is a list of operations over
{set input := design k, response, seed output j, sensitivity, reset} (+ the caller scribbling over returned arrays) that respects
the response-before-sensitivity protocol.  `run_case` runs a history on one object, then the final cycle
reset / set design 0 / response / seed / sensitivity, and compares every Signal.state and Signal.sensitivity with a freshly
constructed identical network evaluated once (built before AND after the history run), plus independent dense references.
Only numpy, scipy and pymoto are used here."""
import warnings
import numpy as np
import scipy.sparse as sps
import pymoto as pym

warnings.filterwarnings('ignore')
FINAL = 0   # design index of the final cycle


# ------------------------------------------------------------------------------------------------ comparing values
def dense(v):
    """Comparable dense copy of a state / sensitivity (ndarray, scalar, sparse matrix, DyadCarrier, np.matrix)"""
    if v is None:
        return None
    if sps.issparse(v):
        return np.array(v.toarray())
    if isinstance(v, pym.DyadCarrier):
        return np.array(v.todense())
    return np.array(v)


def differs(a, b, tol, none_is_zero=False, floor=1e-3):
    """None if a == b up to tol (norm-wise, relative to max(|a|,|b|,floor)), else a short description"""
    if a is None and b is None:
        return None
    if a is None or b is None:
        if not none_is_zero:
            return 'one of them is None'
        a = np.zeros_like(b) if a is None else a
        b = np.zeros_like(a) if b is None else b
        if a.size == 0 or b.size == 0:
            return None if not np.any(a) and not np.any(b) else 'empty vs non-zero'
    if a.shape != b.shape:
        return f'shape {a.shape} vs {b.shape}'
    if np.iscomplexobj(a) != np.iscomplexobj(b):
        return f'dtype {a.dtype} vs {b.dtype}'
    if not (np.all(np.isfinite(a)) and np.all(np.isfinite(b))):
        return 'non-finite values'
    err = float(np.linalg.norm((a - b).ravel()))
    scale = max(float(np.linalg.norm(a.ravel())), float(np.linalg.norm(b.ravel())), floor)
    if err > tol * scale:
        return f'relative difference {err / scale:.3e} > {tol:g}'
    return None


def is_zero_or_none(v):
    d = dense(v)
    return d is None or d.size == 0 or not np.any(d)


def same_exact(a, b):
    if a is None or b is None:
        return a is None and b is None
    return a.shape == b.shape and a.dtype == b.dtype and np.array_equal(a, b)


def make_seed(seed, j, sid, state):
    """Seed of the kind of the output (real for real outputs, complex for complex outputs), deterministic in (seed, j, sid, shape)"""
    st = np.asarray(dense(state))
    rng = np.random.default_rng([seed, 7, j, sid] + list(st.shape))
    v = rng.standard_normal(st.shape)
    if np.iscomplexobj(st):
        v = v + 1j * rng.standard_normal(st.shape)
    return float(v) if v.ndim == 0 else v


# ------------------------------------------------------------------------------------------------ user modules
class QuadForm(pym.Module):
    """q = v.K.v for a sparse K; sensitivity of K as DyadCarrier"""
    def _response(self, K, v):
        return float(v @ (K @ v))

    def _sensitivity(self, dq):
        K, v = [s.state for s in self.sig_in]
        return pym.DyadCarrier(dq * v, v), dq * ((K @ v) + (K.T @ v))


class ToDense(pym.Module):
    """dense copy of a sparse matrix; passes a dense sensitivity upstream"""
    def _response(self, K):
        return np.array(K.toarray())

    def _sensitivity(self, dM):
        return np.array(dM)


class Split(pym.Module):
    """two outputs from one vector (used with SignalSlice outputs)"""
    def _response(self, u):
        h = u.size // 2
        return 2.0 * u, u[:h] * u[h:2 * h]

    def _sensitivity(self, d1, d2):
        u = self.sig_in[0].state
        h = u.size // 2
        du = np.zeros_like(u)
        if d1 is not None:
            du += 2.0 * d1
        if d2 is not None:
            du[:h] += d2 * u[h:2 * h]
            du[h:2 * h] += d2 * u[:h]
        return du


# ------------------------------------------------------------------------------------------------ nets
def _rng(seed, k, salt):
    return np.random.default_rng([seed, k, salt])


def _small(rng, n, cplx=False):
    m = rng.standard_normal((n, n))
    if cplx:
        m = m + 1j * rng.standard_normal((n, n))
    return 0.45 * m / np.sqrt(n)


def _class_matrix(cls, n, rng):
    """Well conditioned (cond < 10) matrix 'dominant diagonal + small part' of the requested class"""
    if cls == 'spd':
        s = _small(rng, n); return 3.0 * np.eye(n) + (s + s.T) / 2
    if cls == 'symindef':
        s = _small(rng, n); return np.diag(3.0 * (-1.0) ** np.arange(n)) + (s + s.T) / 2
    if cls == 'nonsym':
        return 3.0 * np.eye(n) + _small(rng, n) + np.triu(np.full((n, n), 0.2), 1)
    if cls == 'herm':
        s = _small(rng, n, True); return 3.0 * np.eye(n) + (s + s.conj().T) / 2
    if cls == 'csym':
        s = _small(rng, n, True); return (3.0 + 1.0j) * np.eye(n) + (s + s.T) / 2
    if cls == 'cgen':
        return (3.0 + 1.0j) * np.eye(n) + _small(rng, n, True) + np.triu(np.full((n, n), 0.2j), 1)
    raise ValueError(cls)


def _decouple(A, k):
    """Unusual but admissible: some designs have dofs that are exactly decoupled (pure diagonal rows/columns), so the set of
    'diagonal' dofs changes along the history while the matrix class stays the same"""
    n = A.shape[0]
    idx = {0: [0], 1: [n - 1, n - 2]}.get(k % 3, [])   # design 0 (final cycle), 3: dof 0; designs 1, 4: the last two; 2, 5: none
    for d in idx:
        dd = A[d, d]
        A[d, :] = 0; A[:, d] = 0; A[d, d] = dd
    return A


class NetLinSolve:
    """A, b -> LinSolve -> u.  storage dense/sparse; matrix classes; rhs kinds vec / blk (n,2) / cvec (complex rhs, real dense matrix) /
    mixed (the number of right-hand sides changes along the history: vec for design 0, (n,2), (n,3))"""
    def __init__(self, storage, cls, rhs, lda=True, n=6):
        self.storage, self.cls, self.rhs, self.lda, self.n = storage, cls, rhs, lda, n
        self.tol = 1e-10
        self.cplx = cls in ('herm', 'csym', 'cgen')

    def build(self):
        sA, sb, su = pym.Signal('A'), pym.Signal('b'), pym.Signal('u')
        m = pym.LinSolve([sA, sb], su)
        if not self.lda:
            m.use_lda_solver = False
        return pym.Network(m), [sA, sb], [su], [('A', sA), ('b', sb), ('u', su)]

    def design(self, seed, k):
        rng = _rng(seed, k, 11)
        n = self.n
        A = _class_matrix(self.cls, n, rng)
        if self.storage == 'sparse':
            mask = np.abs(np.subtract.outer(np.arange(n), np.arange(n))) <= 2   # banded pattern, the same for every design
            A = A * mask
        A = _decouple(A, k)
        shape = {'vec': (n,), 'blk': (n, 2), 'cvec': (n,), 'mixed': [(n,), (n, 2), (n, 3)][k % 3]}[self.rhs]
        b = rng.standard_normal(shape)
        if self.cplx or self.rhs == 'cvec':
            b = b + 1j * rng.standard_normal(shape)
        return [sps.csc_matrix(A) if self.storage == 'sparse' else A, b]

    def reference(self, vals, seeds):
        A, b = dense(vals[0]), vals[1]
        u = np.linalg.solve(A, b)
        out = {'u': (u, seeds[0])}
        if seeds[0] is not None:
            lam = np.linalg.solve(A.T, seeds[0])
            dA = -(lam @ u.T) if u.ndim > 1 else -np.outer(lam, u)
            out['A'] = (A, dA if np.iscomplexobj(A) else dA.real)
            out['b'] = (b, lam if np.iscomplexobj(b) else lam.real)
        return out


def _domain(dims):
    return pym.DomainDefinition(*dims)


def _left_bc(dom, ndof):
    nodes = dom.get_nodenumber(*np.meshgrid(0, np.arange(dom.nely + 1), np.arange(dom.nelz + 1), indexing='ij')).flatten()
    return np.sort(np.concatenate([nodes * ndof + d for d in range(ndof)]))


class NetCompliance:
    """x -> DensityFilter -> AssembleStiffness(bc) -> LinSolve(solver) -> u ; c = u.f   (outputs c and u)
    solver in auto / nolda / cg-none / cg-jacobi / cg-sor / cg-ilu / cg-mg ; rhs vec or blk"""
    def __init__(self, solver='auto', rhs='vec', dims=(4, 2, 0)):
        self.solver, self.rhs, self.dims = solver, rhs, dims
        self.tol = 1e-10 if solver in ('auto', 'nolda') else 2e-9   # CG: tol 1e-12 x condition number <= 1e3 (observed differences <= 3e-12)

    def _solver(self, dom):
        from pymoto.solvers import CG, DampedJacobi, SOR, ILU, GeometricMultigrid
        if not self.solver.startswith('cg'):
            return None
        pre = {'cg-none': None, 'cg-jacobi': DampedJacobi(w=0.9), 'cg-sor': SOR(w=1.1), 'cg-ilu': ILU(), 'cg-mg': GeometricMultigrid(dom)}[self.solver]
        return CG(tol=1e-12, maxit=2000) if pre is None else CG(preconditioner=pre, tol=1e-12, maxit=2000)

    def build(self):
        dom = _domain(self.dims)
        ndof = dom.dim
        sx, sf = pym.Signal('x'), pym.Signal('f')
        sxf, sK, su, sc = pym.Signal('xf'), pym.Signal('K'), pym.Signal('u'), pym.Signal('c')
        m1 = pym.DensityFilter(sx, sxf, domain=dom, radius=1.5)
        m2 = pym.AssembleStiffness(sxf, sK, domain=dom, bc=_left_bc(dom, ndof))
        m3 = pym.LinSolve([sK, sf], su, solver=self._solver(dom))
        if self.solver == 'nolda':
            m3.use_lda_solver = False
        m4 = pym.EinSum([su, sf], sc, expression='i,i->' if self.rhs == 'vec' else 'ij,ij->')
        return pym.Network(m1, m2, m3, m4), [sx, sf], [sc, su], [('x', sx), ('f', sf), ('xf', sxf), ('K', sK), ('u', su), ('c', sc)]

    def design(self, seed, k):
        rng = _rng(seed, k, 12)
        dom = _domain(self.dims)
        x = 0.3 + 0.7 * rng.random(dom.nel)
        n = dom.nnodes * dom.dim
        f = rng.standard_normal(n if self.rhs == 'vec' else (n, 2))
        f[_left_bc(dom, dom.dim), ...] = 0.0
        return [x, f]

    def reference(self, vals, seeds):
        return None


class NetEigDense:
    """A [,B] dense -> EigenSolve -> lam, Q.  classes sym / herm / gen / nonherm"""
    def __init__(self, cls, n=6):
        self.cls, self.n = cls, n
        self.tol = 1e-10

    def build(self):
        sA, sB, sl, sQ = pym.Signal('A'), pym.Signal('B'), pym.Signal('lam'), pym.Signal('Q')
        if self.cls == 'gen':
            m = pym.EigenSolve([sA, sB], [sl, sQ])
            return pym.Network(m), [sA, sB], [sl, sQ], [('A', sA), ('B', sB), ('lam', sl), ('Q', sQ)]
        m = pym.EigenSolve(sA, [sl, sQ])
        return pym.Network(m), [sA], [sl, sQ], [('A', sA), ('lam', sl), ('Q', sQ)]

    def design(self, seed, k):
        rng = _rng(seed, k, 13)
        n = self.n
        d = np.cumsum(1.0 + 0.5 * rng.random(n))        # gaps >= 1: well separated eigenvalues, eigenvectors close to unit vectors
        s = 0.5 * _small(rng, n, self.cls == 'herm')
        if self.cls == 'nonherm':
            return [np.diag(d) + s]
        A = np.diag(d) + (s + s.conj().T) / 2
        if self.cls == 'gen':
            t = 0.3 * _small(rng, n)
            return [A, np.eye(n) + (t + t.T) / 2]
        return [A]

    def reference(self, vals, seeds):
        if self.cls in ('sym', 'herm'):
            return {'lam': (np.linalg.eigvalsh(vals[0]), None)}
        if self.cls == 'gen':
            L = np.linalg.cholesky(vals[1])
            Li = np.linalg.inv(L)
            return {'lam': (np.linalg.eigvalsh(Li @ vals[0] @ Li.T), None)}
        return None


class NetEigSparse:
    """sparse A [,B] -> EigenSolve(nmodes=3, sigma) -> lam, Q (shift-invert operator and per-mode adjoint solvers are cached objects)"""
    def __init__(self, cls, sigma=None, n=12):
        self.cls, self.sigma, self.n = cls, sigma, n
        self.tol = 1e-9     # ARPACK starts from a random vector: converged to machine precision, gaps >= 1 (observed differences <= 3e-13)

    def build(self):
        sA, sB, sl, sQ = pym.Signal('A'), pym.Signal('B'), pym.Signal('lam'), pym.Signal('Q')
        kw = dict(nmodes=3) if self.sigma is None else dict(nmodes=3, sigma=self.sigma)
        if self.cls == 'gen':
            m = pym.EigenSolve([sA, sB], [sl, sQ], **kw)
            return pym.Network(m), [sA, sB], [sl, sQ], [('A', sA), ('B', sB), ('lam', sl), ('Q', sQ)]
        m = pym.EigenSolve(sA, [sl, sQ], **kw)
        return pym.Network(m), [sA], [sl, sQ], [('A', sA), ('lam', sl), ('Q', sQ)]

    def design(self, seed, k):
        rng = _rng(seed, k, 14)
        n = self.n
        d = np.cumsum(1.0 + 0.5 * rng.random(n))
        o = 0.1 + 0.15 * rng.random(n - 1)
        A = sps.diags([o, d, o], [-1, 0, 1], format='csc')
        if self.cls == 'gen':
            ob = 0.05 * rng.random(n - 1)
            return [A, sps.diags([ob, 1.0 + 0.2 * rng.random(n), ob], [-1, 0, 1], format='csc')]
        return [A]

    def reference(self, vals, seeds):
        A = dense(vals[0])
        if self.cls == 'gen':
            L = np.linalg.cholesky(dense(vals[1])); Li = np.linalg.inv(L)
            w = np.linalg.eigvalsh(Li @ A @ Li.T)
        else:
            w = np.linalg.eigvalsh(A)
        sig = 0.0 if self.sigma is None else self.sigma
        w = np.sort(w[np.argsort(np.abs(w - sig))[:3]])
        return {'lam': (w, None)}


def overhang_reference(x, dims, direction, ns, p=40.0, xi0=0.5, eps=1e-4):
    """Element-by-element forward evaluation of the overhang filter (Langelaar 2017), independent of the module"""
    nx, ny, nz = dims[0], dims[1], max(dims[2], 1)
    size = [nx, ny, nz]
    ax = int(np.argmax(np.abs(direction))); sg = int(np.sign(direction[ax]))
    o1, o2 = [a for a in range(3) if a != ax]
    q = p + np.log(float(ns)) / np.log(xi0)
    shift = 100.0 * np.finfo(x.dtype).tiny ** (1.0 / p)
    back = 0.95 * ns ** (1 / q) * shift ** (p / q)
    offs = [(-1, 0), (0, 0), (1, 0), (0, -1), (0, 1), (-1, -1), (-1, 1), (1, -1), (1, 1)][:ns]
    if dims[2] == 0:   # 2D: the in-plane orthogonal axis carries the (-1,0,1) offsets
        o1, o2 = (o1, o2) if o2 == 2 else (o2, o1)

    def el(i):
        return (i[2] * ny + i[1]) * nx + i[0]
    y = x.copy()
    layers = range(1, size[ax]) if sg >= 0 else range(size[ax] - 2, -1, -1)
    for l in layers:
        for a in range(size[o1]):
            for b in range(size[o2]):
                keep = 0.0
                for da, db in offs:
                    aa, bb = a + da, b + db
                    if 0 <= aa < size[o1] and 0 <= bb < size[o2]:
                        i = [0, 0, 0]; i[ax] = l - sg; i[o1] = aa; i[o2] = bb
                        keep += (y[el(i)] + shift) ** p
                smax = keep ** (1 / q) - back
                i = [0, 0, 0]; i[ax] = l; i[o1] = a; i[o2] = b
                e = el(i)
                r1 = x[e] - smax
                y[e] = (x[e] + smax - np.sqrt(r1 * r1 + eps) + np.sqrt(eps)) / 2
    return y


class NetOverhang:
    """x -> FilterConv(mixed boundary modes) -> OverhangFilter(direction, nsampling) -> y ; g = y.w   (outputs g and y);
    tail=False: no module after the filter, y is a terminal output that the caller seeds with its own (re-used) array"""
    def __init__(self, dims, direction, ns=None, conv=True, tail=True):
        self.dims, self.direction, self.ns, self.conv, self.tail = dims, direction, ns, conv, tail
        self.tol = 1e-10

    def _dirvec(self):
        d = self.direction
        if isinstance(d, str):
            v = [0.0, 0.0, 0.0]; v['xyz'.index(d.strip('+-'))] = -1.0 if '-' in d else 1.0
            return np.array(v)
        v = np.zeros(3); v[:len(d)] = d
        return v

    def build(self):
        dom = _domain(self.dims)
        sx, sw, sxf, sy, sg = pym.Signal('x'), pym.Signal('w'), pym.Signal('xf'), pym.Signal('y'), pym.Signal('g')
        mods = []
        if self.conv:
            mods.append(pym.FilterConv(sx, sxf, domain=dom, radius=1.5, xmin_bc=0.0, xmax_bc='edge', ymin_bc='symmetric', ymax_bc='wrap'))
        else:
            sxf = sx
        kw = {} if self.ns is None else dict(nsampling=self.ns)
        mods.append(pym.OverhangFilter(sxf, sy, domain=dom, direction=self.direction, **kw))
        sigs = [('x', sx), ('y', sy)] + ([('xf', sxf)] if self.conv else [])
        if not self.tail:
            return pym.Network(*mods), [sx], [sy], sigs
        mods.append(pym.EinSum([sy, sw], sg, expression='i,i->'))
        return pym.Network(*mods), [sx, sw], [sg, sy], sigs + [('w', sw), ('g', sg)]

    def design(self, seed, k):
        rng = _rng(seed, k, 15)
        nel = _domain(self.dims).nel
        x = rng.random(nel)
        x[rng.integers(0, nel, 2)] = 0.0     # exact zeros and ones are admissible densities
        x[rng.integers(0, nel, 2)] = 1.0
        return [x, rng.standard_normal(nel)][:2 if self.tail else 1]

    def reference(self, vals, seeds):
        return None   # the forward reference needs the filtered field: see post_reference

    def post_reference(self, named):
        ns = self.ns if self.ns is not None else (3 if self.dims[2] == 0 else 5)
        xin = named['xf' if self.conv else 'x'][0]
        return {'y': (overhang_reference(xin, self.dims, self._dirvec(), ns), None)}


class NetAssemble:
    """x -> DensityFilter -> { AssembleMass(bc, add_constant) -> QuadForm (DyadCarrier seed path) ;
                              AssemblePoisson(bc) -> ToDense -> EinSum (dense seed path) } ; nested networks"""
    def __init__(self, dims):
        self.dims = dims
        self.tol = 1e-10

    def build(self):
        dom = _domain(self.dims)
        ndof = 2
        n = dom.nnodes * ndof
        sx, sv, sW = pym.Signal('x'), pym.Signal('v'), pym.Signal('W')
        sxf, sM, sq, sP, sPd, sr = [pym.Signal(t) for t in ('xf', 'M', 'q', 'P', 'Pd', 'r')]
        const = sps.csc_matrix(sps.diags([np.linspace(0.1, 0.2, n)], [0]))
        m1 = pym.DensityFilter(sx, sxf, domain=dom, radius=2.0)
        m2 = pym.AssembleMass(sxf, sM, domain=dom, ndof=ndof, bc=np.array([3, 0]), bcdiagval=0.7, add_constant=const)
        m3 = QuadForm([sM, sv], sq)
        m4 = pym.AssemblePoisson(sxf, sP, domain=dom, bc=np.array([dom.nnodes - 1]), material_property=1.3)
        m5 = ToDense(sP, sPd)
        m6 = pym.EinSum([sPd, sW], sr, expression='ij,ij->')
        fn = pym.Network(m1, pym.Network(m2, m3), pym.Network([m4, m5]), m6)
        sigs = [('x', sx), ('v', sv), ('W', sW), ('xf', sxf), ('M', sM), ('q', sq), ('P', sP), ('Pd', sPd), ('r', sr)]
        return fn, [sx, sv, sW], [sq, sr], sigs

    def design(self, seed, k):
        rng = _rng(seed, k, 16)
        dom = _domain(self.dims)
        x = 0.2 + 0.8 * rng.random(dom.nel)
        x[k % dom.nel] = 0.0
        return [x, rng.standard_normal(dom.nnodes * 2), rng.standard_normal((dom.nnodes, dom.nnodes))]

    def reference(self, vals, seeds):
        return None


class NetSoE:
    """x -> AssembleStiffness (no bc) -> K ; SystemOfEquations(K, bf, xp) -> xs, bs.  mode 'prescribed' (unsorted index array) or 'free';
    src=True: K is a source signal (region of finding C04-soe-overwrites-input)"""
    def __init__(self, mode='prescribed', rhs='vec', src=False, dims=(3, 2, 0)):
        self.mode, self.rhs, self.src, self.dims = mode, rhs, src, dims
        self.tol = 1e-10

    def _idx(self):
        dom = _domain(self.dims)
        n = dom.nnodes * 2
        p = _left_bc(dom, 2)[::-1].copy()            # unsorted (descending) prescribed dofs
        p = np.concatenate([p[1:], p[:1]])
        f = np.setdiff1d(np.arange(n), p)
        return n, p, f

    def build(self):
        dom = _domain(self.dims)
        n, p, f = self._idx()
        sx, sK, sbf, sxp, sxs, sbs = [pym.Signal(t) for t in ('x', 'K', 'bf', 'xp', 'xs', 'bs')]
        kw = dict(prescribed=p) if self.mode == 'prescribed' else dict(free=f)
        m2 = pym.SystemOfEquations([sK, sbf, sxp], [sxs, sbs], **kw)
        sigs = [('K', sK), ('bf', sbf), ('xp', sxp), ('xs', sxs), ('bs', sbs)]
        if self.src:
            return pym.Network(m2), [sK, sbf, sxp], [sxs, sbs], sigs
        m1 = pym.AssembleStiffness(sx, sK, domain=dom)
        return pym.Network(m1, m2), [sx, sbf, sxp], [sxs, sbs], [('x', sx)] + sigs

    def _K(self, x):
        dom = _domain(self.dims)
        s = pym.Signal('x', x)
        m = pym.AssembleStiffness(s, pym.Signal('K'), domain=dom)
        m.response()
        return m.sig_out[0].state

    def design(self, seed, k):
        rng = _rng(seed, k, 17)
        dom = _domain(self.dims)
        n, p, f = self._idx()
        x = 0.3 + 0.7 * rng.random(dom.nel)
        sh = (lambda m: (m,)) if self.rhs == 'vec' else (lambda m: (m, 2))
        bf, xp = rng.standard_normal(sh(f.size)), 0.1 * rng.standard_normal(sh(p.size))
        return [self._K(x) if self.src else x, bf, xp]

    def reference(self, vals, seeds):
        return None

    def post_reference(self, named):
        if self.src:
            return None
        n, p, f = self._idx()
        if self.mode == 'free':
            p = np.setdiff1d(np.arange(n), f)
        K = named['K'][0]
        if K.shape != (n, n):
            return None      # input matrix signal overwritten (C04-soe-overwrites-input); nothing to compare against
        bf, xp = named['bf'][0], named['xp'][0]
        xs = np.zeros((n,) + bf.shape[1:]); bs = np.zeros_like(xs)
        xs[p] = xp
        xs[f] = np.linalg.solve(K[np.ix_(f, f)], bf - K[np.ix_(f, p)] @ xp)
        bs[f] = bf
        bs[p] = K[np.ix_(p, f)] @ xs[f] + K[np.ix_(p, p)] @ xp
        return {'xs': (xs, None), 'bs': (bs, None)}


class NetCondense:
    """x -> AssembleStiffness(bc) -> K -> StaticCondensation(main, free) -> Ared (dense) ; src=True: K is a source signal"""
    def __init__(self, src=False, dims=(3, 2, 0)):
        self.src, self.dims = src, dims
        self.tol = 1e-10

    def _idx(self):
        dom = _domain(self.dims)
        n = dom.nnodes * 2
        bc = _left_bc(dom, 2)
        main = np.array([n - 1, n - 4, n - 2])       # unsorted main dofs
        free = np.setdiff1d(np.arange(n), np.concatenate([bc, main]))
        return n, bc, main, free

    def build(self):
        dom = _domain(self.dims)
        n, bc, main, free = self._idx()
        sx, sK, sR = pym.Signal('x'), pym.Signal('K'), pym.Signal('Ared')
        m2 = pym.StaticCondensation(sK, sR, main=main, free=free)
        if self.src:
            return pym.Network(m2), [sK], [sR], [('K', sK), ('Ared', sR)]
        m1 = pym.AssembleStiffness(sx, sK, domain=dom, bc=bc)
        return pym.Network(m1, m2), [sx], [sR], [('x', sx), ('K', sK), ('Ared', sR)]

    def design(self, seed, k):
        rng = _rng(seed, k, 18)
        dom = _domain(self.dims)
        x = 0.3 + 0.7 * rng.random(dom.nel)
        if not self.src:
            return [x]
        s = pym.Signal('x', x)
        m = pym.AssembleStiffness(s, pym.Signal('K'), domain=dom, bc=self._idx()[1])
        m.response()
        return [m.sig_out[0].state]

    def reference(self, vals, seeds):
        return None

    def post_reference(self, named):
        n, bc, main, free = self._idx()
        K = named['K'][0]
        if K.shape != (n, n):
            return None
        S = K[np.ix_(main, main)] - K[np.ix_(main, free)] @ np.linalg.solve(K[np.ix_(free, free)], K[np.ix_(free, main)])
        return {'Ared': (S, None)}


class NetAggregate:
    """x -> Aggregation(active set, undamped scaling to the true maximum) -> y -> Scaling(maxval) -> g : no documented memory involved"""
    def __init__(self, kind, scaled=True, n=9):
        self.kind, self.scaled, self.n = kind, scaled, n
        self.tol = 1e-11

    def build(self):
        sx, sy, sg = pym.Signal('x'), pym.Signal('y'), pym.Signal('g')
        cls = {'pnorm': pym.PNorm, 'ks': pym.KSFunction, 'soft': pym.SoftMinMax}[self.kind]
        kw = dict(active_set=pym.AggActiveSet(lower_amt=0.25))
        if self.scaled:
            kw['scaling'] = pym.AggScaling('max', 0.0)
        m1 = cls(sx, sy, 6.0, **kw)
        m2 = pym.Scaling(sy, sg, scaling=10.0, maxval=2.0)
        return pym.Network(m1, m2), [sx], [sg, sy], [('x', sx), ('y', sy), ('g', sg)]

    def design(self, seed, k):
        return [0.5 + np.random.default_rng([seed, k, 19]).permutation(self.n) * 0.125 + 0.01 * k]

    def reference(self, vals, seeds):
        x = vals[0]
        sel = np.sort(x)[int(self.n * 0.25):]          # the lowest 25 % (by count) are discarded
        if self.scaled:
            y = sel.max()
        elif self.kind == 'pnorm':
            y = np.sum(sel ** 6.0) ** (1 / 6.0)
        elif self.kind == 'ks':
            y = np.log(np.sum(np.exp(6.0 * sel))) / 6.0
        else:
            e = np.exp(6.0 * (sel - sel.max())); y = np.sum(sel * e) / np.sum(e)
        return {'y': (np.array(y), None), 'g': (np.array(10.0 * (y / 2.0 - 1)), None)}


class NetSlices:
    """SignalSlice inputs (basic and fancy index) and outputs, signals with pre-allocated sensitivities (keep_alloc):
    z[0:4]*z[idx] -> w (keep_alloc) ; LinSolve(A, w) -> u ; Split(u) -> yall[0:4], yall[4:6]"""
    def __init__(self, fancy=False):
        self.fancy = fancy
        self.tol = 1e-10

    def build(self):
        sz = pym.Signal('z', np.zeros(8), sensitivity=np.zeros(8))
        sA = pym.Signal('A')
        sw = pym.Signal('w', sensitivity=np.zeros(4))
        su = pym.Signal('u')
        sy = pym.Signal('yall', np.zeros(6))
        second = sz[np.array([7, 4, 6, 5])] if self.fancy else sz[4:8]
        m1 = pym.EinSum([sz[0:4], second], sw, expression='i,i->i')
        m2 = pym.LinSolve([sA, sw], su)
        o1, o2 = sy[0:4], sy[4:6]
        m3 = Split(su, [o1, o2])
        return pym.Network(m1, m2, m3), [sz, sA], [o1, o2], [('z', sz), ('A', sA), ('w', sw), ('u', su), ('yall', sy)]

    def design(self, seed, k):
        rng = _rng(seed, k, 20)
        return [rng.standard_normal(8), _decouple(_class_matrix('nonsym', 4, rng), k)]

    def reference(self, vals, seeds):
        z, A = vals
        idx = np.array([7, 4, 6, 5]) if self.fancy else np.arange(4, 8)
        w = z[:4] * z[idx]
        u = np.linalg.solve(A, w)
        return {'w': (w, None), 'u': (u, None), 'yall': (np.concatenate([2 * u, u[:2] * u[2:]]), None)}


NETS = {'linsolve': NetLinSolve, 'compliance': NetCompliance, 'eigdense': NetEigDense, 'eigsparse': NetEigSparse, 'overhang': NetOverhang,
        'assemble': NetAssemble, 'soe': NetSoE, 'condense': NetCondense, 'aggregate': NetAggregate, 'slices': NetSlices}


def make_net(spec):
    return NETS[spec[0]](*spec[1:])


# ------------------------------------------------------------------------------------------------ histories
def pattern_ops(pattern, nsrc, nout, seed):
    """Operation list of a named history (design 0 is reserved for the final cycle, except where it is re-used on purpose)"""
    S, Si, R, X, Z, W = (lambda k, which=None: ('set', k, which)), (lambda k: ('seti', k)), ('resp',), ('sens',), ('reset',), ('scrib',)
    D = lambda sid: ('seedall', sid)
    if pattern == 'empty':
        return []
    if pattern == 'loop3':
        return [op for k in (1, 2, 3) for op in (S(k), R, D(k), X, Z)]
    if pattern == 'noreset':
        return [op for k in (1, 2) for op in (S(k), R, D(k), X)]
    if pattern == 'double':
        return [S(1), R, R, D(1), X, X, Z, S(2), R, R]
    if pattern == 'dropped':
        return [S(1), R, D(1), Z, R, X, S(2), R]
    if pattern == 'same':
        return [S(0), R, D(0), X, Z, S(4), R, D(0), X, Z, S(0), R, D(0), X]
    if pattern == 'inplace':
        return [S(1), R, D(1), X, Z, Si(2), R, D(2), X, Z, Si(1), R]
    if pattern == 'scribble':
        return [S(1), R, D(1), X, Z, W, S(2), R, D(2), X, Z, W]
    if pattern == 'altseed':
        return [op for k in range(1, nout + 2) for op in (S(k), R, ('seed', (k - 1) % nout, k), X, Z)]
    if pattern == 'partial':
        return [S(1), R, D(1), X, Z, S(2, [0]), R, D(2), X, Z, S(3, [nsrc - 1]), R, D(3), X]
    if pattern == 'unseeded':
        return [S(1), R, X, D(1), X, Z, R, X]
    if isinstance(pattern, tuple) and pattern[0] == 'rand':
        rng = np.random.default_rng([seed, 99, pattern[1]])
        ops, responded = [S(int(rng.integers(1, 6))), R], True
        for _ in range(int(pattern[2]) if len(pattern) > 2 else 14):
            c = rng.random()
            if not responded:
                ops.append(R); responded = True
            elif c < 0.22:
                k = int(rng.integers(0, 6))
                which = None if rng.random() < 0.6 else [int(rng.integers(0, nsrc))]
                ops.append(S(k, which) if rng.random() < 0.7 else (Si(k) if which is None else S(k, which))); responded = False
            elif c < 0.36:
                ops.append(R)
            elif c < 0.58:
                ops.append(('seed', int(rng.integers(0, nout)), int(rng.integers(0, 4))) if rng.random() < 0.6 else D(int(rng.integers(0, 4))))
            elif c < 0.8:
                ops.append(X)
            elif c < 0.95:
                ops.append(Z)
            else:
                ops.extend([Z, W]); responded = False
        return ops
    raise ValueError(pattern)


PATTERNS = ['empty', 'loop3', 'noreset', 'double', 'dropped', 'same', 'inplace', 'scribble', 'altseed', 'partial', 'unseeded']


class Abort(Exception):
    pass


class Runner:
    """Interprets operations on one network object and records contract failures"""
    def __init__(self, net, seed, label):
        self.net, self.seed, self.label = net, seed, label
        self.fn, self.src, self.outs, self.sigs = net.build()
        self.fail = []
        self.cur = [None] * len(self.src)     # design index currently held by each source
        self.responded = False                # a response() has been run on the current inputs
        self.clean = True                     # no seed placed since the last reset / construction
        self.seedobj = {}                     # the caller re-uses its seed arrays (same objects) across rounds
        self.i = -1
        ins = []

        def collect(m):
            for mm in getattr(m, 'mods', []):
                collect(mm)
            if not hasattr(m, 'mods'):
                ins.extend(m.sig_in)
        collect(self.fn)
        self.consumed = [any(o is s for s in ins) for o in self.outs]

    def add(self, kind, what, detail=None):
        self.fail.append(dict(kind=kind, what=f'[{self.label} op {self.i}] {what}', detail=detail))

    def snapshot(self):
        return {nm: (dense(s.state), dense(s.sensitivity)) for nm, s in self.sigs}

    def check_sources(self):
        for i, s in enumerate(self.src):
            if self.cur[i] is None:
                continue
            want = dense(self.net.design(self.seed, self.cur[i])[i])
            got = dense(s.state)
            if got is None or got.shape != want.shape or not np.array_equal(got, want):
                self.add('input-modified', f'the state of source signal {i} is no longer the value the caller set (design {self.cur[i]})',
                         dict(got_shape=None if got is None else got.shape, want_shape=want.shape))

    def op(self, o):
        self.i += 1
        try:
            self._op(o)
        except Abort:
            raise
        except Exception as e:
            self.add('exception', f'{o[0]} raised {type(e).__name__}: {str(e).splitlines()[0][:160]}')
            raise Abort()

    def _op(self, o):
        kind = o[0]
        if kind in ('set', 'seti'):
            vals = self.net.design(self.seed, o[1])
            which = range(len(self.src)) if kind == 'seti' or o[2] is None else o[2]
            for i in which:
                s, v = self.src[i], vals[i]
                old = s.state
                if kind == 'seti' and isinstance(old, np.ndarray) and isinstance(v, np.ndarray) and old.shape == v.shape and old.dtype == v.dtype:
                    old[...] = v                      # the optimiser updates its design array in place
                elif kind == 'seti' and sps.issparse(old) and sps.issparse(v) and old.nnz == v.nnz and np.array_equal(old.indices, v.indices) \
                        and np.array_equal(old.indptr, v.indptr) and old.dtype == v.dtype:
                    old.data[...] = v.data
                else:
                    s.state = v
                self.cur[i] = o[1]
            self.responded = False
        elif kind == 'resp':
            self.fn.response()
            self.responded = True
            self.check_sources()
        elif kind in ('seed', 'seedall'):
            if not self.responded:
                return
            for j in (range(len(self.outs)) if kind == 'seedall' else [o[1]]):
                st = self.outs[j].state
                key = (j, o[-1], np.shape(dense(st)), np.iscomplexobj(dense(st)))
                if key not in self.seedobj:
                    self.seedobj[key] = make_seed(self.seed, j, o[-1], st)
                # the caller re-uses its own seed array on terminal outputs; an output that is also consumed by a later module gets a
                # copy, because the framework by design accumulates the downstream contribution into the assigned array
                v = self.seedobj[key]
                self.outs[j].sensitivity = np.array(v) if (self.consumed[j] and isinstance(v, np.ndarray)) else v
            self.clean = False
        elif kind == 'sens':
            if not self.responded:
                return
            if self.clean:
                before = self.snapshot()
                self.fn.sensitivity()
                after = self.snapshot()
                for nm in before:
                    if not same_exact(before[nm][0], after[nm][0]):
                        self.add('unseeded-sensitivity', f'sensitivity() without any seed changed the state of {nm}')
                    if not is_zero_or_none(after[nm][1]):
                        self.add('unseeded-sensitivity', f'sensitivity() without any seed produced a sensitivity on {nm}', after[nm][1])
            else:
                self.fn.sensitivity()
                self.check_sources()
        elif kind == 'reset':
            self.fn.reset()
            self.clean = True
            for nm, s in self.sigs:
                if not is_zero_or_none(s.sensitivity):
                    self.add('reset-left-sensitivity', f'after reset() signal {nm} still carries a non-zero sensitivity', dense(s.sensitivity))
            for key, v in self.seedobj.items():
                w = make_seed(self.seed, key[0], key[1], np.zeros(key[2], dtype=complex if key[3] else float))
                if not np.array_equal(np.asarray(v), np.asarray(w)):
                    self.add('seed-modified', f'the seed array the caller placed on output {key[0]} was modified by the network')
                    self.seedobj[key] = w
        elif kind == 'scrib':
            srcids = {id(s) for s in self.src}
            for nm, s in self.sigs:
                if id(s) in srcids or isinstance(s, pym.core_objects.SignalSlice):
                    continue
                st = s.state
                if isinstance(st, np.ndarray) and st.ndim > 0 and not isinstance(st, np.matrix):
                    st *= -3.7; st += 0.123            # the caller re-uses (overwrites) arrays that were returned to it
                elif sps.issparse(st):
                    st.data *= -3.7
            self.responded = False
        else:
            raise ValueError(o)


def final_ops(final, nout, inplace):
    ops = [('reset',), ('seti', FINAL) if inplace else ('set', FINAL, None), ('resp',)]
    if final == 'all':
        ops.append(('seedall', 0))
    elif final != 'none':
        ops.append(('seed', final[1] % nout, 0))
    return ops + [('sens',)]


def run_fresh(net, seed, final, label):
    r = Runner(net, seed, label)
    try:
        for o in final_ops(final, len(r.outs), False)[1:]:
            r.op(o)
    except Abort:
        return r, None
    return r, r.snapshot()


_FRESH = {}


def fresh_reference(spec, seed, final):
    """The freshly constructed network evaluated once on design 0 and the final seeds (computed once per process, before any history of
    that net has run), checked against the independent references.  Returns (failures reported on first use, snapshot)"""
    key = repr((spec, seed, final))
    if key in _FRESH:
        return [], _FRESH[key]
    net = make_net(spec)
    f1, snap1 = run_fresh(net, seed, final, 'fresh network')
    fails = list(f1.fail)
    _FRESH[key] = snap1
    if snap1 is None:
        return fails, None
    vals = net.design(seed, FINAL)
    seeds = []
    for j, o in enumerate(f1.outs):
        use = final == 'all' or (final != 'none' and final[1] % len(f1.outs) == j)
        seeds.append(make_seed(seed, j, 0, o.state) if use else None)
    ref = net.reference(vals, seeds) or {}
    if hasattr(net, 'post_reference'):
        ref.update(net.post_reference(snap1) or {})
    rtol = max(net.tol, 1e-9) * 10
    for nm, (st, se) in ref.items():
        d = differs(snap1[nm][0], np.asarray(st), rtol) if st is not None else None
        if d:
            fails.append(dict(kind='reference', what=f'fresh network: state of {nm} differs from the independent reference: {d}', detail=None))
        if se is not None and final == 'all':
            d = differs(snap1[nm][1], np.asarray(se), rtol, none_is_zero=True)
            if d:
                fails.append(dict(kind='reference', what=f'fresh network: sensitivity of {nm} differs from the independent reference: {d}', detail=None))
    return fails, snap1


def run_case(spec, pattern, seed, final='all'):
    """Returns the list of contract failures (empty = the property holds on this case)"""
    net = make_net(spec)
    fails, snap1 = fresh_reference(spec, seed, final)
    if snap1 is None:
        return fails or [dict(kind='exception', what='the fresh network could not be evaluated (see the first case of this net)', detail=None)]
    # the history on one object
    h = Runner(net, seed, f'history {pattern}')
    ops = pattern_ops(pattern, len(h.src), len(h.outs), seed) + final_ops(final, len(h.outs), pattern == 'inplace' or (isinstance(pattern, tuple) and pattern[1] % 2 == 1))
    try:
        for o in ops:
            h.op(o)
        snap = h.snapshot()
        for nm in snap1:
            d = differs(snap[nm][0], snap1[nm][0], net.tol)
            if d:
                h.add('history-state', f'state of {nm} after the final cycle differs from the fresh network: {d}', dict(history=snap[nm][0], fresh=snap1[nm][0]))
            d = differs(snap[nm][1], snap1[nm][1], net.tol, none_is_zero=True)
            if d:
                h.add('history-sensitivity', f'sensitivity of {nm} after the final cycle differs from the fresh network: {d}', dict(history=snap[nm][1], fresh=snap1[nm][1]))
        h.op(('reset',))          # reset leaves nothing behind, and an un-seeded sensitivity() afterwards changes nothing
        h.op(('sens',))
    except Abort:
        pass
    fails += h.fail
    # a network constructed after the history ran must not be influenced by the other object's history either
    if not (pattern == 'loop3' or isinstance(pattern, tuple)):
        return fails
    f2, snap2 = run_fresh(net, seed, final, 'fresh network built after the history')
    fails += f2.fail
    if snap2 is not None:
        for nm in snap1:
            d = differs(snap2[nm][0], snap1[nm][0], net.tol) or differs(snap2[nm][1], snap1[nm][1], net.tol, none_is_zero=True)
            if d:
                fails.append(dict(kind='cross-object', what=f'a network constructed after another object ran its history gives a different {nm}: {d}', detail=None))
    return fails


# ------------------------------------------------------------------------------------------------ EigenSolve: partially seeded outputs
def eig_reference_sens(vals, lam, wl, WQ):
    """Independent adjoint of (lam, Q) for a real symmetric pencil with simple eigenvalues, from a FULL dense eigen-decomposition
    (numpy.linalg.eigh, Cholesky-reduced for the generalised problem), normalisation q_i.B.q_j = delta_ij, sign mean(q_i) > 0:
       dA = sum_i [ wl_i q_i q_i^T + sum_{j != i} (q_j.w_i) / (lam_i - lam_j) q_j q_i^T ]
       dB = sum_i [ -lam_i (the same bracket) - (w_i.q_i) / 2  q_i q_i^T ]
    wl / WQ are the seeds on the module's eigenvalues / eigenvector columns (None = not seeded); returns (dA, dB or None)"""
    A = dense(vals[0])
    n = A.shape[0]
    if len(vals) > 1:
        B = dense(vals[1])
        Li = np.linalg.inv(np.linalg.cholesky(B))
        w, Y = np.linalg.eigh(Li @ A @ Li.T)
        V = Li.T @ Y
    else:
        w, V = np.linalg.eigh(A)
    V = V * np.where(V.mean(axis=0) >= 0, 1.0, -1.0)[None, :]
    dA = np.zeros((n, n))
    dB = np.zeros((n, n))
    for i, li in enumerate(np.asarray(lam)):
        mi = int(np.argmin(np.abs(w - li)))
        qi = V[:, mi]
        T = np.zeros((n, n))
        if wl is not None:
            T += wl[i] * np.outer(qi, qi)
        if WQ is not None:
            for j in range(n):
                if j != mi:
                    T += (V[:, j] @ WQ[:, i]) / (w[mi] - w[j]) * np.outer(V[:, j], qi)
            dB -= 0.5 * (WQ[:, i] @ qi) * np.outer(qi, qi)
        dA += T
        dB -= w[mi] * T
    return dA, (dB if len(vals) > 1 else None)


def _sel(sel, m):
    return list(range(m)) if sel == 'all' else [c % m for c in sel]


def eig_partial_rounds(variant, seed):
    """Rounds (design, matrices updated in place?, [seed spec, ...]); a seed spec is (eigenvalues seeded, eigenvector columns seeded), each
    None / 'all' / tuple of indices (taken modulo the number of modes).  Within a round the matrix is set and response() is called ONCE;
    then for every seed spec: place the seed, sensitivity(), compare, reset() -- so from the second spec on, sensitivity() runs after a
    reset() WITHOUT a new response(), for columns that were last seeded in an earlier round for an earlier matrix."""
    Q = lambda *c: (None, tuple(c))
    if variant == 'subset-then-other-column':
        return [(1, False, [(None, 'all')]), (2, False, [Q(0), Q(1), Q(2)]), (3, False, [Q(2), Q(0), Q(1, 2)]), (0, False, [('all', None), Q(1), Q(0, 2)])]
    if variant == 'eigenvalues-then-column':
        return [(1, False, [Q(1)]), (2, False, [('all', None), Q(1)]), (3, False, [((0,), None), ((1,), (1,)), Q(0)]), (1, False, [((2,), (2,)), Q(1)]),
                (4, False, [((0, 2), None), Q(2), Q(0)])]
    if variant == 'rotating-inplace':
        return [(1, True, [(None, 'all')]), (2, True, [Q(1), Q(2)]), (3, True, [Q(2), Q(0)]), (4, True, [Q(0), Q(1)]), (5, True, [Q(1), Q(2), Q(0)])]
    if variant == 'last-columns':
        return [(1, False, [('all', 'all')]), (2, False, [Q(-1), Q(-2)]), (3, True, [Q(-2), Q(-1), Q(0)]), (0, False, [Q(-1), Q(-3), ('all', 'all')])]
    if isinstance(variant, tuple) and variant[0] == 'rand':
        rng = np.random.default_rng([seed, 77, variant[1]])
        rounds = [(int(rng.integers(0, 6)), bool(rng.integers(0, 2)), [(None, 'all')])]
        for _ in range(4):
            specs = []
            for _ in range(int(rng.integers(2, 4))):
                lam = None if rng.random() < 0.6 else tuple(int(c) for c in rng.choice(6, int(rng.integers(1, 3)), replace=False))
                cols = None if (lam is not None and rng.random() < 0.4) else tuple(int(c) for c in rng.choice(6, int(rng.integers(1, 3)), replace=False))
                specs.append((lam, cols))
            rounds.append((int(rng.integers(0, 6)), bool(rng.integers(0, 2)), specs))
        return rounds
    raise ValueError(variant)


EIG_PARTIAL = ['subset-then-other-column', 'eigenvalues-then-column', 'rotating-inplace', 'last-columns']


def _eig_seeds(seed, sid, outs, spec):
    """Seeds that are exactly zero outside the selected eigenvalues / eigenvector columns (None: the output is not seeded at all)"""
    lam, Q = outs[0].state, outs[1].state
    m = lam.size
    wl = WQ = None
    if spec[0] is not None:
        full = make_seed(seed, 0, sid, lam)
        wl = np.zeros_like(full); k = _sel(spec[0], m); wl[k] = full[k]
    if spec[1] is not None:
        full = make_seed(seed, 1, sid, Q)
        WQ = np.zeros_like(full); k = _sel(spec[1], m); WQ[:, k] = full[:, k]
    return wl, WQ


def _set_sources(src, vals, inplace):
    for s, v in zip(src, vals):
        old = s.state
        if inplace and isinstance(old, np.ndarray) and isinstance(v, np.ndarray) and old.shape == v.shape and old.dtype == v.dtype:
            old[...] = v
        elif inplace and sps.issparse(old) and sps.issparse(v) and old.nnz == v.nnz and np.array_equal(old.indices, v.indices) \
                and np.array_equal(old.indptr, v.indptr) and old.dtype == v.dtype:
            old.data[...] = v.data
        else:
            s.state = v


_FRESH_PART = {}


def fresh_partial(spec, seed, k, sp):
    """A freshly constructed network evaluated ONCE on design k with the partial seed sp (computed once per process and re-used as the
    reference of every history step with these inputs and seeds).  Returns (snapshot, failures of the independent reference)"""
    key = repr((spec, seed, k, sp))
    if key not in _FRESH_PART:
        net = make_net(spec)
        fn2, src2, outs2, sigs2 = net.build()
        vals = net.design(seed, k)
        for s, v in zip(src2, vals):
            s.state = v
        fn2.response()
        wl2, WQ2 = _eig_seeds(seed, 3, outs2, sp)
        if wl2 is not None:
            outs2[0].sensitivity = wl2
        if WQ2 is not None:
            outs2[1].sensitivity = WQ2
        fn2.sensitivity()
        snap = {nm: (dense(s.state), dense(s.sensitivity)) for nm, s in sigs2}
        ref_fails = []
        if spec[1] in ('sym', 'gen'):      # real symmetric pencils: the independent dense adjoint
            ref = eig_reference_sens([dense(v) for v in vals], dense(outs2[0].state), wl2, WQ2)
            for (nm, s2), rf in zip(sigs2[:len(src2)], ref):
                d = differs(dense(s2.sensitivity), rf, 1e-8, none_is_zero=True)
                if d:
                    ref_fails.append(f'fresh network (design {k}, seed {sp}): sensitivity of {nm} differs from the independent dense adjoint: {d}')
        _FRESH_PART[key] = (snap, ref_fails)
    return _FRESH_PART[key]


def eig_partial_case(spec, variant, seed):
    """EigenSolve histories with partially seeded outputs (see eig_partial_rounds).  After every sensitivity() all states and sensitivities
    equal those of a freshly constructed network evaluated once on the current matrices with the same seed; for real symmetric pencils the
    matrix sensitivities also equal the independent dense adjoint (eig_reference_sens); after every reset() nothing is left."""
    net = make_net(spec)
    fails = []
    where = ['']

    def add(kind, what):
        fails.append(dict(kind=kind, what=f'[{variant} {where[0]}] {what}', detail=None))
    fn, src, outs, sigs = net.build()
    try:
        for ir, (k, inplace, specs) in enumerate(eig_partial_rounds(variant, seed)):
            vals = net.design(seed, k)
            _set_sources(src, vals, inplace)
            fn.response()
            for istep, sp in enumerate(specs):
                where[0] = f'round {ir} (design {k}) step {istep} seed {sp}'
                m = outs[0].state.size
                sp = tuple(None if c is None else tuple(sorted(set(_sel(c, m)))) for c in sp)      # canonical form (indices modulo the number of modes)
                wl, WQ = _eig_seeds(seed, 3, outs, sp)
                keep = [None if w is None else w.copy() for w in (wl, WQ)]
                if wl is not None:
                    outs[0].sensitivity = wl
                if WQ is not None:
                    outs[1].sensitivity = WQ
                fn.sensitivity()
                snap = {nm: (dense(s.state), dense(s.sensitivity)) for nm, s in sigs}
                snap2, ref_fails = fresh_partial(spec, seed, k, sp)
                for what in ref_fails:
                    add('reference', what)
                for nm in snap2:
                    d = differs(snap[nm][0], snap2[nm][0], net.tol)
                    if d:
                        add('history-state', f'state of {nm} differs from the fresh network: {d}')
                    d = differs(snap[nm][1], snap2[nm][1], net.tol, none_is_zero=True)
                    if d:
                        add('history-sensitivity', f'sensitivity of {nm} differs from the fresh network: {d}')
                for i, (s, v) in enumerate(zip(src, vals)):
                    if not np.array_equal(dense(s.state), dense(v)):
                        add('input-modified', f'the state of source signal {i} is no longer the value the caller set')
                for w, w0 in zip((wl, WQ), keep):
                    if w is not None and not np.array_equal(w, w0):
                        add('seed-modified', 'the seed array the caller placed on an output was modified by the network')
                fn.reset()
                for nm, s in sigs:
                    if not is_zero_or_none(s.sensitivity):
                        add('reset-left-sensitivity', f'after reset() signal {nm} still carries a non-zero sensitivity')
    except Exception as e:
        add('exception', f'raised {type(e).__name__}: {str(e).splitlines()[0][:160] if str(e) else ""}')
    return fails


# ------------------------------------------------------------------------------------------------ documented memories
def memory_case(kind, seed, damping=0.5):
    """The documented memories behave exactly as documented and are the only history dependence:
    'scaling': y = s*x/|x_first| for every later call (also across reset) ; 'damped': s_k = d*s_(k-1) + (1-d)*true/approx over every response"""
    fails = []
    rng = np.random.default_rng([seed, 31])
    if kind == 'scaling':
        sx, sy = pym.Signal('x'), pym.Signal('y')
        m = pym.Network(pym.Scaling(sx, sy, scaling=50.0))
        xs = [rng.standard_normal(3) + 2.0 for _ in range(4)]
        for k, x in enumerate(xs + [xs[1]]):
            sx.state = x
            m.response()
            want = 50.0 * x / np.linalg.norm(xs[0])
            d = differs(dense(sy.state), want, 1e-13)
            if d:
                fails.append(dict(kind='memory', what=f'Scaling call {k}: y != s*x/|x_first|: {d}', detail=None))
            sd = rng.standard_normal(3)
            sy.sensitivity = sd
            m.sensitivity()
            d = differs(dense(sx.sensitivity), 50.0 * sd / np.linalg.norm(xs[0]), 1e-13)
            if d:
                fails.append(dict(kind='memory', what=f'Scaling call {k}: dx != s*dy/|x_first|: {d}', detail=None))
            m.reset()
            if not is_zero_or_none(sx.sensitivity) or not is_zero_or_none(sy.sensitivity):
                fails.append(dict(kind='reset-left-sensitivity', what=f'Scaling call {k}: reset left a sensitivity', detail=None))
    else:
        sx, sy = pym.Signal('x'), pym.Signal('y')
        m = pym.Network(pym.KSFunction(sx, sy, 4.0, scaling=pym.AggScaling('max', damping)))
        sf = None
        for k in range(6):
            x = 0.5 + rng.random(5)
            sx.state = x
            for rep in range(1 + k % 2):
                m.response()
                approx = np.log(np.sum(np.exp(4.0 * x))) / 4.0
                sc = x.max() / approx
                sf = sc if sf is None else damping * sf + (1 - damping) * sc
                d = differs(dense(sy.state), np.array(sf * approx), 1e-12)
                if d:
                    fails.append(dict(kind='memory', what=f'damped AggScaling round {k}.{rep}: y != s_k*approx: {d}', detail=None))
            sy.sensitivity = 1.0
            m.sensitivity()
            e = np.exp(4.0 * (x - x.max()))
            d = differs(dense(sx.sensitivity), sf * e / e.sum(), 1e-12)
            if d:
                fails.append(dict(kind='memory', what=f'damped AggScaling round {k}: dx != s_k*softmax: {d}', detail=None))
            m.reset()
            if not is_zero_or_none(sx.sensitivity):
                fails.append(dict(kind='reset-left-sensitivity', what=f'round {k}: reset left a sensitivity', detail=None))
    return fails


# ------------------------------------------------------------------------------------------------ reset / un-seeded primitives
class Spy(pym.Module):
    """Counts calls; y = a*x"""
    def _prepare(self, a=2.0):
        self.a, self.n_sens, self.n_reset = a, 0, 0

    def _response(self, *xs):
        return [self.a * x for x in xs] if len(self.sig_out) > 1 else self.a * xs[0]

    def _sensitivity(self, *dys):
        self.n_sens += 1
        return [None if dy is None else self.a * dy for dy in dys]

    def _reset(self):
        self.n_reset += 1


def primitive_case(name, arg, seed):
    fails = []

    def bad(what, detail=None):
        fails.append(dict(kind='primitive', what=f'[{name} {arg}] {what}', detail=detail))
    rng = np.random.default_rng([seed, 41])
    if name == 'signal_reset':
        kind, prealloc, keep = arg       # value kind, constructed with allocated sensitivity?, reset(keep_alloc=?)
        val = {'vec': rng.standard_normal(4), 'mat': rng.standard_normal((2, 3)), 'cvec': rng.standard_normal(3) + 1j, 'scalar': 1.5,
               'dyad': pym.DyadCarrier(rng.standard_normal(3), rng.standard_normal(3))}[kind]
        zero = None if not prealloc else (np.zeros_like(val) if isinstance(val, np.ndarray) else (0.0 if kind == 'scalar' else pym.DyadCarrier(np.zeros(3), np.zeros(3))))
        s = pym.Signal('s', 1.0, sensitivity=zero)
        pristine = dense(val).copy()
        s.add_sensitivity(val)
        s.add_sensitivity(val.copy() if hasattr(val, 'copy') else val)
        if differs(dense(s.sensitivity), 2 * pristine, 1e-14):
            bad('two add_sensitivity calls do not give twice the value')
        held = s.sensitivity
        s.reset() if keep is None else s.reset(keep_alloc=keep)
        keeps = prealloc if keep is None else keep
        if not is_zero_or_none(s.sensitivity):
            bad('reset left a non-zero sensitivity', dense(s.sensitivity))
        if not keeps and s.sensitivity is not None:
            bad('reset without keep_alloc must leave None')
        if keeps and kind in ('vec', 'mat', 'cvec') and s.sensitivity is not held:
            bad('reset with keep_alloc must keep the allocation')
        s.add_sensitivity(val)
        if differs(dense(s.sensitivity), dense(val), 1e-14):
            bad('after reset the next add_sensitivity must give exactly the new value (nothing stale)', dense(s.sensitivity))
        if differs(dense(val), pristine, 0):
            bad('argument of add_sensitivity modified')
    elif name == 'slice_reset':
        sl = {'basic': slice(1, 4), 'step': slice(0, 6, 2), 'fancy': np.array([5, 0, 2]), 'int': 3, '2d': (1, slice(0, 3))}[arg]
        base = pym.Signal('b', rng.standard_normal((2, 6)) if arg == '2d' else rng.standard_normal(6))
        part = base[sl]
        if part.sensitivity is not None:
            bad('slice of an un-seeded base must have no sensitivity')
        v = rng.standard_normal(np.shape(part.state))
        part.add_sensitivity(v)
        other = base[slice(0, 6)] if arg != '2d' else base[(0, slice(0, 6))]
        full = dense(base.sensitivity).copy()
        want = np.zeros_like(base.state); want[sl] = v
        if differs(full, want, 1e-15):
            bad('add_sensitivity on a slice must touch exactly the slice of the base', full)
        part.reset()
        if not is_zero_or_none(base.sensitivity):
            bad('reset of the only seeded slice must leave the base sensitivity zero / None', dense(base.sensitivity))
        part.add_sensitivity(v); other.add_sensitivity(np.ones(6))
        part.reset()
        want = np.zeros_like(base.state)
        if arg == '2d':
            want[0, :] = 1.0; want[sl] = 0
        else:
            want[:] = 1.0; want[sl] = 0
        if differs(dense(base.sensitivity), want, 1e-15):
            bad('reset of one slice must zero exactly that slice and keep the rest', dense(base.sensitivity))
        base.reset()
        if base.sensitivity is not None or part.sensitivity is not None:
            bad('reset of the base must clear the sensitivity seen through its slices')
        part.reset()          # reset with nothing to reset is a no-op
        if base.sensitivity is not None:
            bad('reset of a slice without sensitivity must not allocate one')
    elif name == 'network_reset':
        depth, width = arg
        x = pym.Signal('x', rng.standard_normal(3))
        sigs, mods, cur = [x], [], x
        for i in range(width):
            nxt = pym.Signal(f's{i}')
            mods.append(Spy(cur, nxt, 1.0 + i)); sigs.append(nxt); cur = nxt
        fn = pym.Network(*mods)
        for _ in range(depth):
            fn = pym.Network(fn)
        twin = [pym.Signal('t1', 1.0), pym.Signal('t2')]
        mods.append(Spy(twin[0], twin[1]))
        fn = pym.Network(fn, mods[-1])
        fn.response()
        fn.sensitivity()
        if any(m.n_sens for m in mods) or any(s.sensitivity is not None for s in sigs + twin):
            bad('sensitivity() without any seed must not call any _sensitivity nor create sensitivities', [m.n_sens for m in mods])
        cur.sensitivity = np.ones(3)
        fn.sensitivity()
        if [m.n_sens for m in mods] != [1] * width + [0]:
            bad('seeded branch: every module on the path exactly once, the un-seeded branch not at all', [m.n_sens for m in mods])
        if differs(dense(x.sensitivity), np.ones(3) * np.prod([1.0 + i for i in range(width)]), 1e-14):
            bad('chain sensitivity wrong')
        fn.reset()
        if [m.n_reset for m in mods] != [1] * (width + 1):
            bad('reset must reach every module (also in nested networks) exactly once', [m.n_reset for m in mods])
        if any(s.sensitivity is not None for s in sigs + twin):
            bad('reset must clear every input and output signal', [s.tag for s in sigs + twin if s.sensitivity is not None])
        fn.sensitivity()
        if [m.n_sens for m in mods] != [1] * width + [0] or any(s.sensitivity is not None for s in sigs + twin):
            bad('sensitivity() after reset() (no new seed) must do nothing', [m.n_sens for m in mods])
    elif name == 'module_reset':
        nin, nout = arg
        ins = [pym.Signal(f'i{k}', rng.standard_normal(2)) for k in range(nin)]
        outs = [pym.Signal(f'o{k}') for k in range(nout)]

        class Mix(pym.Module):
            def _response(self, *xs):
                return [sum(xs) * (k + 1) for k in range(len(self.sig_out))]

            def _sensitivity(self, *dys):
                t = sum((k + 1) * dy for k, dy in enumerate(dys) if dy is not None)
                return [t for _ in self.sig_in]
        m = Mix(ins, outs)
        m.response()
        outs[-1].sensitivity = np.ones(2)
        m.sensitivity(); m.sensitivity()
        if any(differs(dense(s.sensitivity), 2.0 * nout * np.ones(2), 1e-14) for s in ins):
            bad('two sensitivity() calls accumulate twice the value on every input')
        m.reset()
        left = [s.tag for s in ins + outs if s.sensitivity is not None]
        if left:
            bad('Module.reset must clear all inputs and all outputs', left)
        outs[0].sensitivity = np.ones(2)
        m.sensitivity()
        if any(differs(dense(s.sensitivity), np.ones(2), 1e-14) for s in ins):
            bad('after reset only the new seed may contribute', [dense(s.sensitivity) for s in ins])
    elif name == 'signal_reset_nonfinite':
        kind, how, badkind = arg      # sensitivity kind; 'prealloc' (constructed with a sensitivity, reset()) / 'keep' (ordinary, reset(keep_alloc=True)); poison
        bv = {'inf': np.inf, '-inf': -np.inf, 'nan': np.nan}.get(badkind)
        shape = {'vec': (5,), 'mat': (2, 3), 'cvec': (4,), 'zerod': (), 'czerod': (), 'ivec': (4,)}.get(kind)
        if kind in ('pyfloat', 'npfloat', 'pycomplex'):
            conv = {'pyfloat': float, 'npfloat': np.float64, 'pycomplex': complex}[kind]
            zero, val = conv(0.0), conv(1.5)
            poison = conv(np.inf if badkind == 'mixed' else bv) if kind != 'pycomplex' else complex(np.inf if badkind == 'mixed' else bv, -np.inf if badkind == 'mixed' else 0.0)
        elif kind == 'ivec':        # integer-valued sensitivity: cannot hold inf / nan, the largest representable values take their place
            zero, val = np.zeros(shape, dtype=np.int64), np.arange(1, 5, dtype=np.int64)
            poison = np.array([np.iinfo(np.int64).max // 4, -(np.iinfo(np.int64).max // 4), 0, 7], dtype=np.int64)
        else:
            cplx = kind in ('cvec', 'czerod')
            zero = np.zeros(shape, dtype=complex if cplx else float)
            val = np.asarray(rng.standard_normal(shape) + (1j * rng.standard_normal(shape) if cplx else 0.0))
            poison = np.zeros(shape, dtype=zero.dtype)
            flat = poison.reshape(-1)
            pattern = [np.inf, np.nan, 0.0, -np.inf, 2.0, np.nan] if badkind == 'mixed' else [bv, 0.0, bv, 1.0, bv, bv]
            flat[:] = pattern[:flat.size]
            if cplx:
                flat[-1] = complex(1.0, np.inf) if badkind == 'mixed' else complex(0.0, bv)
            poison = poison.reshape(shape)
        isarr = isinstance(zero, np.ndarray)
        s = pym.Signal('s', 1.0, sensitivity=(zero.copy() if isarr else zero) if how == 'prealloc' else None)
        with np.errstate(all='ignore'):
            for rnd in range(2):          # the poison arrives in the first round; the second round must be clean
                s.add_sensitivity(val.copy() if isarr else val)
                if rnd == 0:
                    s.add_sensitivity(poison.copy() if isarr else poison)
                    if kind != 'ivec' and np.all(np.isfinite(dense(s.sensitivity))):
                        bad('set-up: the sensitivity holds no non-finite value before reset()')
                elif differs(dense(s.sensitivity), dense(val), 0):
                    bad('after reset() the next add_sensitivity does not give exactly the new value (something of the earlier round is left)', dense(s.sensitivity))
                held = s.sensitivity
                s.reset() if how == 'prealloc' else s.reset(keep_alloc=True)
                z = s.sensitivity
                if z is None:
                    bad('reset with keep_alloc must keep an allocated (zero) sensitivity, got None')
                    break
                zd = dense(z)
                if zd.shape != np.shape(zero) or not np.array_equal(zd, np.zeros_like(zd)):
                    bad(f'round {rnd}: after reset() with keep_alloc every entry of the sensitivity must be exactly 0', zd)
                    if not isarr:
                        break
                if isarr and (z is not held or z.dtype != zero.dtype):
                    bad('reset with keep_alloc must keep the allocation (same array, same dtype)', str(getattr(z, 'dtype', type(z))))
                if not isarr and np.iscomplexobj(zd) != np.iscomplexobj(zero):
                    bad('reset with keep_alloc changed the kind (real / complex) of a scalar sensitivity')
    elif name == 'network_reset_nonfinite':
        kind, variant = arg       # x -> Root (y = sqrt(x), dx = dy / (2 sqrt(x)): inf / nan where x = 0) -> y ; x has a pre-allocated sensitivity
        class Root(pym.Module):
            def _response(self, x):
                return np.sqrt(x)

            def _sensitivity(self, dy):
                return dy * 0.5 / np.sqrt(self.sig_in[0].state)
        shape = {'vec': (5,), 'cvec': (4,), 'mat': (2, 3), 'zerod': (), 'pyfloat': None}[kind]
        cplx = kind == 'cvec'

        def value(k, zeros):
            g = np.random.default_rng([seed, 43, k])
            if shape is None:
                return 0.0 if zeros else float(0.5 + g.random())
            x = np.asarray(0.5 + g.random(shape) + (1j * g.random(shape) if cplx else 0.0))
            if zeros:
                x.reshape(-1)[::2] = 0.0
            return x

        def seed_of(k):
            g = np.random.default_rng([seed, 44, k])
            if shape is None:
                return float(1.0 + g.random())
            w = np.asarray(1.0 + g.random(shape) + (1j * g.random(shape) if cplx else 0.0))
            if w.ndim:
                w.reshape(-1)[-1] = 0.0          # 0 * inf = nan where x = 0 and the seed is 0; inf where the seed is not 0
            return w

        def build():
            x0 = value(0, False)
            zero = 0.0 if shape is None else np.zeros(shape, dtype=complex if cplx else float)
            sx, sy = pym.Signal('x', x0, sensitivity=zero), pym.Signal('y')
            return pym.Network(Root(sx, sy)), sx, sy
        fn, sx, sy = build()
        held = sx.sensitivity
        plan = {'poison-once': [(1, False), (2, True), (3, False), (1, False)], 'poison-twice-no-reset': [(1, False), (2, True, 2), (3, False)],
                'poison-first': [(2, True), (1, False), (2, True), (3, False)]}[variant]
        with np.errstate(all='ignore'):
            for step, item in enumerate(plan):
                k, zeros, reps = item[0], item[1], (item[2] if len(item) > 2 else 1)
                sx.state = value(k, zeros)
                fn.response()
                sy.sensitivity = seed_of(k)
                for _ in range(reps):
                    fn.sensitivity()
                got = dense(sx.sensitivity)
                if zeros:
                    if np.all(np.isfinite(got)):
                        bad(f'set-up, step {step}: the module did not produce a non-finite sensitivity')
                else:
                    want = np.asarray(seed_of(k) * 0.5 / np.sqrt(value(k, False)))       # closed form; identical to what a fresh network gives
                    fn2, sx2, sy2 = build()
                    sx2.state = value(k, False); fn2.response(); sy2.sensitivity = seed_of(k); fn2.sensitivity()
                    if differs(got, want, 1e-14) or differs(got, dense(sx2.sensitivity), 1e-14):
                        bad(f'step {step}: the sensitivity of x differs from the fresh network / the closed form dy / (2 sqrt(x)) (an earlier round produced inf / nan)', got)
                fn.reset()
                z = sx.sensitivity
                if z is None:
                    bad(f'step {step}: reset() dropped the pre-allocated sensitivity of x')
                    break
                zd = dense(z)
                if not np.array_equal(zd, np.zeros_like(zd)):
                    bad(f'step {step}: after reset() every entry of the pre-allocated sensitivity of x must be exactly 0', zd)
                    if shape is None:
                        break
                if shape is not None and z is not held:
                    bad(f'step {step}: reset() replaced the pre-allocated sensitivity array of x')
                if sy.sensitivity is not None:
                    bad(f'step {step}: reset() left the seed on y')
    else:
        raise ValueError(name)
    return fails
