"""C18 bounded stand-ins: Signal / SignalSlice against plain-array semantics.
The reference (native/C18_model.py) keeps one flat array per base signal and addresses slices through explicit flat-index maps; after EVERY
operation of a history the state and sensitivity of every base signal and of every slice (persistent object and freshly created) are compared
exactly (shape, dtype, values; all data dyadic so the arithmetic is exact)."""
import copy
import itertools
import os
import warnings
import numpy as np
import pymoto as pym
from native.util import bound, REPLAY_HEAD
from native import C18_model as M

MODEL_SRC = open(os.path.join(os.path.dirname(os.path.abspath(__file__)), 'C18_model.py')).read()

# key chains per base shape: integers, basic slices (steps, negative, empty, full), tuples of slices, Ellipsis/newaxis, integer arrays without
# repeats (unsorted, negative, lists, 2-D index arrays, several arrays, ix_), boolean masks, nested basic slices (2 and 3 levels), basic -> array.
CAT = {
    (7,): [("2",), ("-1",), ("np.s_[1:5]",), ("np.s_[::2]",), ("np.s_[::-1]",), ("np.s_[5:1:-2]",), ("np.s_[-3:]",), ("np.s_[3:3]",), ("np.s_[:]",),
           ("Ellipsis",), ("np.array([4, 0, 6])",), ("[5, 2]",), ("np.array([-1, 2, -4])",), ("np.array([[0, 3], [6, 1]])",),
           ("np.array([True, False, False, True, True, False, True])",), ("(slice(1, 6),)",), ("np.array([], dtype=int)",), ("np.s_[1:5, None]",),
           ("np.s_[1:6]", "np.s_[::2]"), ("np.s_[::-1]", "np.s_[1:4]"), ("np.s_[1:6]", "2"), ("np.s_[1:7]", "np.s_[1:5]", "np.s_[::-2]"),
           ("np.s_[1:6]", "np.array([3, 0])")],
    (4, 5): [("(1, 2)",), ("1",), ("-1",), ("np.s_[:, 3]",), ("np.s_[1:3, ::2]",), ("np.s_[::-1, 1:4]",), ("np.s_[..., 0]",), ("np.s_[2:2, :]",),
             ("np.s_[:, :]",), ("(np.array([3, 0]), np.s_[1:4])",), ("(np.array([0, 2, 3]), np.array([4, 1, 0]))",), ("np.array([2, 0])",),
             ("(np.s_[:], [4, 0, 2])",), ("np.ix_([3, 1], [0, 4, 2])",), ("np.arange(20).reshape(4, 5) % 3 == 1",), ("(2, np.array([1, 4]))",),
             ("np.s_[:, None, 2]",), ("np.s_[1:4]", "np.s_[:, 1:3]"), ("np.s_[:, ::2]", "(0, 1)"), ("np.s_[1:]", "(np.array([2, 0]), np.s_[::2])"),
             ("np.s_[1:4, 1:5]", "np.s_[::2, ::-1]", "np.s_[0]")],
    (3, 4, 2): [("(1, 2, 0)",), ("1",), ("np.s_[:, 1:3, 0]",), ("np.s_[..., 1]",), ("np.s_[::2, ::-1, :]",), ("np.s_[0, ...]",),
                ("(np.array([2, 0]), np.s_[:], np.array([1, 0]))",), ("(np.array([2, 0]), np.array([3, 1]))",),
                ("(np.s_[:], np.array([[0], [3]]), np.array([[1, 0]]))",), ("np.s_[1:]", "np.s_[:, 2]", "np.s_[::-1]")],
    (): [("Ellipsis",), ("()",)],
    (1,): [("0",), ("np.s_[:]",), ("np.array([0])",), ("np.s_[1:]",)],
    (5, 1): [("np.s_[:, 0]",), ("(np.array([4, 1]), 0)",), ("np.s_[1:4]", "np.s_[::2, :]")],
}
DTYPES = ('float64', 'complex128', 'float32')
ORDERS = ('C', 'F', 'strided')


def rnd(rng, shape, dtype):
    a = rng.integers(-40, 41, size=shape) / 8.0
    if np.dtype(dtype).kind == 'c':
        a = a + 1j * rng.integers(-40, 41, size=shape) / 8.0
    return np.asarray(a).astype(dtype)


def lit(a):
    a = np.asarray(a)
    return ('a', str(a.dtype), tuple(a.shape), a.real.ravel().tolist(), a.imag.ravel().tolist() if np.iscomplexobj(a) else None)


def scal(rng, dtype, kinds=('py',)):
    """scalar literal of the signal's kind (python scalar, numpy scalar or 0-d array)"""
    re, im = int(rng.integers(-40, 41)) / 8.0, int(rng.integers(-40, 41)) / 8.0
    k = kinds[int(rng.integers(len(kinds)))]
    cplx = np.dtype(dtype).kind == 'c'
    if k == 'py':
        return ('c', re, im) if cplx else ('f', re)
    if k == 'np':
        return ('s', dtype, re, im) if cplx else ('s', dtype, re)
    return ('a', dtype, (), [re], [im] if cplx else None)


def replay(spec, ops):
    return REPLAY_HEAD + MODEL_SRC + f"\nspec = {spec!r}\nops = {ops!r}\nres = run_history(pym, spec, ops)\nprint(res)\nassert res is None, res\n"


def run(r, spec, ops, inputs):
    with warnings.catch_warnings():
        warnings.simplefilter('ignore')
        try:
            res = M.run_history(pym, spec, ops)
        except Exception as e:   # construction of the signals / slices or the first read failed
            res = dict(what=f'creating the signals and slices raised {type(e).__name__}: {str(e)[:160]}', op_index=len(ops) - 1)
    if res is not None:
        k = res['op_index']
        # known defect region: base holding a 0-d array, no sensitivity yet, first sensitivity write goes through a slice (state*0 is an immutable numpy scalar)
        zero_d = isinstance(M.dec(spec[0]['state']), np.ndarray) and M.dec(spec[0]['state']).ndim == 0
        fid = 'C18-0d-slice-alloc' if (zero_d and res.get('alloc_through_slice') and 'TypeError' in res['what']) else None
        r.check(False, res['what'], dict(inputs, op_index=k, op=res.get('op'), signal=res.get('signal'), slice=res.get('slice')),
                res.get('observed'), res.get('expected'), replay_code=replay(spec, ops[:k + 1]), finding=fid)
    return res is None


def script(rng, shape, dtype, chain):
    """every operation kind through one slice (persistent and fresh objects), interleaved with base operations and a second signal"""
    sh = M.imap(shape, chain).shape
    V = lambda: lit(rnd(rng, sh, dtype))
    F = lambda: lit(rnd(rng, shape, dtype))
    S = lambda: scal(rng, dtype)
    return [('state', 0, 0, False, S()), ('state', 0, 0, True, V()), ('sens', 0, 0, False, None), ('reset', 0, 0, False, None), ('add', 0, 0, False, None),
            ('add', 0, 0, False, V()), ('add', 0, 0, True, S()), ('add', 0, None, False, F()), ('reset', 0, 0, True, None), ('sens', 0, 0, False, V()),
            ('reset', 0, 0, False, True), ('add', 0, 0, False, V()), ('reset', 0, None, False, True), ('add', 0, 0, True, V()), ('reset', 0, None, False, None),
            ('sens', 0, 0, True, S()), ('sens', 0, 0, False, None), ('reset', 0, None, False, False), ('add2', (0, None, False), (1, None, False), F()),
            ('add', 0, 0, False, V()), ('add2', (0, 0, False), (1, 0, True), V()), ('state', 0, None, False, F()), ('add', 1, 0, False, V()),
            ('sens', 0, None, False, F()), ('reset', 0, 0, False, False), ('reset', 1, None, False, None), ('add', 1, None, False, F()),
            ('reset', 1, None, False, False), ('reset', 1, None, False, None), ('add', 1, 0, False, V()), ('add', 1, 1, True, S()), ('reset', 1, 0, True, None)]


@bound('every key chain of the catalogue for the 5 base shapes (7,), (4,5), (3,4,2), (1,), (5,1) (61 chains: ints, basic/empty/negative-step slices, tuples, Ellipsis, newaxis, '
       'int arrays/lists without repeats, several index arrays, ix_, boolean masks, nested basic 2-3 levels, basic->array) x dtype {float64, complex128, '
       'float32} x base memory layout {C, F, strided view} (quick: each chain with each dtype and each layout once; thorough: full product); one scripted 32-operation history each (2 signals, one built with a sensitivity = keep_alloc)')
def scripted_per_slice(r, tier, seed):
    rng = np.random.default_rng(seed + 18)
    for shape, chains in CAT.items():
        if shape == ():
            continue   # see zero_d_arrays
        for ci, chain in enumerate(chains):
            other = chains[(ci + 1) % len(chains)]
            combos = list(itertools.product(DTYPES, ORDERS))
            if tier == 'quick':   # each chain with every dtype and every layout once (rotating pairing); thorough: the full product
                combos = [(DTYPES[k], ORDERS[(k + ci) % 3]) for k in range(3)]
            for dtype, order in combos:
                spec = [dict(state=lit(rnd(rng, shape, dtype)), sens=None, order=order, slices=[chain, other, ("Ellipsis",)]),
                        dict(state=lit(rnd(rng, shape, dtype)), sens=lit(rnd(rng, shape, dtype)), order=order, slices=[chain, other])]
                ops = script(rng, shape, dtype, chain)
                r.case((shape, chain, dtype, order))
                run(r, spec, ops, dict(shape=shape, chain=chain, dtype=dtype, order=order))


@bound('base holding a 0-d array (float64, complex128, float32), keys Ellipsis and (): the scripted 32-operation history (a) with the base sensitivity '
       'allocated by a base add before every write through the slice, (b) as is - (b) hits finding C18-0d-slice-alloc at the first sensitivity write through the slice')
def zero_d_arrays(r, tier, seed):
    rng = np.random.default_rng(seed + 180)
    shape = ()
    todo = []
    for chain in CAT[()]:
        for dtype in DTYPES:
            spec = [dict(state=lit(rnd(rng, shape, dtype)), sens=None, order='C', slices=[chain, ("Ellipsis",)]),
                    dict(state=lit(rnd(rng, shape, dtype)), sens=lit(rnd(rng, shape, dtype)), order='C', slices=[chain, ("()",)])]
            ops = script(rng, shape, dtype, chain)
            ops2 = []
            for op in ops:
                tg = [op[1:4]] if op[0] in ('sens', 'add') else [op[1], op[2]] if op[0] == 'add2' else []
                for (i, j, _) in tg:
                    if j is not None:
                        ops2.append(('add', i, None, False, lit(rnd(rng, shape, dtype))))
                ops2.append(op)
            todo.append((chain, dtype, spec, ops, ops2))
    for chain, dtype, spec, ops, ops2 in todo:     # everything outside the region of the finding is checked normally (and reported first)
        r.case((chain, dtype, 'allocated'))
        run(r, spec, ops2, dict(shape=shape, chain=chain, dtype=dtype, variant='base sensitivity allocated first'))
    for chain, dtype, spec, ops, ops2 in todo:
        r.case((chain, dtype, 'as is'))
        run(r, spec, ops, dict(shape=shape, chain=chain, dtype=dtype))


def random_ops(rng, spec, n):
    ops = []
    nsig = len(spec)

    def pick():
        i = int(rng.integers(nsig))
        ns = len(spec[i]['slices'])
        j = None if (ns == 0 or rng.random() < 0.35) else int(rng.integers(ns))
        return i, j, bool(rng.random() < 0.25)

    def val(i, j, allow_scalar=True):
        st = M.dec(spec[i]['state'])
        dtype = str(np.asarray(st).dtype)
        if not isinstance(st, np.ndarray):        # scalar-holding signal
            return scal(rng, dtype, ('py', 'np', '0d'))
        if j is None:
            return lit(rnd(rng, st.shape, dtype))
        sh = M.imap(st.shape, spec[i]['slices'][j]).shape
        u = rng.random()
        if allow_scalar and u < 0.3:
            return scal(rng, dtype, ('py', 'np', '0d'))
        if len(sh) >= 2 and u < 0.45:
            return lit(rnd(rng, sh[1:], dtype))   # broadcast along the leading axis
        if np.dtype(dtype).kind == 'c' and u < 0.6:
            return lit(rnd(rng, sh, 'float64'))   # real data into complex entries
        return lit(rnd(rng, sh, dtype))

    for _ in range(n):
        u = rng.random()
        i, j, fresh = pick()
        if u < 0.15:
            ops.append(('state', i, j, fresh, val(i, j)))
        elif u < 0.30:
            ops.append(('sens', i, j, fresh, None if (j is not None and rng.random() < 0.25) else val(i, j)))
        elif u < 0.62:
            ops.append(('add', i, j, fresh, None if rng.random() < 0.08 else val(i, j)))
        elif u < 0.75:
            # the same object added to two targets of equal selection shape (a base and a base, or the same slice chain on two signals)
            i2 = int(rng.integers(nsig))
            sa, sb = M.dec(spec[i]['state']), M.dec(spec[i2]['state'])
            if np.shape(sa) == np.shape(sb) and np.asarray(sa).dtype == np.asarray(sb).dtype:
                j2 = None
                if j is not None:
                    c = spec[i]['slices'][j]
                    if c not in spec[i2]['slices']:
                        continue
                    j2 = spec[i2]['slices'].index(c)
                ops.append(('add2', (i, j, fresh), (i2, j2, bool(rng.integers(2))), val(i, j, allow_scalar=False)))
        else:
            ops.append(('reset', i, j, fresh, (None, True, False)[int(rng.integers(3))]))
    return ops


@bound('random histories: 2-3 base signals (shapes of the catalogue, dtype float64/complex128/float32, layouts C/F/strided, with or without an initial '
       'sensitivity), 2-4 persistent slices each drawn from the catalogue (pairs of signals share shape and slices so that one object can be added to both), '
       '40 operations {state=, sensitivity= (incl. None), add_sensitivity (arrays, broadcast, python/numpy scalars, 0-d, None, real into complex), same object '
       'to two targets, reset(None/True/False)}; 150 histories [quick] / 1500 [thorough]')
def random_histories(r, tier, seed):
    rng = np.random.default_rng(seed + 1800)
    shapes = [s for s in CAT if s != ()]
    for h in range(150 if tier == 'quick' else 1500):
        shape = shapes[int(rng.integers(len(shapes)))]
        dtype = DTYPES[int(rng.integers(3))]
        chains = [CAT[shape][int(k)] for k in rng.choice(len(CAT[shape]), size=min(len(CAT[shape]), int(rng.integers(2, 5))), replace=False)]
        spec = []
        for n in range(int(rng.integers(2, 4))):
            spec.append(dict(state=lit(rnd(rng, shape, dtype)), sens=lit(rnd(rng, shape, dtype)) if rng.random() < 0.3 else None,
                             order=ORDERS[int(rng.integers(3))], slices=list(chains)))
        ops = random_ops(rng, spec, 40)
        r.case(('hist', seed, h))
        run(r, spec, ops, dict(history=h, shape=shape, dtype=dtype, slices=chains))


@bound('signals holding scalars: python float / complex, numpy float64 / complex128 / float32 scalars, 0-d arrays, with or without initial sensitivity; '
       'all 4^4 [quick] / 4^5 [thorough] sequences over {add scalar, reset(), reset(True), reset(False)} plus 100 [quick] / 1000 [thorough] random 30-operation histories')
def scalar_signals(r, tier, seed):
    rng = np.random.default_rng(seed + 181)
    kinds = [('f', 1.5), ('c', 0.5, -2.0), ('s', 'float64', 2.25), ('s', 'complex128', 1.0, 0.5), ('s', 'float32', -0.75),
             ('a', 'float64', (), [3.5], None), ('a', 'complex128', (), [1.25], [2.0])]
    for st in kinds:
        dtype = str(np.asarray(M.dec(st)).dtype)
        for withsens in (False, True):
            spec = [dict(state=st, sens=(scal(rng, dtype) if withsens else None), order='C', slices=[]),
                    dict(state=st, sens=None, order='C', slices=[])]
            for seq in itertools.product(range(4), repeat=4 if tier == 'quick' else 5):
                ops = []
                for a in seq:
                    ops.append(('add2', (0, None, False), (1, None, False), scal(rng, dtype, ('py', 'np', '0d'))) if a == 0 else ('reset', 0, None, False, (None, True, False)[a - 1]))
                ops.append(('add', 0, None, False, scal(rng, dtype, ('py', 'np', '0d'))))
                r.case((st, withsens, seq))
                run(r, spec, ops, dict(state=st, initial_sensitivity=withsens, sequence=seq))
    for h in range(100 if tier == 'quick' else 1000):
        st = kinds[int(rng.integers(len(kinds)))]
        dtype = str(np.asarray(M.dec(st)).dtype)
        spec = [dict(state=st, sens=(scal(rng, dtype) if rng.random() < 0.4 else None), order='C', slices=[]) for _ in range(2)]
        r.case(('scalar-hist', seed, h))
        run(r, spec, random_ops(rng, spec, 30), dict(history=h, state=st))


@bound('signals without a state (Signal("x")): base sensitivity assignment / add / reset and slice reads, resets and adds on the existing sensitivity, '
       'shapes (7,) and (4,5), all catalogue chains, float64 and complex128')
def stateless_signals(r, tier, seed):
    rng = np.random.default_rng(seed + 182)
    for shape in ((7,), (4, 5)):
        for chain in CAT[shape]:
            for dtype in ('float64', 'complex128'):
                sh = M.imap(shape, chain).shape
                spec = [dict(state=None, sens=None, order='C', slices=[chain])]
                ops = [('reset', 0, 0, False, None), ('sens', 0, 0, False, None), ('add', 0, None, False, lit(rnd(rng, shape, dtype))),
                       ('add', 0, 0, False, lit(rnd(rng, sh, dtype))), ('reset', 0, 0, True, None), ('add', 0, None, False, lit(rnd(rng, shape, dtype))),
                       ('sens', 0, 0, False, lit(rnd(rng, sh, dtype))), ('reset', 0, None, False, True), ('add', 0, 0, True, lit(rnd(rng, sh, dtype))),
                       ('reset', 0, None, False, None), ('sens', 0, None, False, lit(rnd(rng, shape, dtype))), ('reset', 0, 0, False, None)]
                r.case((shape, chain, dtype))
                run(r, spec, ops, dict(shape=shape, chain=chain, dtype=dtype, state=None))


OBJ_SRC = '''
class Acc:
    """sensitivity type with a user-defined add_sensitivity (no +=), holding nested mutable data"""
    def __init__(self, v):
        self.d = {'v': np.array(v, dtype=float)}
        self.calls = 0
    def add_sensitivity(self, o):
        self.calls += 1
        self.d['v'] = self.d['v'] + o.d['v']

class Iadd:
    """sensitivity type with += only; no [...] and no *= (reset cannot keep the allocation)"""
    def __init__(self, v):
        self.v = [np.array(v, dtype=float)]
    def __iadd__(self, o):
        self.v[0] += o.v[0]
        return self

def object_history(pym, cls, a, b, c):
    get = (lambda o: o.d['v']) if cls is Acc else (lambda o: o.v[0])
    s1, s2 = pym.Signal('p'), pym.Signal('q')
    x, y, z = cls(a), cls(b), cls(c)
    s1.add_sensitivity(x); s2.add_sensitivity(x)            # one object to two signals
    assert s1.sensitivity is not x and s2.sensitivity is not x and s1.sensitivity is not s2.sensitivity, 'first add must copy'
    assert not np.shares_memory(get(s1.sensitivity), get(x)) and not np.shares_memory(get(s1.sensitivity), get(s2.sensitivity)), 'first add must copy deeply'
    get(x)[...] = 99.5                                       # caller re-uses its object
    s1.add_sensitivity(y)
    assert np.array_equal(get(s1.sensitivity), np.array(a) + np.array(b)), ('accumulation', get(s1.sensitivity))
    assert np.array_equal(get(s2.sensitivity), np.array(a)), ('second signal changed', get(s2.sensitivity))
    assert np.array_equal(get(y), np.array(b)), 'argument modified'
    if cls is Acc:
        assert s1.sensitivity.calls == 1 and s2.sensitivity.calls == 0, 'custom add_sensitivity must be used exactly once per later add'
    s1.add_sensitivity(None)
    assert np.array_equal(get(s1.sensitivity), np.array(a) + np.array(b))
    s1.reset()
    assert s1.sensitivity is None and np.array_equal(get(s2.sensitivity), np.array(a))
    s1.add_sensitivity(z)
    assert s1.sensitivity is not z and np.array_equal(get(s1.sensitivity), np.array(c))
    import warnings
    with warnings.catch_warnings():
        warnings.simplefilter('ignore')
        s1.reset(keep_alloc=True)                            # neither [...] nor *= : falls back to clearing
    assert s1.sensitivity is None, 'reset(keep_alloc=True) on a type without []/*= must clear'
    assert np.array_equal(get(z), np.array(c))
'''
exec(OBJ_SRC)


@bound('two user-defined sensitivity types (custom add_sensitivity with nested data; += only) x data shapes {(), (3,), (2,2)}; DyadCarrier sensitivities '
       '(n in {1,3}); fixed 9-step history: same object to two signals, mutate it, accumulate, add None, reset, re-add, reset(keep_alloc=True)')
def object_sensitivities(r, tier, seed):
    rng = np.random.default_rng(seed + 183)
    for cls in (Acc, Iadd):  # noqa: F821
        for shape in ((), (3,), (2, 2)):
            a, b, c = (rnd(rng, shape, 'float64').tolist() for _ in range(3))
            r.case((cls.__name__, shape))
            code = REPLAY_HEAD + OBJ_SRC + f"\nobject_history(pym, {cls.__name__}, {a!r}, {b!r}, {c!r})\n"
            try:
                object_history(pym, cls, a, b, c)  # noqa: F821
            except Exception as e:
                r.check(False, f'object-valued sensitivity: {type(e).__name__}: {str(e)[:200]}', dict(cls=cls.__name__, a=a, b=b, c=c), replay_code=code)
    for n in (1, 3):
        u, v, w = (rnd(rng, (n,), 'float64') for _ in range(3))
        r.case(('DyadCarrier', n))
        code = REPLAY_HEAD + f"u, v, w = np.array({u.tolist()}), np.array({v.tolist()}), np.array({w.tolist()})\n" + DYAD_SRC
        try:
            exec(DYAD_SRC, dict(pym=pym, np=np, u=u.copy(), v=v.copy(), w=w.copy()))
        except Exception as e:
            r.check(False, f'DyadCarrier-valued sensitivity: {type(e).__name__}: {str(e)[:200]}', dict(u=u, v=v, w=w), replay_code=code)


DYAD_SRC = '''
d1, d2 = pym.DyadCarrier(u, v), pym.DyadCarrier(w, u)
D1, D2 = np.outer(u, v), np.outer(w, u)
s1, s2 = pym.Signal('p'), pym.Signal('q')
s1.add_sensitivity(d1); s2.add_sensitivity(d1)
assert s1.sensitivity is not d1 and s2.sensitivity is not d1 and s1.sensitivity is not s2.sensitivity
s1.add_sensitivity(d2)
s1.add_sensitivity(d2)
assert np.array_equal(s1.sensitivity.todense(), D1 + D2 + D2), s1.sensitivity.todense()
assert np.array_equal(s2.sensitivity.todense(), D1), 'second signal changed'
assert np.array_equal(d1.todense(), D1) and np.array_equal(d2.todense(), D2), 'argument modified'
d1 += d2
assert np.array_equal(s2.sensitivity.todense(), D1), 'signal aliases the argument'
s1.reset()
assert s1.sensitivity is None and np.array_equal(s2.sensitivity.todense(), D1)
s2.reset(keep_alloc=True)
assert s2.sensitivity is None or np.array_equal(s2.sensitivity.todense(), 0 * D1)
'''


CHECKS = [('scripted_per_slice', scripted_per_slice), ('zero_d_arrays', zero_d_arrays), ('random_histories', random_histories), ('scalar_signals', scalar_signals),
          ('stateless_signals', stateless_signals), ('object_sensitivities', object_sensitivities)]
