"""C01 engine: evaluates the adjoint identity  Re sum(g*v) = d/dt Re sum(w*y(x+t v))  on one real module object.

Pure functions on numpy/scipy/pymoto only: this file is embedded verbatim into every replay program, so that a replay
re-runs exactly the evaluation that failed (same generated seeds and directions, same reference).

A *case* is a piece of Python source (`src`) that builds the module `m` with fresh input signals holding the input
state, plus optional settings (upper-case names, see `run_case`).  The reference for the directional derivative is
computed from response() of the real module itself (that is what the property quantifies over: the sensitivity is the
adjoint of *its* response) by
  'linear' : the exact central difference (y(x+v)-y(x-v))/2 (affine responses; exact up to rounding),
  'poly'   : the 5-point stencil with unit step (exact for polynomials of degree <= 4, exact on integer data),
  'smooth' : Ridders' extrapolated central differences with an error estimate,
  'cstep'  : the complex-step derivative Im y(x + i h v)/h, h = 1e-30, evaluated on a second module object built from the same
             source (only for responses built from analytic operations on real data: OverhangFilter; exact to rounding, also
             where the radius of analyticity is tiny, e.g. exact zero densities),
or from an independent closed form REF(xs) given by the case (used where the property freezes something that response()
would update: aggregation scaling factor / active set).
"""
import copy
import numpy as np
import scipy.sparse as sps
import pymoto as pym
from pymoto import DyadCarrier


def dyad_dense(d):
    """dense value of a DyadCarrier from its stored vectors (does not use any DyadCarrier method)"""
    n, k = d.shape
    out = np.zeros((max(n, 0), max(k, 0)), dtype=np.result_type(np.float64, *[u.dtype for u in d.u], *[v.dtype for v in d.v]))
    for u, v in zip(d.u, d.v):
        out = out + np.outer(u, v)
    return out


def arr(y):
    if y is None:
        return None
    if sps.issparse(y):
        return y.toarray()
    if isinstance(y, DyadCarrier):
        return dyad_dense(y)
    return np.asarray(y)


def is_complex(x):
    if sps.issparse(x):
        return np.iscomplexobj(x.data)
    if isinstance(x, DyadCarrier):
        return any(np.iscomplexobj(u) for u in x.u) or any(np.iscomplexobj(v) for v in x.v)
    return np.iscomplexobj(x)


def cp(x):
    return x.copy() if hasattr(x, 'copy') else copy.deepcopy(x)


def nrm(a):
    a = arr(a)
    return 0.0 if a is None or a.size == 0 else float(np.sqrt(np.sum(np.abs(a) ** 2)))


class ShapeMismatch(Exception):
    pass


def pair(g, v):
    """Re sum(g*v) (bilinear, no conjugation: the pairing finite_difference uses); None counts as zero"""
    if g is None or v is None:
        return 0.0
    G, V = arr(g), arr(v)
    if G.size == 0:
        return 0.0
    if G.shape != V.shape:
        if G.size != V.size:
            raise ShapeMismatch(f"shape {G.shape} against {V.shape}")
        G = G.reshape(V.shape)
    return float(np.real(np.sum(G * V)))


def gen_dir(x, rng, cls=None):
    """random direction of the kind of x; cls: None | 'sym' | 'herm' | 'pattern+' (a few entries outside the pattern) | callable"""
    if callable(cls):
        return cls(x, rng)
    cplx = is_complex(x)
    if sps.issparse(x):
        P = x.tocoo()
        vals = rng.standard_normal(P.nnz) + (1j * rng.standard_normal(P.nnz) if cplx else 0)
        V = sps.coo_matrix((vals, (P.row, P.col)), shape=P.shape).tocsr()
        if cls == 'pattern+':
            n = P.shape[0]
            V = V + sps.coo_matrix((rng.standard_normal(3), (rng.integers(0, n, 3), rng.integers(0, n, 3))), shape=P.shape).tocsr()
        if cls == 'sym':
            V = (V + V.T) / 2
        elif cls == 'herm':
            V = (V + V.conj().T) / 2
        return V.asformat(x.format)
    if isinstance(x, np.ndarray):
        V = rng.standard_normal(x.shape) + (1j * rng.standard_normal(x.shape) if cplx else 0)
        if cls == 'sym':
            V = (V + V.T) / 2
        elif cls == 'herm':
            V = (V + V.conj().T) / 2
        return V
    if cplx:
        return complex(rng.standard_normal(), rng.standard_normal())
    return float(rng.standard_normal())


def unit_dir(x, rng):
    """direction with one non-zero entry (a single input entry is perturbed)"""
    if sps.issparse(x):
        P = x.tocoo()
        k = int(rng.integers(0, P.nnz))
        return sps.coo_matrix(([1.0], ([P.row[k]], [P.col[k]])), shape=P.shape).asformat(x.format)
    if isinstance(x, np.ndarray) and x.ndim > 0:
        V = np.zeros(x.shape, dtype=x.dtype)
        if x.size == 0:
            return V
        V.flat[int(rng.integers(0, x.size))] = 1j if (is_complex(x) and rng.integers(0, 2)) else 1.0
        return V
    return gen_dir(x, rng)


def zero_dir(x):
    if sps.issparse(x):
        return (x * 0).asformat(x.format)
    if isinstance(x, np.ndarray):
        return np.zeros(x.shape, dtype=x.dtype)
    return 0.0


def perturb(x, v, t):
    if sps.issparse(x):
        return (x + t * v).asformat(x.format)
    if isinstance(x, np.ndarray):
        return np.asarray(x + t * v)
    return x + t * v


def gen_seed(y, rng, kind=None):
    """output sensitivity of the kind of the output y (real outputs get real seeds: the finite_difference convention).
    kind: None | 'dyad' | 'cdyad' | 'cdense' | 'unit' | 'int' | 'zero'"""
    Y = arr(y)
    cplx = is_complex(y)
    if kind in ('dyad', 'cdyad'):
        k = int(rng.integers(1, 4))
        c = kind == 'cdyad'
        us = [rng.standard_normal(Y.shape[0]) + (1j * rng.standard_normal(Y.shape[0]) if c else 0) for _ in range(k)]
        vs = [rng.standard_normal(Y.shape[1]) + (1j * rng.standard_normal(Y.shape[1]) if c else 0) for _ in range(k)]
        return DyadCarrier(us, vs)
    if kind == 'cdense':
        cplx = True
    if Y.ndim == 0 and not isinstance(y, np.ndarray):
        if kind == 'zero':
            return 0.0
        w = complex(rng.standard_normal(), rng.standard_normal()) if cplx else float(rng.standard_normal())
        return w
    if kind == 'unit':
        w = np.zeros(Y.shape, dtype=complex if cplx else float)
        if w.size:
            w.flat[int(rng.integers(0, w.size))] = 1.0
        return w
    if kind == 'zero':
        return np.zeros(Y.shape, dtype=complex if cplx else float)
    if kind == 'int':
        return rng.integers(-2, 3, Y.shape).astype(complex if cplx else float)
    w = rng.standard_normal(Y.shape) + (1j * rng.standard_normal(Y.shape) if cplx else 0)
    return np.asarray(w)


def ridders(F, h0, con=1.4, ntab=10, safe=2.0):
    """Ridders' extrapolation of central differences of the array function F at 0; returns (derivative, max-abs error estimate)"""
    con2 = con * con
    a = [[None] * ntab for _ in range(ntab)]
    h = h0
    a[0][0] = (F(h) - F(-h)) / (2 * h)
    best, err = a[0][0], np.inf
    for i in range(1, ntab):
        h /= con
        a[0][i] = (F(h) - F(-h)) / (2 * h)
        fac = con2
        for j in range(1, i + 1):
            a[j][i] = (a[j - 1][i] * fac - a[j - 1][i - 1]) / (fac - 1)
            fac *= con2
            e1 = np.max(np.abs(a[j][i] - a[j - 1][i])) if a[j][i].size else 0.0
            e2 = np.max(np.abs(a[j][i] - a[j - 1][i - 1])) if a[j][i].size else 0.0
            errt = max(e1, e2)
            if errt <= err:
                err, best = errt, a[j][i]
        if (np.max(np.abs(a[i][i] - a[i - 1][i - 1])) if best.size else 0.0) >= safe * err:
            break
    return best, float(err)


def run_case(src, seed=0, only=None):
    """Build the module from `src` and evaluate the adjoint identity. Returns (failures, ncases).
    Names read from the namespace after exec(src):
      m        the module (its input signals hold the input state); the source may use SEED (= seed) for its data   [required]
      MODE     'linear' | 'poly' | 'smooth' | 'cstep'                                               [default 'smooth']
      H0       first step of the extrapolated difference ('smooth')                          [1e-2]
      TOL      relative tolerance on the identity (relative to sum |w||dy| + sum |g||v|)     [1e-10 linear/poly, 1e-6 smooth]
      VCLASS   per input: class of the perturbation directions (None|'sym'|'herm'|'pattern+'|callable(x, rng))
      SEEDS    list of seed sets; a seed set is a list with one entry per output: None (unseeded) or a kind for gen_seed
               ('rand' = kind of the output)                                                 [all 'rand' + each single output + 'unit' + 'int']
      REF      optional callable REF(m, xs, x0s) -> list of output values at xs with everything frozen that the property freezes at the
               evaluated point x0s; used instead of response() for the perturbed evaluations
      HISTORY  re-evaluate the first point at the end and compare the sensitivities                              [True]
      POINTS   number of input points visited on the same module object (the later ones are x0 + PSTEP*direction)  [1]
      PSTEP    step to the next point [25*H0 for 'smooth'/'cstep', 0.25 otherwise]
      PRESET   also run sensitivity() onto a pre-set input sensitivity of the kind of the state (accumulation)      [True]
    """
    ns = {'np': np, 'pym': pym, 'sps': sps, 'DyadCarrier': DyadCarrier, 'SEED': seed}
    exec(compile(src, __file__, 'exec'), ns)   # a real file name keeps pymoto's inspect.stack() bookkeeping cheap
    if ns.get('SKIP'):   # the case cannot be built in this environment (optional dependency missing)
        return [], 0
    m = ns['m']
    mode = ns.get('MODE', 'smooth')
    h0 = ns.get('H0', 1e-2)
    tol = ns.get('TOL', 1e-6 if mode == 'smooth' else 1e-9 if mode == 'cstep' else 1e-10)
    n_in, n_out = len(m.sig_in), len(m.sig_out)
    vclass = ns.get('VCLASS', [None] * n_in)
    ref = ns.get('REF')
    npoints = ns.get('POINTS', 1)
    preset = ns.get('PRESET', True)
    history = ns.get('HISTORY', True)
    pstep = ns.get('PSTEP', 25 * h0 if mode in ('smooth', 'cstep') else 0.25)
    rng = np.random.default_rng(seed)
    fails = []
    ncase = 0

    def fail(what, observed=None, expected=None, **kw):
        fails.append(dict(what=what, observed=observed, expected=expected, **kw))

    x0 = [cp(s.state) for s in m.sig_in]

    def evaluate(xs, use_ref=False):
        if use_ref and ref is not None:
            return [arr(y) for y in ref(m, xs, x0)]
        for s, x in zip(m.sig_in, xs):
            s.state = cp(x)
        m.response()
        return [cp(arr(s.state)) for s in m.sig_out]

    for point in range(npoints):
        if point > 0:
            x0 = [perturb(x, gen_dir(x, rng, c), pstep) for x, c in zip(x0, vclass)]
        try:
            y0 = evaluate(x0)
        except Exception as e:
            fail(f'response() raises at input point {point}', f'{type(e).__name__}: {str(e).splitlines()[0][:200]}')
            return fails, ncase
        ystates = [s.state for s in m.sig_out]
        if any(y is None for y in y0):
            fail('response() left an output state None', [y is None for y in y0])
            return fails, ncase

        # ---- seed sets
        seedsets = ns.get('SEEDS')
        if seedsets is None:
            seedsets = [['rand'] * n_out]
            if n_out > 1:
                seedsets += [['rand' if j == k else None for j in range(n_out)] for k in range(n_out)]
            seedsets += [['unit'] * n_out, ['int'] * n_out]
        sens = []   # (seedset, ws, gs)
        for iset, kinds in enumerate(seedsets):
            ws = [None if k is None else gen_seed(ystates[j], rng, None if k == 'rand' else k) for j, k in enumerate(kinds)]
            m.reset()
            for s, w in zip(m.sig_out, ws):
                s.sensitivity = None if w is None else cp(w)
            try:
                m.sensitivity()
            except Exception as e:
                fail('sensitivity() raises', f'{type(e).__name__}: {str(e).splitlines()[0][:200]}', None, seeds=kinds, point=point)
                continue
            gs = [None if s.sensitivity is None else cp(s.sensitivity) for s in m.sig_in]
            sens.append((kinds, ws, gs))
            # "adds to each input": a second call without reset doubles the accumulated value
            if iset == 0:
                try:
                    m.sensitivity()   # the output signals still hold the seeds they were given
                    for i, (s, g) in enumerate(zip(m.sig_in, gs)):
                        g2 = s.sensitivity
                        if g is None and g2 is None:
                            continue
                        G, G2 = arr(g), arr(g2)
                        if G is None or G2 is None or G2.shape != G.shape or not np.allclose(G2, 2 * G, rtol=1e-6 if mode == 'smooth' else 1e-11, atol=1e-6 * nrm(G) if mode == 'smooth' else 1e-11 * nrm(G)):
                            fail('second sensitivity() without reset does not accumulate to twice the value', None if G2 is None else G2.ravel()[:8], None if G is None else 2 * G.ravel()[:8], seeds=kinds, input=i, point=point)
                except Exception as e:
                    fail('second sensitivity() without reset raises', f'{type(e).__name__}: {str(e).splitlines()[0][:200]}', None, seeds=kinds, point=point)
                # accumulation onto an existing sensitivity of the kind of the input state
                if preset:
                    m.reset()
                    pre = []
                    for s, x in zip(m.sig_in, x0):
                        if isinstance(x, np.ndarray) and not sps.issparse(x):
                            p0 = np.asarray(gen_dir(x, rng))
                            s.sensitivity = cp(p0)
                            pre.append(p0)
                        else:
                            pre.append(None)
                    for s, w in zip(m.sig_out, ws):
                        s.sensitivity = None if w is None else cp(w)
                    try:
                        m.sensitivity()
                        for i, (s, g, p0) in enumerate(zip(m.sig_in, gs, pre)):
                            if p0 is None:
                                continue
                            want = p0 if g is None else p0 + arr(g).reshape(p0.shape)
                            got = arr(s.sensitivity)
                            if got is None or got.shape != want.shape or not np.allclose(got, want, rtol=1e-6 if mode == 'smooth' else 1e-11, atol=(1e-6 if mode == 'smooth' else 1e-11) * (nrm(want) + nrm(g))):
                                fail('sensitivity() does not add its value to an existing input sensitivity', None if got is None else got.ravel()[:8], want.ravel()[:8], seeds=kinds, input=i, point=point)
                    except Exception as e:
                        fail('sensitivity() raises when the input already holds a sensitivity of the kind of its state', f'{type(e).__name__}: {str(e).splitlines()[0][:200]}', None, seeds=kinds, point=point)
        m.reset()

        # ---- directions: one per input (others zero), one joint, one single-entry
        dirs = []
        for i in range(n_in):
            dirs.append((f'input {i}', [gen_dir(x, rng, vclass[i]) if k == i else zero_dir(x) for k, x in enumerate(x0)]))
        if n_in > 1:
            dirs.append(('all inputs', [gen_dir(x, rng, vclass[i]) for i, x in enumerate(x0)]))
        if all(c is None or c == 'pattern+' for c in vclass):
            k = int(rng.integers(0, n_in))
            dirs.append((f'single entry of input {k}', [unit_dir(x, rng) if i == k else zero_dir(x) for i, x in enumerate(x0)]))

        for dname, vs in dirs:
            def F(t):
                ys = evaluate([perturb(x, v, t) for x, v in zip(x0, vs)], use_ref=True)
                return np.concatenate([np.asarray(y).ravel() for y in ys]) if ys else np.zeros(0)
            try:
                if mode == 'linear':
                    dflat, err = (F(1.0) - F(-1.0)) / 2, 0.0
                elif mode == 'poly':
                    dflat, err = (8 * (F(1.0) - F(-1.0)) - (F(2.0) - F(-2.0))) / 12, 0.0
                elif mode == 'cstep':
                    ns2 = {'np': np, 'pym': pym, 'sps': sps, 'DyadCarrier': DyadCarrier, 'SEED': seed}
                    exec(compile(src, __file__, 'exec'), ns2)
                    m2 = ns2['m']
                    for s, x, v in zip(m2.sig_in, x0, vs):
                        s.state = x + 1e-30j * v
                    m2.response()
                    dflat, err = np.concatenate([np.imag(np.asarray(s.state)).ravel() / 1e-30 for s in m2.sig_out]), 0.0
                else:
                    dflat, err = ridders(F, h0)
            except Exception as e:
                fail('response() raises at a perturbed input', f'{type(e).__name__}: {str(e).splitlines()[0][:200]}', None, direction=dname, point=point)
                continue
            dys, o = [], 0
            for y in y0:
                dys.append(dflat[o:o + y.size].reshape(y.shape))
                o += y.size
            for kinds, ws, gs in sens:
                ncase += 1
                try:
                    lhs = sum(pair(g, v) for g, v in zip(gs, vs))
                    rhs = sum(pair(w, dy) for w, dy in zip(ws, dys))
                except ShapeMismatch as e:
                    fail('sensitivity has a shape that cannot be paired with its input', str(e), None, seeds=kinds, direction=dname, point=point)
                    continue
                scale = sum(nrm(w) * (nrm(dy) + (1e-3 * nrm(y) if mode in ('linear', 'poly') else 0)) for w, dy, y in zip(ws, dys, y0) if w is not None) + sum(nrm(g) * nrm(v) for g, v in zip(gs, vs) if g is not None)
                errb = err * sum(float(np.sum(np.abs(arr(w)))) for w in ws if w is not None)
                if mode == 'smooth' and errb > 1e-4 * max(scale, 1e-300):
                    fail('difference quotient of response() does not converge (response not differentiable here?)', errb, 1e-4 * scale, seeds=kinds, direction=dname, point=point)
                    continue
                if not (abs(lhs - rhs) <= tol * scale + 10 * errb) or not np.isfinite(lhs):
                    fail('Re sum(g*v) differs from the directional derivative of Re sum(w*y)', lhs, rhs, seeds=kinds, direction=dname, point=point, tol=tol * scale + 10 * errb)
        # ---- history: back at the first point the same seeds give the same sensitivities
        if sens and history:
            kinds, ws, gs = sens[0]
            try:
                evaluate(x0)
                m.reset()
                for s, w in zip(m.sig_out, ws):
                    s.sensitivity = None if w is None else cp(w)
                m.sensitivity()
                for i, (s, g) in enumerate(zip(m.sig_in, gs)):
                    G, G2 = arr(g), arr(s.sensitivity)
                    if G is None and G2 is None:
                        continue
                    if G is None or G2 is None or G.shape != G2.shape or not np.allclose(G2, G, rtol=1e-6 if mode == 'smooth' else 1e-11, atol=(1e-6 if mode == 'smooth' else 1e-11) * nrm(G)):
                        fail('after other inputs were evaluated on the same module, the same input and seed give a different sensitivity', None if G2 is None else G2.ravel()[:8], None if G is None else G.ravel()[:8], input=i, point=point)
                m.reset()
            except Exception as e:
                fail('repeating response()/sensitivity() at the first input raises', f'{type(e).__name__}: {str(e).splitlines()[0][:200]}', None, point=point)
    return fails, ncase
