"""C05 bounded stand-ins: every linear solver solves the requested (transposed / adjoint) system.

Matrices are generated with a prescribed condition number (unitary / orthogonal factors and a prescribed spectrum), so the tolerances
below are consequences of backward stability: normwise backward error  |op(A) x - b| / (|op(A)|_2 |x| + |b|) <= 1e-12  for the direct
solvers (n <= 40, cond <= 50) and relative residual <= 2 tol for CG (its own stopping rule; drift of the recurrence residual is
O(eps cond iterations) << tol).  References: numpy dense products with an own dense copy of the matrix; numpy.linalg.solve.
"""
import itertools
import numpy as np
import scipy.sparse as sps
import pymoto as pym
from pymoto import solvers as S
from native.util import bound, REPLAY_HEAD

F_SPLU = 'C05-sparselu-complex-rhs'
F_CG0 = 'C05-cg-zero-rhs'

HELPERS = '''
import warnings
warnings.filterwarnings('ignore')
import scipy.sparse as sps
from pymoto.solvers import LinearSolver


def dense(A):
    return A.toarray() if sps.issparse(A) else np.asarray(A)


def op(A, t):
    A = dense(A)
    return A if t == 'N' else (A.T if t == 'T' else A.conj().T)


def mk(fmt, Ad):
    if fmt == 'dense':
        return Ad.copy()
    if fmt == 'fortran':
        return np.asfortranarray(Ad)
    return getattr(sps, fmt + '_matrix')(Ad)


def berr(M, x, b):
    """normwise backward error of x for M x = b (per column, worst)"""
    n = M.shape[0]
    X, B = np.asarray(x).reshape(n, -1), np.asarray(b).reshape(n, -1)
    return float(np.max(np.linalg.norm(M @ X - B, axis=0) / (np.linalg.norm(M, 2) * np.linalg.norm(X, axis=0) + np.linalg.norm(B, axis=0))))


def rres(M, x, b):
    n = M.shape[0]
    X, B = np.asarray(x).reshape(n, -1), np.asarray(b).reshape(n, -1)
    return float(np.max(np.linalg.norm(M @ X - B, axis=0) / np.linalg.norm(B, axis=0)))


class Count(LinearSolver):
    """counting proxy (used around preconditioners)"""
    def __init__(self, inner):
        self.inner, self.n = inner, 0

    def update(self, A):
        return self.inner.update(A)

    def solve(self, rhs, x0=None, trans='N'):
        self.n += 1
        return self.inner.solve(rhs, x0=x0, trans=trans)
'''
_ns = {'np': np}
exec(HELPERS, _ns)
dense, op, mk, berr, rres, Count = (_ns[k] for k in ('dense', 'op', 'mk', 'berr', 'rres', 'Count'))
ETA = 1e-12


def arr(a):
    if a is None:
        return 'None'
    a = np.asarray(a)
    return f"np.array({a.tolist()!r}, dtype='{a.dtype}')"


# ------------------------------------------------------------------------------------------------ matrix classes
def unitary(rng, n, cplx):
    G = rng.standard_normal((n, n)) + (1j * rng.standard_normal((n, n)) if cplx else 0)
    Q, R = np.linalg.qr(G)
    return Q * (np.diag(R) / np.abs(np.diag(R)))


def spectrum(rng, n, kappa, signs=None):
    s = np.exp(rng.uniform(0, np.log(kappa), n))
    if n >= 2:
        s[0], s[-1] = 1.0, kappa
    if signs == 'mixed':
        s = s * np.where(np.arange(n) % 2 == 0, 1.0, -1.0)
    elif signs == 'neg':
        s = -s
    return s


def gen(rng, cls, n, cplx, kappa=50.0):
    """cls: diag spd snd indef zdiag csym general lower upper perm. Returns dense A (complex dtype iff cplx) with cond ~ kappa."""
    if cls == 'diag':
        d = spectrum(rng, n, kappa, 'mixed')
        return np.diag(d * np.exp(1j * rng.uniform(0, 6.28, n)) if cplx else d)
    if cls in ('spd', 'snd', 'indef'):
        Q = unitary(rng, n, cplx)
        A = (Q * spectrum(rng, n, kappa, {'spd': None, 'snd': 'neg', 'indef': 'mixed'}[cls])) @ Q.conj().T
        A = (A + A.conj().T) / 2
        if cls == 'indef' and n >= 2:      # make sure the diagonal has both signs (auto: LDL, not Cholesky)
            if np.all(A.diagonal().real > 0) or np.all(A.diagonal().real < 0):
                return gen(rng, cls, n, cplx, kappa)
        return A
    if cls == 'zdiag':      # Hermitian / symmetric with zero diagonal [[0, B], [B^H, 0]]: 2x2 pivots in LDL (n even)
        m = n // 2
        B = (unitary(rng, m, cplx) * spectrum(rng, m, kappa)) @ unitary(rng, m, cplx)
        A = np.zeros((n, n), dtype=B.dtype)
        A[:m, m:], A[m:, :m] = B, B.conj().T
        return A
    if cls == 'csym':       # complex symmetric, not Hermitian: U diag(d) U^T
        U = unitary(rng, n, True)
        d = spectrum(rng, n, kappa) * np.exp(1j * rng.uniform(0.2, 2.9, n))
        A = (U * d) @ U.T
        return (A + A.T) / 2
    if cls == 'general':
        return (unitary(rng, n, cplx) * spectrum(rng, n, kappa)) @ unitary(rng, n, cplx)
    if cls in ('lower', 'upper'):
        G = rng.uniform(-1, 1, (n, n)) + (1j * rng.uniform(-1, 1, (n, n)) if cplx else 0)
        A = np.tril(G, -1) / max(n, 1) + np.diag(spectrum(rng, n, 10.0, 'mixed') * (np.exp(1j * rng.uniform(0, 6.28, n)) if cplx else 1))
        return A if cls == 'lower' else A.T.copy()
    if cls == 'perm':       # scaled cyclic permutation + small general part: zero-free only off the diagonal
        P = np.roll(np.eye(n), 1, axis=1) * spectrum(rng, n, 10.0)
        G = (rng.uniform(-1, 1, (n, n)) + (1j * rng.uniform(-1, 1, (n, n)) if cplx else 0)) * 0.02
        np.fill_diagonal(G, 0)
        return P + G
    raise ValueError(cls)


def is_herm(A):
    return np.array_equal(A, A.conj().T)


def rhs_set(rng, n, cplx):
    """(name, b): (n), (n,1), (n,3) with linearly dependent columns, Fortran-ordered block, strided view"""
    def rnd(shape):
        return rng.uniform(-1, 1, shape) + (1j * rng.uniform(-1, 1, shape) if cplx else 0)
    v1, v2 = rnd(n), rnd(n)
    big = rnd((n, 4))
    return [('vec', v1), ('col', v2.reshape(n, 1).copy()), ('dep3', np.stack([v1, v2, 2 * v1 - 0.5 * v2], axis=1)),
            ('fortran2', np.asfortranarray(rnd((n, 2)))), ('strided', big[:, ::2])]


SOLVERS = {
    'Diagonal': ('pym.solvers.SolverDiagonal()', ['diag'], ['dense', 'csr', 'csc', 'dia']),
    'QR': ('pym.solvers.SolverDenseQR()', ['diag', 'spd', 'snd', 'indef', 'zdiag', 'csym', 'general', 'lower', 'upper', 'perm'], ['dense', 'fortran']),
    'LU': ('pym.solvers.SolverDenseLU()', ['diag', 'spd', 'snd', 'indef', 'zdiag', 'csym', 'general', 'lower', 'upper', 'perm'], ['dense', 'fortran']),
    'Cholesky': ('pym.solvers.SolverDenseCholesky()', ['spd', 'snd', 'indef', 'zdiag'], ['dense']),
    'LDL': ('pym.solvers.SolverDenseLDL()', ['diag*', 'spd', 'snd', 'indef', 'zdiag', 'csym'], ['dense']),
    'LDL-herm': ('pym.solvers.SolverDenseLDL(hermitian=True)', ['spd', 'indef', 'zdiag'], ['dense']),
    'LDL-sym': ('pym.solvers.SolverDenseLDL(hermitian=False)', ['spd*', 'indef*', 'zdiag*', 'csym'], ['dense']),   # * : real matrices only
    'SparseLU': ('pym.solvers.SolverSparseLU()', ['diag', 'spd', 'indef', 'zdiag', 'csym', 'general', 'lower', 'upper', 'perm'], ['csc', 'csr', 'coo']),
}


def new_solver(expr):
    return eval(expr, {'pym': pym, 'Count': Count})


def sizes(tier):
    return (1, 2, 3, 6, 11) if tier == 'quick' else (1, 2, 3, 4, 6, 11, 20, 40)


def replay(expr, fmt, Ad, b, t, x0, crit, pre=''):
    return (REPLAY_HEAD + HELPERS + f"Ad = {arr(Ad)}\nA = mk('{fmt}', Ad)\n{pre}s = {expr}\ns.update(A)\nb = {arr(b)}; x0 = {arr(x0)}; b0 = b.copy()\n"
            f"x = s.solve(b, x0=x0, trans='{t}')\nM = op(Ad, '{t}')\nprint('backward error', berr(M, x, b0), 'relative residual', rres(M, x, b0), x.shape, x.dtype)\n"
            f"assert x.shape == b.shape and x.dtype == np.result_type(Ad, b0), (x.shape, x.dtype)\nassert np.array_equal(b, b0), 'rhs modified'\nassert {crit}\n")


def check_solve(r, key, s, expr, fmt, Ad, b, t, x0=None, cg_tol=None, finding=None, pre=''):
    """one solve() call against the clauses: no exception, shape, dtype, finite, requested system solved, operands untouched"""
    r.case(key)
    M = op(Ad, t)
    b_own = np.array(b, copy=True)
    x0_own = None if x0 is None else x0.copy()
    crit = f"rres(M, x, b0) <= {2 * cg_tol!r}" if cg_tol else f"berr(M, x, b0) <= {ETA!r}"
    code = replay(expr, fmt, Ad, b_own, t, x0_own, crit, pre)
    try:
        x = s.solve(b, x0=x0, trans=t)
    except Exception as e:
        r.check(False, 'solve() raises for a matrix of the documented class', key, repr(e)[:300], 'no exception', replay_code=code, finding=finding)
        return None
    ok = isinstance(x, np.ndarray) and x.shape == b_own.shape
    r.check(ok, 'solution has the shape of the right-hand side', key, getattr(x, 'shape', None), b_own.shape, replay_code=code, finding=finding)
    if not ok:
        return None
    r.check(x.dtype == np.result_type(Ad, b_own), 'solution has the precision / kind of result_type(A, b)', key, str(x.dtype), str(np.result_type(Ad, b_own)), replay_code=code, finding=finding)
    r.check(np.array_equal(b, b_own) and (x0 is None or np.array_equal(x0, x0_own)), 'solve() does not modify rhs / x0', key, replay_code=code)
    if not np.all(np.isfinite(x)):
        r.check(False, 'solution is finite', key, x, replay_code=code, finding=finding)
        return None
    if cg_tol:
        val = rres(M, x, b_own)
        r.check(val <= 2 * cg_tol, f"requested system op(A) x = b solved (trans={t}): relative residual <= 2 tol", key, val, 2 * cg_tol, replay_code=code, finding=finding)
    else:
        val = berr(M, x, b_own)
        r.check(val <= ETA, f"requested system op(A) x = b solved (trans={t}): normwise backward error", key, val, ETA, replay_code=code, finding=finding)
    return x


# ------------------------------------------------------------------------------------------------ direct solvers
@bound('solvers Diagonal, DenseQR, DenseLU, DenseCholesky (success + LDL fall-back), DenseLDL (hermitian=None/True/False), SparseLU x their documented matrix classes '
       'out of {diagonal, s.p.d./H.p.d., negative definite, indefinite, zero-diagonal symmetric/Hermitian, complex symmetric, general, lower/upper triangular, '
       'scaled permutation + perturbation}, cond = 50 (10 for triangular/permutation), real and complex matrix; storage dense C/Fortran, csr/csc/coo/dia; '
       'n in {1,2,3,6,11} [quick] / {1,2,3,4,6,11,20,40} [thorough]; rhs real and complex, shapes (n), (n,1), (n,3) with dependent columns, Fortran block, '
       'strided view; trans N/T/H; x0 absent / given')
def direct_solvers(r, tier, seed):
    rng = np.random.default_rng(seed)
    for name, (expr, classes, fmts) in SOLVERS.items():
        for n in sizes(tier):
            for cls0, cplxA in itertools.product(classes, (False, True)):
                cls = cls0.rstrip('*')
                if (cls0.endswith('*') and cplxA) or (cls == 'csym' and not cplxA) or (cls == 'zdiag' and n % 2) or (cls == 'zdiag' and n < 2):
                    continue
                if cls == 'indef' and n < 2:
                    continue
                Ad = gen(rng, cls, n, cplxA)
                for fi, fmt in enumerate(fmts):
                    if fi and n > 6 and tier == 'quick' and (n + fi) % 2:
                        continue
                    A = mk(fmt, Ad)
                    s = new_solver(expr)
                    try:
                        s.update(A)
                    except Exception as e:
                        r.case((name, cls, cplxA, n, fmt))
                        r.check(False, 'update() raises for a matrix of the documented class', (name, cls, cplxA, n, fmt), repr(e)[:300],
                                replay_code=REPLAY_HEAD + HELPERS + f"Ad = {arr(Ad)}\ns = {expr}\ns.update(mk('{fmt}', Ad))\n")
                        continue
                    for cplxb in (False, True):
                        if name == 'SparseLU' and cplxb and not cplxA:
                            continue            # see sparselu_complex_rhs
                        for (bn, b), t in itertools.product(rhs_set(rng, n, cplxb), 'NTH'):
                            x0 = None
                            if bn == 'col':
                                x0 = rng.uniform(-1, 1, b.shape).astype(np.result_type(Ad, b))
                            check_solve(r, (name, cls, 'cA' if cplxA else 'rA', n, fmt, 'cb' if cplxb else 'rb', bn, t), s, expr, fmt, Ad, b, t, x0=x0)
                    r.check(np.array_equal(dense(A), Ad), 'update()/solve() do not modify the matrix', (name, cls, cplxA, n, fmt))


@bound('each direct solver object driven through update(A1) solve, solve again (same answer), update(A2) solve, update(A1) solve with A1, A2 of the same class '
       '(Cholesky: positive definite -> indefinite -> positive definite, i.e. success flag toggles), n = 5, all modes, real and complex')
def direct_histories(r, tier, seed):
    rng = np.random.default_rng(seed + 1)
    plan = [('Diagonal', ['diag', 'diag', 'diag']), ('QR', ['general', 'general', 'lower']), ('LU', ['general', 'perm', 'general']), ('Cholesky', ['spd', 'indef', 'spd']),
            ('Cholesky', ['indef', 'spd', 'snd']), ('LDL', ['indef', 'spd', 'zdiag4']), ('LDL-herm', ['spd', 'indef', 'spd']), ('SparseLU', ['general', 'indef', 'general'])]
    for (name, seq), cplx in itertools.product(plan, (False, True)):
        expr, _, fmts = SOLVERS[name]
        fmt = fmts[0]
        mats = [gen(rng, c.rstrip('4'), 4 if c.endswith('4') else 5, cplx) for c in seq]
        if name == 'LDL' and cplx:
            mats[2] = gen(rng, 'indef', 5, cplx)     # stay within the Hermitian class
        s = new_solver(expr)
        for k, Ad in enumerate(mats + [mats[0]]):
            s.update(mk(fmt, Ad))
            n = Ad.shape[0]
            for t in 'NTH':
                b = rng.uniform(-1, 1, (n, 2)) + (1j * rng.uniform(-1, 1, (n, 2)) if cplx else 0)
                x = check_solve(r, (name, tuple(seq), cplx, k, t), s, expr, fmt, Ad, b, t)
                if x is not None:
                    x2 = s.solve(b.copy(), trans=t)
                    r.check(np.array_equal(x, x2), 'repeated solve() gives the identical answer', (name, tuple(seq), cplx, k, t))
        # the same object after the history equals a fresh one
        b = rng.uniform(-1, 1, 5)
        try:
            fresh = new_solver(expr)
            fresh.update(mk(fmt, mats[0]))
            same = np.allclose(s.solve(b.copy()), fresh.solve(b.copy()), rtol=1e-12, atol=1e-14)
        except Exception as e:
            same = False
        r.check(same, 'solver after a history of updates equals a fresh solver', (name, tuple(seq), cplx))


@bound('single precision: float32 / complex64 matrix and rhs (n = 6, general / s.p.d. / indefinite / diagonal as admitted by the solver) for Diagonal, QR, LU, Cholesky, LDL, '
       'SparseLU, modes N/T/H, vector and block: answer in single precision with backward error <= 1e-5; double matrix with single rhs: double answer')
def single_precision(r, tier, seed):
    rng = np.random.default_rng(seed + 8)
    for name, cls in (('Diagonal', 'diag'), ('QR', 'general'), ('LU', 'general'), ('Cholesky', 'spd'), ('LDL', 'indef'), ('SparseLU', 'general')):
        expr, _, fmts = SOLVERS[name]
        for cplx in (False, True):
            Ad64 = gen(rng, cls, 6, cplx, kappa=10.0)
            for single_A in (True, False):
                Ad = Ad64.astype(np.complex64 if cplx else np.float32) if single_A else Ad64
                s = new_solver(expr)
                s.update(mk(fmts[-1] if name != 'Diagonal' else 'dense', Ad))
                for shape, t in itertools.product(((6,), (6, 2)), 'NTH'):
                    b = rng.uniform(-1, 1, shape).astype(np.float32)
                    if cplx:
                        b = (b + 1j * rng.uniform(-1, 1, shape)).astype(np.complex64)
                    key = (name, cplx, single_A, shape, t)
                    r.case(key)
                    want = np.result_type(Ad, b)
                    code = (REPLAY_HEAD + HELPERS + f"Ad = {arr(Ad)}\ns = {expr}\ns.update(mk('{fmts[-1] if name != 'Diagonal' else 'dense'}', Ad))\nb = {arr(b)}\n"
                            f"x = s.solve(b.copy(), trans='{t}')\nprint(x.dtype, berr(op(Ad, '{t}').astype(complex), x, b))\nassert x.dtype == np.{want} and berr(op(Ad, '{t}').astype(complex), x, b) <= 1e-5\n")
                    try:
                        x = s.solve(b.copy(), trans=t)
                        val = berr(op(Ad, t).astype(complex), x, b)
                        r.check(x.shape == b.shape and x.dtype == want and val <= 1e-5, 'answer has the precision of result_type(A, b) and solves the system', key, [str(x.dtype), val], [str(want), 1e-5],
                                replay_code=code)
                    except Exception as e:
                        r.check(False, 'solve() raises for single-precision data', key, repr(e)[:300], replay_code=code)


@bound('real matrix (general, s.p.d.; csc/csr; n in {3,6}) with a complex rhs reaching a SuperLU factorisation: SolverSparseLU, CG+SOR, CG+ILU (s.p.d. only); all modes and '
       'rhs shapes: region of ' + F_SPLU)
def sparselu_complex_rhs(r, tier, seed):
    rng = np.random.default_rng(seed + 2)
    for sname, expr, cg_tol in (('SparseLU', SOLVERS['SparseLU'][0], None), ('CG+SOR', "pym.solvers.CG(preconditioner=pym.solvers.SOR(), tol=1e-9, maxit=300)", 1e-9),
                                ('CG+ILU', "pym.solvers.CG(preconditioner=pym.solvers.ILU(), tol=1e-9, maxit=300)", 1e-9)):
        for cls, n, fmt in itertools.product(('general', 'spd'), (3, 6), ('csc', 'csr')):
            if cg_tol and cls != 'spd':
                continue
            Ad = gen(rng, cls, n, False)
            s = new_solver(expr)
            s.update(mk(fmt, Ad))
            for (bn, b), t in itertools.product(rhs_set(rng, n, True)[:3], 'NTH'):
                check_solve(r, (sname, cls, n, fmt, bn, t), s, expr, fmt, Ad, b, t, cg_tol=cg_tol, finding=F_SPLU)


# ------------------------------------------------------------------------------------------------ CG and preconditioners
PRECS = {'identity': 'pym.solvers.Preconditioner()', 'jacobi': 'pym.solvers.DampedJacobi()', 'jacobi0.6': 'pym.solvers.DampedJacobi(w=0.6)',
         'sor': 'pym.solvers.SOR()', 'sor1.5': 'pym.solvers.SOR(w=1.5)', 'sor0.5': 'pym.solvers.SOR(w=0.5)', 'ilu': 'pym.solvers.ILU()',
         'ilu-drop': 'pym.solvers.ILU(drop_tol=0.05, fill_factor=2)'}


@bound('CG (tol 1e-9 and 1e-6, restart 50 and 3) with preconditioners identity, DampedJacobi(w=1, 0.6), SOR(w=1, 1.5, 0.5), ILU (default, with dropping) on real s.p.d. and '
       'complex H.p.d. matrices, cond 50, n in {1,2,6,11} [quick] / + {20,40} [thorough], storage csr/csc (dense for identity/jacobi/sor); rhs real/complex (n), (n,1), '
       '(n,3) dependent columns, Fortran, strided; modes N/T/H; x0 absent / zero / random / exact solution (no iteration then), vector and block; '
       'number of preconditioner applications <= n + n/4 + 2 (finite termination of conjugate directions; n + 7 at most observed for n = 40)')
def cg_preconditioned(r, tier, seed):
    rng = np.random.default_rng(seed + 3)
    ns = (1, 2, 6, 11) if tier == 'quick' else (1, 2, 6, 11, 20, 40)
    for pi, (pname, pexpr) in enumerate(PRECS.items()):
        for n, cplxA in itertools.product(ns, (False, True)):
            Ad = gen(rng, 'spd', n, cplxA)
            fmts = ['csr', 'csc'] + (['dense'] if pname in ('identity', 'jacobi', 'sor') else [])
            fmt = fmts[(n + pi) % len(fmts)]
            for tol, restart in ((1e-9, 50), (1e-6, 3)):
                if tol == 1e-6 and (n + pi) % 2:
                    continue
                expr = f"pym.solvers.CG(preconditioner=Count({pexpr}), tol={tol!r}, restart={restart}, maxit=300)"
                s = new_solver(expr)
                pc = s.preconditioner
                itmax = n + 2 + n // 4
                try:
                    s.update(mk(fmt, Ad))
                except Exception as e:
                    r.case((pname, n, cplxA, fmt))
                    r.check(False, 'CG.update() raises', (pname, n, cplxA, fmt), repr(e)[:300], replay_code=REPLAY_HEAD + HELPERS + f"Ad = {arr(Ad)}\ns = {expr}\ns.update(mk('{fmt}', Ad))\n")
                    continue
                for cplxb in (False, True):
                    if cplxb and not cplxA and pname.startswith(('ilu', 'sor')):
                        continue        # SuperLU factors of a real matrix reject a complex rhs: see sparselu_complex_rhs
                    for (bn, b), t in itertools.product(rhs_set(rng, n, cplxb), 'NTH'):
                        key = (pname, n, 'cA' if cplxA else 'rA', fmt, tol, 'cb' if cplxb else 'rb', bn, t)
                        pc.n = 0
                        check_solve(r, key, s, expr, fmt, Ad, b, t, cg_tol=tol)
                        its = f"b = {arr(b)}\ns.solve(b, trans='{t}')\nprint(s.preconditioner.n)\nassert s.preconditioner.n <= {itmax}\n"
                        r.check(pc.n <= itmax, 'CG terminates within n (+ n/4 + 2 for round-off) preconditioner applications (conjugate directions)', key, pc.n, itmax,
                                replay_code=REPLAY_HEAD + HELPERS + f"Ad = {arr(Ad)}\ns = {expr}\ns.update(mk('{fmt}', Ad))\n" + its)
                        if bn in ('vec', 'dep3') and t != 'T':
                            for xk in ('zero', 'rand', 'exact'):
                                dt = np.result_type(Ad, b)
                                x0 = {'zero': np.zeros(b.shape, dtype=dt), 'rand': rng.uniform(-1, 1, b.shape).astype(dt), 'exact': np.linalg.solve(op(Ad, t), b).astype(dt)}[xk]
                                pc.n = 0
                                check_solve(r, key + (xk,), s, expr, fmt, Ad, b, t, x0=x0, cg_tol=tol)
                                if xk == 'exact':
                                    r.check(pc.n == 0, 'an initial guess that already solves the system is accepted without iterating', key + (xk,), pc.n, 0,
                                            replay_code=REPLAY_HEAD + HELPERS + f"Ad = {arr(Ad)}\ns = {expr}\ns.update(mk('{fmt}', Ad))\nb = {arr(b)}\nx0 = np.linalg.solve(op(Ad, '{t}'), b)\n"
                                            f"s.solve(b, x0=x0, trans='{t}')\nassert s.preconditioner.n == 0, s.preconditioner.n\n")


@bound('CG.solve with a zero right-hand side and with a block containing a zero column (s.p.d. n=6, csr; identity / Jacobi / SOR / ILU): region of ' + F_CG0)
def cg_zero_rhs(r, tier, seed):
    rng = np.random.default_rng(seed + 4)
    Ad = gen(rng, 'spd', 6, False)
    for pname in ('identity', 'jacobi', 'sor', 'ilu'):
        expr = f"pym.solvers.CG(preconditioner={PRECS[pname]}, tol=1e-9, maxit=100)"
        s = new_solver(expr)
        s.update(mk('csr', Ad))
        v = rng.uniform(-1, 1, 6)
        for bn, b in (('zero', np.zeros(6)), ('zero-col', np.zeros((6, 1))), ('block-with-zero-column', np.stack([v, np.zeros(6)], axis=1))):
            r.case((pname, bn))
            code = REPLAY_HEAD + HELPERS + f"Ad = {arr(Ad)}\ns = {expr}\ns.update(mk('csr', Ad))\nb = {arr(b)}\nx = s.solve(b.copy())\nprint(x)\nassert np.all(np.isfinite(x)) and np.linalg.norm(Ad @ x - b) <= 1e-8\n"
            try:
                x = s.solve(b.copy())
                ok = bool(np.all(np.isfinite(x))) and np.linalg.norm(Ad @ x - b) <= 1e-8
            except Exception as e:
                x, ok = repr(e), False
            r.check(ok, 'A x = b solved for a zero rhs / a block with a zero column (x = 0 for the zero column, others unaffected)', (pname, bn), x, 'finite solution', replay_code=code, finding=F_CG0)


@bound('preconditioner algebra on (n,k) blocks, k in {1,3}, n in {1,2,7}, real and complex general matrices with dominant diagonal, modes N/T/H: identity = copy; '
       'DampedJacobi = w D^-1 (H: conj); SOR = op(M)^-1 with M = (D/w + L) (w D^-1/(2-w)) (D/w + U), w in {0.5,1,1.5}; ILU without dropping on a tridiagonal matrix = op(A)^-1; '
       'input not modified, output is a new array')
def preconditioner_algebra(r, tier, seed):
    rng = np.random.default_rng(seed + 5)
    for n, cplx, k in itertools.product((1, 2, 7), (False, True), (1, 3)):
        G = rng.uniform(-1, 1, (n, n)) + (1j * rng.uniform(-1, 1, (n, n)) if cplx else 0)
        d = (n + 1.0) * (np.exp(1j * rng.uniform(-1, 1, n)) if cplx else np.ones(n)) * rng.uniform(1, 2, n)
        Ad = G - np.diag(np.diag(G)) + np.diag(d)
        Tri = np.triu(np.tril(Ad, 1), -1)
        D, L, U = np.diag(np.diag(Ad)), np.tril(Ad, -1), np.triu(Ad, 1)
        B = rng.uniform(-1, 1, (n, k)) + (1j * rng.uniform(-1, 1, (n, k)) if cplx else 0)
        cases = [('identity', 'pym.solvers.Preconditioner()', Ad, np.eye(n))]
        for w in (1.0, 0.6):
            cases.append((f'jacobi{w}', f'pym.solvers.DampedJacobi(w={w})', Ad, D / w))
        for w in (0.5, 1.0, 1.5):
            cases.append((f'sor{w}', f'pym.solvers.SOR(w={w})', Ad, (D / w + L) @ (w * np.linalg.inv(D) / (2 - w)) @ (D / w + U)))
        cases.append(('ilu-exact', 'pym.solvers.ILU(drop_tol=0.0, fill_factor=50)', Tri, Tri))
        for pname, pexpr, Amat, Mref in cases:
            for fmt in (('csc', 'dense') if not pname.startswith('ilu') else ('csc',)):
                p = new_solver(pexpr)
                p.update(mk(fmt, Amat))
                for t in 'NTH':
                    key = (pname, n, cplx, k, fmt, t)
                    r.case(key)
                    Mt = op(Mref, t)
                    if pname.startswith('jacobi') and t == 'T':
                        Mt = Mref      # diagonal
                    want = np.linalg.solve(Mt, B)
                    code = (REPLAY_HEAD + HELPERS + f"Amat = {arr(Amat)}; Mref = {arr(Mref)}; B = {arr(B)}\np = {pexpr}\np.update(mk('{fmt}', Amat))\n"
                            f"z = p.solve(B.copy(), trans='{t}')\nwant = np.linalg.solve(op(Mref, '{t}'), B)\nprint(abs(z - want).max())\nassert z.shape == B.shape and np.allclose(z, want, rtol=1e-10, atol=1e-12)\n")
                    Bin = B.copy()
                    try:
                        z = p.solve(Bin, trans=t)
                    except Exception as e:
                        r.check(False, 'preconditioner solve raises', key, repr(e)[:300], replay_code=code)
                        continue
                    r.check(isinstance(z, np.ndarray) and z.shape == B.shape and np.allclose(z, want, rtol=1e-10, atol=1e-12), 'preconditioner applies op(M)^-1 of its documented M', key,
                            z, want, replay_code=code)
                    r.check(np.array_equal(Bin, B) and z is not Bin and not np.shares_memory(z, Bin), 'preconditioner returns a new array and leaves its input alone', key, replay_code=code)


def lap1(n):
    return sps.diags([-np.ones(n - 1), 2 * np.ones(n), -np.ones(n - 1)], [-1, 0, 1])


def grid_matrix(nx, ny, nz, ndof, shift=0.05):
    """s.p.d. grid operator on the nodes of a (nx, ny, nz)-element box (x fastest), ndof coupled dofs per node"""
    Ix, Iy, Iz = [sps.identity(k + 1) for k in (nx, ny, nz)]
    Lm = sps.kron(Iz, sps.kron(Iy, lap1(nx + 1))) + sps.kron(Iz, sps.kron(lap1(ny + 1), Ix))
    if nz > 0:
        Lm = Lm + sps.kron(lap1(nz + 1), sps.kron(Iy, Ix))
    Lm = Lm + shift * sps.identity(Lm.shape[0])
    C = np.array([[2, .5, .1], [.5, 3, .2], [.1, .2, 1.5]])[:ndof, :ndof]
    return sps.kron(Lm, C)


def interp_ref(nx, ny, nz, ndof):
    """multilinear interpolation coarse -> fine (own construction): 1-D factors, x fastest, dofs interleaved"""
    def p1(nf):
        nc = nf // 2
        P = np.zeros((nf + 1, nc + 1))
        for i in range(nc + 1):
            P[2 * i, i] = 1.0
        for i in range(nc):
            P[2 * i + 1, i] = P[2 * i + 1, i + 1] = 0.5
        return P
    P = np.kron(p1(ny), p1(nx))
    P = np.kron(p1(nz), P) if nz > 0 else P
    return np.kron(P, np.eye(ndof))


@bound('GeometricMultigrid on domains 2x2, 4x2, 2x6, 6x4, 8x8 and 2x2x2, 4x2x2, 2x4x6 [thorough: + 16x12, 4x4x4], 1-3 dofs per node, csr/csc: interpolation matrix equals '
       'the multilinear reference (rows sum to 1); CG + multigrid (V and W, nested 2 levels, SOR smoother, smooth_steps 1/5) solves N/T/H for vector / block / given x0 '
       'to tol 1e-9 with at most 9 preconditioner applications (3-7 observed on the unchanged tree); update with a second matrix')
def multigrid(r, tier, seed):
    rng = np.random.default_rng(seed + 6)
    doms = [(2, 2, 0), (4, 2, 0), (2, 6, 0), (6, 4, 0), (8, 8, 0), (2, 2, 2), (4, 2, 2), (2, 4, 6)] + ([(16, 12, 0), (4, 4, 4)] if tier != 'quick' else [])
    for di, (nx, ny, nz) in enumerate(doms):
        for ndof in (1, 2, 3):
            if nz > 0 and ndof == 2 and tier == 'quick':
                continue
            fmt = ('csr', 'csc')[(di + ndof) % 2]
            A = getattr(grid_matrix(nx, ny, nz, ndof), 'to' + fmt)()
            Ad = A.toarray()
            key = (nx, ny, nz, ndof, fmt)
            head = (REPLAY_HEAD + HELPERS + "def lap1(n):\n    return sps.diags([-np.ones(n - 1), 2 * np.ones(n), -np.ones(n - 1)], [-1, 0, 1])\n"
                    f"nx, ny, nz, ndof = {nx}, {ny}, {nz}, {ndof}\nIx, Iy, Iz = [sps.identity(k + 1) for k in (nx, ny, nz)]\n"
                    "Lm = sps.kron(Iz, sps.kron(Iy, lap1(nx + 1))) + sps.kron(Iz, sps.kron(lap1(ny + 1), Ix))\nif nz > 0:\n    Lm = Lm + sps.kron(lap1(nz + 1), sps.kron(Iy, Ix))\n"
                    "Lm = Lm + 0.05 * sps.identity(Lm.shape[0])\nC = np.array([[2, .5, .1], [.5, 3, .2], [.1, .2, 1.5]])[:ndof, :ndof]\n"
                    f"A = sps.kron(Lm, C).to{fmt}(); Ad = A.toarray()\ndom = pym.DomainDefinition(nx, ny, nz)\n")
            dom = pym.DomainDefinition(nx, ny, nz)
            mg = S.GeometricMultigrid(dom)
            r.case(key + ('R',))
            try:
                mg.update(A)
                R = dense(mg.R)
                want = interp_ref(nx, ny, nz, ndof)
                r.check(R.shape == want.shape and np.allclose(R, want, rtol=0, atol=1e-14) and np.allclose(R.sum(axis=1), 1.0), 'interpolation matrix = multilinear interpolation (partition of unity)', key,
                        replay_code=head + "mg = pym.solvers.GeometricMultigrid(dom)\nmg.update(A)\nR = dense(mg.R)\nprint(R.sum(axis=1))\nassert np.allclose(R.sum(axis=1), 1.0)\n"
                        "def p1(nf):\n    P = np.zeros((nf + 1, nf // 2 + 1))\n    for i in range(nf // 2 + 1):\n        P[2 * i, i] = 1.0\n    for i in range(nf // 2):\n        P[2 * i + 1, i] = P[2 * i + 1, i + 1] = 0.5\n    return P\n"
                        "P = np.kron(p1(ny), p1(nx))\nP = np.kron(p1(nz), P) if nz > 0 else P\nassert np.allclose(R, np.kron(P, np.eye(ndof)), atol=1e-14)\n")
            except Exception as e:
                r.check(False, 'GeometricMultigrid.update raises', key, repr(e)[:300], replay_code=head + "pym.solvers.GeometricMultigrid(dom).update(A)\n")
                continue
            variants = [('V', "pym.solvers.GeometricMultigrid(dom)"), ('W-sor-1', "pym.solvers.GeometricMultigrid(dom, cycle='W', smoother=pym.solvers.SOR(w=1.0), smooth_steps=1)")]
            if nx % 4 == 0 and ny % 4 == 0 and nz % 4 == 0:
                variants.append(('nested', "pym.solvers.GeometricMultigrid(dom, inner_level=pym.solvers.GeometricMultigrid(pym.DomainDefinition(nx // 2, ny // 2, nz // 2)))"))
            for vn, vexpr in variants:
                n = A.shape[0]
                pc = Count(eval(vexpr, {'pym': pym, 'dom': dom, 'nx': nx, 'ny': ny, 'nz': nz}))
                cg = S.CG(preconditioner=pc, tol=1e-9, maxit=200)
                cg.update(A)
                for t, bn in itertools.product('NTH', ('vec', 'blk', 'x0')):
                    b = rng.uniform(-1, 1, n) if bn != 'blk' else rng.uniform(-1, 1, (n, 2))
                    x0 = rng.uniform(-1, 1, n) if bn == 'x0' else None
                    r.case(key + (vn, t, bn))
                    code = head + f"pc = Count({vexpr})\ncg = pym.solvers.CG(preconditioner=pc, tol=1e-9, maxit=200)\ncg.update(A)\nb = {arr(b)}; x0 = {arr(x0)}\nx = cg.solve(b.copy(), x0=x0, trans='{t}')\n" \
                                  f"print(rres(op(Ad, '{t}'), x, b), pc.n)\nassert x.shape == b.shape and rres(op(Ad, '{t}'), x, b) <= 2e-9 and pc.n <= 9\n"
                    pc.n = 0
                    try:
                        x = cg.solve(b.copy(), x0=x0, trans=t)
                        val = rres(op(Ad, t), x, b)
                        r.check(x.shape == b.shape and x.dtype == np.float64 and val <= 2e-9, 'CG + multigrid solves the requested system to its tolerance', key + (vn, t, bn), val, 2e-9, replay_code=code)
                        r.check(pc.n <= 9, 'multigrid is an effective preconditioner (<= 9 applications; 3-7 on the unchanged tree)', key + (vn, t, bn), pc.n, 9, replay_code=code)
                    except Exception as e:
                        r.check(False, 'CG + multigrid raises', key + (vn, t, bn), repr(e)[:300], replay_code=code)
                # update with a second matrix (same structure): solved for the new one
                A2 = (A * 1.7 + sps.identity(n) * 0.3).asformat(fmt)
                cg.update(A2)
                b = rng.uniform(-1, 1, n)
                x = cg.solve(b.copy())
                r.check(rres(A2.toarray(), x, b) <= 2e-9, 'after update(A2) the new system is solved', key + (vn, 'update'))


def sparse_matrix(rng, kind, n, cplx):
    """genuinely sparse, strictly diagonally dominant (dominance ratio 2 => cond <= 3 in the inf-norm) matrices"""
    def vals(m):
        return rng.uniform(-1, 1, m) + (1j * rng.uniform(-1, 1, m) if cplx else 0)
    if kind == 'random':
        M = sps.random(n, n, density=min(1.0, 4.0 / n), random_state=np.random.RandomState(int(rng.integers(1 << 30))), format='lil').astype(complex if cplx else float)
        M = sps.csr_matrix(M)
        M.data = vals(M.nnz)
    elif kind == 'arrow':
        M = sps.lil_matrix((n, n), dtype=complex if cplx else float)
        M[0, :] = vals(n)
        M[:, n - 1] = vals(n).reshape(n, 1)
        M = sps.csr_matrix(M)
    elif kind == 'banded':
        M = sps.diags([vals(n - 3), vals(n - 1), vals(n - 2)], [-3, 1, 2], format='csr')
    elif kind in ('spd-band', 'spd-random'):
        B = sparse_matrix(rng, 'banded' if kind == 'spd-band' else 'random', n, cplx)
        M = sps.csr_matrix(B + B.conj().T)
    M = sps.csr_matrix(M - sps.diags(M.diagonal()))
    rowsum = np.asarray(abs(M).sum(axis=1)).ravel() + np.asarray(abs(M).sum(axis=0)).ravel()
    d = 2.0 * np.maximum(rowsum, 0.5)
    if not kind.startswith('spd'):
        d = d * np.where(np.arange(n) % 3 == 0, -1.0, 1.0) * (np.exp(1j * rng.uniform(-1, 1, n)) if cplx else 1.0)
    return sps.csr_matrix(M + sps.diags(d))


@bound('genuinely sparse matrices (random pattern ~4 entries/row, arrow, banded non-symmetric; banded / random s.p.d. and H.p.d.), strictly diagonally dominant, '
       'n in {12, 37} [quick] / + {150} [thorough], real and complex, csr/csc/coo: SparseLU and auto_determine_solver on all, CG + identity/Jacobi/SOR/ILU on the definite ones; '
       'modes N/T/H; vector, (n,1), dependent block; CG: update() with a second matrix afterwards')
def sparse_patterned(r, tier, seed):
    rng = np.random.default_rng(seed + 9)
    for n, kind, cplxA in itertools.product((12, 37) if tier == 'quick' else (12, 37, 150), ('random', 'arrow', 'banded', 'spd-band', 'spd-random'), (False, True)):
        As = sparse_matrix(rng, kind, n, cplxA)
        Ad = As.toarray()
        names = ['SparseLU', 'auto'] + (['cg-identity', 'cg-jacobi', 'cg-sor', 'cg-ilu'] if kind.startswith('spd') else [])
        for si, sname in enumerate(names):
            fmt = ('csc', 'csr', 'coo')[(si + n) % 3]
            cg_tol = 1e-9 if sname.startswith('cg') else None
            expr = {'SparseLU': SOLVERS['SparseLU'][0], 'auto': f"pym.solvers.auto_determine_solver(mk('{fmt}', Ad))"}.get(sname) or \
                f"pym.solvers.CG(preconditioner={PRECS[sname[3:]]}, tol=1e-9, maxit=300)"
            try:
                s = eval(expr, {'pym': pym, 'mk': mk, 'Ad': Ad})
                s.update(mk(fmt, Ad))
            except Exception as e:
                r.case((kind, n, cplxA, sname))
                r.check(False, 'update() raises on a sparse matrix of the documented class', (kind, n, cplxA, sname, fmt), repr(e)[:300])
                continue
            for cplxb in ((False, True) if cplxA else (False,)):
                for (bn, b), t in itertools.product(rhs_set(rng, n, cplxb)[:3], 'NTH'):
                    check_solve(r, (kind, n, 'cA' if cplxA else 'rA', sname, fmt, 'cb' if cplxb else 'rb', bn, t), s, expr, fmt, Ad, b, t, cg_tol=cg_tol)
            if cg_tol:
                A2 = sparse_matrix(rng, kind, n, cplxA).toarray()
                s.update(mk(fmt, A2))
                b = rhs_set(rng, n, cplxA)[0][1]
                x = s.solve(b.copy(), trans='T')
                r.check(rres(A2.T, x, b) <= 2e-9, 'CG after update(A2) solves the new system', (kind, n, cplxA, sname, 'update'), rres(A2.T, x, b))


@bound('matrix handed to the constructor instead of update(): every direct solver, CG(A, preconditioner), DampedJacobi/SOR/ILU(A) inside CG, GeometricMultigrid(domain, A); '
       'n = 7 (multigrid: 4x2 grid), all modes')
def constructor_with_matrix(r, tier, seed):
    rng = np.random.default_rng(seed + 10)
    Ad = gen(rng, 'spd', 7, True)
    b = rng.uniform(-1, 1, 7) + 1j * rng.uniform(-1, 1, 7)
    exprs = ["pym.solvers.SolverDiagonal(np.diag(np.diag(Ad)))", "pym.solvers.SolverDenseQR(Ad)", "pym.solvers.SolverDenseLU(Ad)", "pym.solvers.SolverDenseCholesky(Ad)",
             "pym.solvers.SolverDenseLDL(Ad)", "pym.solvers.SolverDenseLDL(Ad, hermitian=True)", "pym.solvers.SolverSparseLU(sps.csc_matrix(Ad))",
             "pym.solvers.CG(sps.csr_matrix(Ad), tol=1e-9, maxit=300)", "pym.solvers.CG(sps.csr_matrix(Ad), preconditioner=pym.solvers.SOR(w=1.1), tol=1e-9, maxit=300)",
             "pym.solvers.CG(Ad, pym.solvers.DampedJacobi(Ad), tol=1e-9, maxit=300)", "pym.solvers.CG(sps.csc_matrix(Ad), pym.solvers.ILU(sps.csc_matrix(Ad)), tol=1e-9, maxit=300)"]
    for expr in exprs:
        for t in 'NTH':
            r.case((expr, t))
            A_eff = np.diag(np.diag(Ad)) if 'Diagonal' in expr else Ad
            code = REPLAY_HEAD + HELPERS + f"Ad = {arr(Ad)}; b = {arr(b)}\ns = {expr}\nA_eff = np.diag(np.diag(Ad)) if {'Diagonal' in expr} else Ad\nx = s.solve(b.copy(), trans='{t}')\nassert rres(op(A_eff, '{t}'), x, b) <= 2e-9\n"
            try:
                s = eval(expr, {'pym': pym, 'np': np, 'sps': sps, 'Ad': Ad})
                x = s.solve(b.copy(), trans=t)
                r.check(x.shape == b.shape and rres(op(A_eff, t), x, b) <= 2e-9, 'solver constructed with its matrix solves the requested system', (expr, t), rres(op(A_eff, t), x, b), replay_code=code)
            except Exception as e:
                r.check(False, 'solver constructed with its matrix raises', (expr, t), repr(e)[:300], replay_code=code)
    A = grid_matrix(4, 2, 0, 2).tocsr()
    bb = rng.uniform(-1, 1, A.shape[0])
    r.case('multigrid')
    try:
        cg = S.CG(A, S.GeometricMultigrid(pym.DomainDefinition(4, 2), A), tol=1e-9, maxit=200)
        r.check(rres(A.toarray(), cg.solve(bb.copy()), bb) <= 2e-9, 'CG(A, GeometricMultigrid(domain, A)) solves', 'multigrid')
    except Exception as e:
        r.check(False, 'CG(A, GeometricMultigrid(domain, A)) raises', 'multigrid', repr(e)[:300])


@bound('matrix predicates matrix_is_complex / _sparse / _diagonal / _symmetric / _hermitian against exact equality on every generated class (exactly symmetric / Hermitian '
       'or asymmetric by O(1)), real/complex, n in {1,2,3,6}, storage dense/csr/csc/coo/dia; also single off-diagonal entries (upper only / lower only)')
def classification(r, tier, seed):
    rng = np.random.default_rng(seed + 11)
    mats = []
    for n, cls, cplx in itertools.product((1, 2, 3, 6), ['diag', 'spd', 'indef', 'zdiag', 'csym', 'general', 'lower', 'upper', 'perm'], (False, True)):
        if (cls == 'csym' and not cplx) or (cls == 'zdiag' and (n % 2 or n < 2)) or (cls == 'indef' and n < 2):
            continue
        mats.append((cls, gen(rng, cls, n, cplx)))
    for cplx in (False, True):
        for i, j in ((0, 2), (2, 0), (1, 2)):
            E = np.diag([1.0, 2.0, 3.0]).astype(complex if cplx else float)
            E[i, j] = 1j if cplx else 1.0
            mats.append((f'single-entry{i}{j}', E))
        Hm = np.array([[1, 2 + 1j, 0], [2 - 1j, 3, 0], [0, 0, 1]]) if cplx else np.array([[1.0, 2, 0], [2, 3, 0], [0, 0, 1]])
        mats.append(('block', Hm))
    for cls, Ad in mats:
        want = dict(matrix_is_complex=bool(np.iscomplexobj(Ad)), matrix_is_diagonal=bool(np.array_equal(Ad, np.diag(np.diag(Ad)))),
                    matrix_is_symmetric=bool(np.array_equal(Ad, Ad.T)), matrix_is_hermitian=bool(is_herm(Ad)))
        for fmt in ('dense', 'csr', 'csc', 'coo', 'dia'):
            A = mk(fmt, Ad)
            want['matrix_is_sparse'] = fmt != 'dense'
            for fn, w in want.items():
                key = (cls, Ad.shape[0], bool(np.iscomplexobj(Ad)), fmt, fn)
                r.case(key)
                code = REPLAY_HEAD + HELPERS + f"Ad = {arr(Ad)}\ngot = pym.solvers.{fn}(mk('{fmt}', Ad))\nassert bool(got) == {w}, got\n"
                try:
                    got = bool(getattr(S, fn)(A))
                except Exception as e:
                    got = repr(e)[:200]
                r.check(got == w, f'{fn} agrees with exact equality', key, got, w, replay_code=code)


# ------------------------------------------------------------------------------------------------ auto_determine_solver
@bound('auto_determine_solver on every matrix class (diagonal, s.p.d., negative definite, indefinite, zero-diagonal symmetric, complex symmetric, general, lower / upper '
       'triangular, permutation-like) x real/complex x storage dense/csr/csc/coo x n in {1,2,3,6,11}: the returned solver solves N/T/H for real/complex vector, (n,1) and '
       'dependent block rhs; also with truthfully stated overrides (isdiagonal, ishermitian, issymmetric, ispositivedefinite, is*triangular)')
def auto_solver(r, tier, seed):
    rng = np.random.default_rng(seed + 7)
    classes = ['diag', 'spd', 'snd', 'indef', 'zdiag', 'csym', 'general', 'lower', 'upper', 'perm']
    for n, cls, cplxA in itertools.product(sizes(tier), classes, (False, True)):
        if (cls == 'csym' and not cplxA) or (cls == 'zdiag' and (n % 2 or n < 2)) or (cls == 'indef' and n < 2):
            continue
        Ad = gen(rng, cls, n, cplxA)
        sym, herm = bool(np.array_equal(Ad, Ad.T)), bool(is_herm(Ad))
        for fi, fmt in enumerate(('dense', 'csr', 'csc', 'coo')):
            if tier == 'quick' and fi >= 2 and (n + fi) % 2:
                continue
            overrides = ['']
            if fi < 2:
                overrides.append(f"isdiagonal={cls == 'diag'}, ishermitian={herm}, issymmetric={sym}" + (", ispositivedefinite=True" if cls == 'spd' else '')
                                 + f", islowertriangular={cls in ('lower', 'diag')}, isuppertriangular={cls in ('upper', 'diag')}")
            for ov in overrides:
                pre = "A0 = A\n"
                expr = f"pym.solvers.auto_determine_solver(mk('{fmt}', Ad){', ' if ov else ''}{ov})"
                A = mk(fmt, Ad)
                key0 = (cls, 'cA' if cplxA else 'rA', n, fmt, bool(ov))
                try:
                    s = eval(expr, {'pym': pym, 'mk': mk, 'Ad': Ad})
                    s.update(A)
                except Exception as e:
                    r.case(key0)
                    r.check(False, 'auto_determine_solver / update raises', key0, repr(e)[:300], replay_code=REPLAY_HEAD + HELPERS + f"Ad = {arr(Ad)}\ns = {expr}\ns.update(mk('{fmt}', Ad))\n")
                    continue
                r.check(isinstance(s, S.LinearSolver), 'auto_determine_solver returns a LinearSolver', key0, type(s).__name__)
                for cplxb in (False, True):
                    if cplxb and not cplxA and fmt != 'dense' and not isinstance(s, S.SolverDiagonal):
                        continue        # real sparse matrix with complex rhs: see sparselu_complex_rhs
                    for (bn, b), t in itertools.product(rhs_set(rng, n, cplxb)[:3], 'NTH'):
                        check_solve(r, key0 + (type(s).__name__, 'cb' if cplxb else 'rb', bn, t), s, expr, fmt, Ad, b, t)


CHECKS = [('direct_solvers', direct_solvers), ('direct_histories', direct_histories), ('single_precision', single_precision), ('sparselu_complex_rhs', sparselu_complex_rhs), ('cg_preconditioned', cg_preconditioned),
          ('cg_zero_rhs', cg_zero_rhs), ('preconditioner_algebra', preconditioner_algebra), ('multigrid', multigrid), ('sparse_patterned', sparse_patterned), ('constructor_with_matrix', constructor_with_matrix), ('classification', classification), ('auto_solver', auto_solver)]
