#!/bin/sh
# offline setup: nothing to fetch. Compiles the Lean lemma library if present (cached under /verif/lemmas/.build).
cd "$(dirname "$0")"
[ -x ./lemmas/build.sh ] && ./lemmas/build.sh || true
exit 0
